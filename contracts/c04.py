"""C04 - a corrupted CRC-protected packet is never accepted.

Composition (DESIGN.md 5 C04):
 1. every CRC-carrying `pack` ends in be(2, crc16(everything before))  -> clauses `crc-residue` / `layout` of the
    per-packet contract files (tagged C04 there);
 2. every decoder that returns normally has checked crc16(data[:N]) == 0 -> clauses `crc-gate` (tagged C04 there);
 3. the lemma library below: a burst of <= 16 adjacent bits changes the CRC-16 of a message (lin + inj + b3, induction over
    the common suffix: the state difference after the burst is non-zero by b3 and stays non-zero by inj, lin justifies looking
    at differences), and the residue of message ++ its own CRC is zero (res-iff);
 so a packet p with crc16(p) = 0 and a burst-corrupted p' of the same length with the same length-determining octets have
 N(p') = N(p) = |p| and crc16(p') != 0, and by (2) no decoder returns normally on p'.
The CFDP CRC flag itself is not protected against the very corruption it announces: see the known finding below."""
from pyvc_spec import *
from cfdp_common import mk_conf
from spacepackets.ecss import check_pus_crc
from spacepackets.ecss.tc import PusTc
from spacepackets.cfdp.defs import CrcFlag, LargeFileFlag, TransmissionMode, Direction, SegmentationControl
from spacepackets.cfdp.pdu.prompt import PromptPdu, ResponseRequired
from spacepackets.cfdp.pdu.helper import PduFactory


@lemma(["C04"], "crc16/lemma-library")
def crc_lemmas():
    ensures("res-iff", bv_lemma("res-iff"))
    ensures("lin", bv_lemma("lin"))
    ensures("inj", bv_lemma("inj"))
    ensures("b3", bv_lemma("b3"))
    ensures("zero-state", bv_lemma("zero-state"))
    ensures("table-step", bv_lemma("table-step"))      # table-driven update (as in crcmod) == bit-serial step, all states and octets


@lemma(["C04"], "crc16/crcmod-agrees", native_only=True,
       bounded="crcmod 'crc-ccitt-false' vs the bit-serial reference: its complete 256-entry table, one-octet updates from the register "
               "states (quick: every 16th state x 6 octets, thorough: all 2^24), the catalogue check value and 3000 seeded random strings")
def crcmod_agrees():
    import random
    from crcmod.predefined import mkPredefinedCrcFun, PredefinedCrc
    from pyvc import crc_lemmas
    f = mkPredefinedCrcFun("crc-ccitt-false")
    ensures("check-value", both(f(b"123456789") == 0x29B1, crc_lemmas.crc16_py(b"123456789") == 0x29B1))
    rnd = random.Random(0)
    ok = True
    inc = True
    for _ in range(3000):
        m = bytes(rnd.randrange(256) for _ in range(rnd.randrange(0, 80)))
        ok = ok and f(m) == crc_lemmas.crc16_py(m) and crc16(m) == f(m)
        k = rnd.randrange(0, len(m) + 1)
        c = PredefinedCrc("crc-ccitt-false")
        c.update(m[:k])
        c.update(m[k:])
        inc = inc and c.crcValue == f(m)
    ensures("random-strings", ok)
    ensures("incremental-update", inc)
    # crcmod's own table, all 256 entries, against the table computed from the bit-serial step (with the lemma table-step this
    # leaves only crcmod's byte loop itself to the sampled comparisons)
    ensures("crcmod-table-complete", list(PredefinedCrc("crc-ccitt-false").table) == crc_lemmas.table_py())
    # one-octet update of crcmod from EVERY register state (thorough tier: every state x every octet; quick: every 16th state)
    stride = by_tier(16, 1)
    single = True
    for s0 in range(0, 65536, stride):
        for b0 in (range(256) if stride == 1 else (0, 1, 0x80, 0xFF, s0 & 0xFF, (s0 >> 8) & 0xFF)):
            if f(bytes([b0]), s0) != crc_lemmas.step_py(s0, b0):
                single = False
    ensures("crcmod-single-octet-update", single)
    for name in ("res-iff", "lin", "inj", "b3", "zero-state"):
        ensures("native-" + name, bv_lemma(name))


@obligation(["C04"], "check_pus_crc", verifies=["spacepackets.ecss:check_pus_crc"])
def pus_crc_check(data: Bytes):
    """the standalone PUS CRC check reports exactly 'residue is zero'"""
    ensures("verdict", check_pus_crc(data) == (crc16(data) == 0))


W1 = Choice(1, 2)


@obligation(["C04"], "cfdp/crc-flag-bit-error")
def cfdp_crc_flag_bit(we: W1, ws: W1, src: IntRange(0, 255), seq: IntRange(0, 255), dst: IntRange(0, 255),
                      mode: EnumOf(TransmissionMode), large: EnumOf(LargeFileFlag), resp: EnumOf(ResponseRequired)):
    """single-bit error in the CRC flag of a CRC-protected PDU (octet 0, bit 1: not a length-determining octet).
    727.0-B-5 puts the flag that announces the checksum inside the data it would protect, so a decoder cannot notice this
    particular error: recorded as a known finding (KNOWN_FINDINGS.json), every other position is covered by the lemma chain."""
    conf = mk_conf(we, ws, src, seq, dst, mode, CrcFlag.WITH_CRC, large, Direction.TOWARDS_RECEIVER, SegmentationControl.NO_RECORD_BOUNDARIES_PRESERVATION)
    raw = PromptPdu(conf, resp).pack()
    ensures("uncorrupted-accepted", outcome(PromptPdu.unpack, raw).ok)
    corrupted = be(1, raw[0] - 2) + raw[1:len(raw)]
    o = outcome(PduFactory.from_raw, corrupted)
    ensures("flag-bit-error-refused", not o.ok)
