"""C16 - PUS verification tracker (spacepackets/ecss/pus_verificator.py).

History property by induction: every operation is verified against the state-machine spec
`sm_step` on a tracker in an ARBITRARY state (an `open_dict`: any number of telecommands, each with
an arbitrary status record and an arbitrary step list), with a whole-view post-condition: the entry
of the reported telecommand changes as `sm_step` says and the entry under any OTHER request ID `j`
(universally quantified) is untouched.  The claim for every finite history follows by induction on
its length; the lemmas at the end are facts about `sm_step` alone (never reverts, failed step
sticks, step list only grows)."""
from pyvc_spec import *
from spacepackets.ecss.tc import PusTc
from spacepackets.ecss.req_id import RequestId
from spacepackets.ecss.fields import PacketFieldEnum
from spacepackets.ecss.pus_1_verification import (
    FailureNotice, StepId, ErrorCode, Service1Tm, VerificationParams,
    create_acceptance_success_tm, create_acceptance_failure_tm, create_start_success_tm, create_start_failure_tm,
    create_step_success_tm, create_step_failure_tm, create_completion_success_tm, create_completion_failure_tm)
from spacepackets.ecss.pus_verificator import PusVerificator, VerificationStatus, StatusField, TmCheckResult

M = "spacepackets.ecss.pus_verificator:"
UNSET, FAILURE, SUCCESS = -1, 0, 1
U32 = IntRange(0, 4294967295)
STATUS_FIELDS = [Bool, EnumOf(StatusField), EnumOf(StatusField), EnumOf(StatusField), IntList, EnumOf(StatusField)]


def mk_status(all_recvd, accepted, started, step, step_list, completed):
    return VerificationStatus(all_verifs_recvd=all_recvd, accepted=accepted, started=started, step=step,
                              step_list=step_list, completed=completed)


def mk_req_id(u):
    return RequestId.unpack(be(4, u))


def req_id_key(r):
    return r.as_u32()


def arbitrary_tracker():
    """a tracker holding any number of telecommands in any states"""
    v = PusVerificator()
    v._verif_dict = open_dict("M", U32, mk_req_id, req_id_key, STATUS_FIELDS, mk_status)
    return v


def view(s):
    """abstract value of a status record"""
    return (s.all_verifs_recvd, s.accepted, s.started, s.step, s.step_list, s.completed)


# ---------------------------------------------------------------------------------------------
# the state machine, written from the property statement and the class documentation
# ---------------------------------------------------------------------------------------------
def sm_step(s, sub, step_id):
    """s = (all, accepted, started, step, step_list, completed) -> successor for report `sub` (1..8)"""
    all_, acc, sta, stp, steps, comp = s
    acc_and_start_known = both(acc != UNSET, sta != UNSET)
    if sub == 1:    # acceptance success
        return (all_, SUCCESS, sta, stp, steps, comp)
    if sub == 2:    # acceptance failure: nothing more can follow
        return (True, FAILURE, sta, stp, steps, comp)
    if sub == 3:    # start success
        return (all_, acc, SUCCESS, stp, steps, comp)
    if sub == 4:    # start failure: finished once the acceptance report is in
        return (either(all_, acc != UNSET), acc, FAILURE, stp, steps, comp)
    if sub == 5:    # step success: recorded; never overwrites a failed step
        if stp == UNSET:
            return (all_, acc, sta, SUCCESS, steps + [step_id], comp)
        return (all_, acc, sta, stp, steps + [step_id], comp)
    if sub == 6:    # step failure: recorded; finished once acceptance and start reports are in
        return (either(all_, acc_and_start_known), acc, sta, FAILURE, steps + [step_id], comp)
    if sub == 7:    # completion success
        return (either(all_, acc_and_start_known), acc, sta, stp, steps, SUCCESS)
    return (either(all_, acc_and_start_known), acc, sta, stp, steps, FAILURE)   # 8: completion failure


def report_for(sub, tc, step):
    """a real service-1 report of subservice `sub` for telecommand `tc`, built with the public helpers"""
    ts = be(1, 0) + be(2, 0) + be(4, 0)
    notice = FailureNotice(ErrorCode(pfc=8, val=1), be(1, 0))
    step_id = StepId.with_byte_size(1, step)
    if sub == 1:
        return create_acceptance_success_tm(3, tc, ts)
    if sub == 2:
        return create_acceptance_failure_tm(3, tc, notice, ts)
    if sub == 3:
        return create_start_success_tm(3, tc, ts)
    if sub == 4:
        return create_start_failure_tm(3, tc, notice, ts)
    if sub == 5:
        return create_step_success_tm(3, tc, step_id, ts)
    if sub == 6:
        return create_step_failure_tm(3, tc, step_id, notice, ts)
    if sub == 7:
        return create_completion_success_tm(3, tc, ts)
    return create_completion_failure_tm(3, tc, notice, ts)


def tc_with(apid, count):
    return PusTc(service=17, subservice=1, apid=apid, seq_count=count)


# ---------------------------------------------------------------------------------------------
@obligation(["C16"], "PusVerificator.add_tc", verifies=[M + "PusVerificator.add_tc", M + "PusVerificator.__init__"])
def add_tc(apid: IntRange(0, 2047), count: IntRange(0, 16383), j: U32):
    v = arbitrary_tracker()
    tc = tc_with(apid, count)
    k = RequestId.from_pus_tc(tc)
    was_known = k in v.verif_dict
    before_k = snapshot(v.verif_dict.get(k))
    other = mk_req_id(j)
    requires(j != k.as_u32())      # another telecommand: its 32 request-ID bits differ (not stated through __eq__, which is itself under test)
    before_j = v.verif_dict.get(other)
    before_j_view = snapshot(before_j)
    r = v.add_tc(tc)
    ensures("duplicate-refused", r == (not was_known))
    ensures("registered", k in v.verif_dict)
    now = v.verif_dict.get(k)
    if was_known:
        ensures("duplicate-leaves-entry", same_state(now, before_k))
    else:
        ensures("fresh-entry-initial", both(now.all_verifs_recvd == False, now.accepted == UNSET, now.started == UNSET,
                                            now.step == UNSET, now.step_list == [], now.completed == UNSET))
    ensures("others-untouched", both(is_same(v.verif_dict.get(other), before_j), same_state(before_j, before_j_view)))


@obligation(["C16"], "PusVerificator.add_tm", verifies=[M + "PusVerificator.add_tm", M + "PusVerificator._check_subservice",
                                                        M + "PusVerificator._handle_step_failure",
                                                        M + "PusVerificator._check_all_replies_recvd_after_step"])
def add_tm(apid: IntRange(0, 2047), count: IntRange(0, 16383), sub: Choice(1, 2, 3, 4, 5, 6, 7, 8), step: IntRange(0, 255), j: U32):
    add_tm_clauses(arbitrary_tracker(), apid, count, sub, step, j)


def add_tm_clauses(v, apid, count, sub, step, j):
    """one report fed to tracker `v`, judged against what `v.verif_dict` holds immediately before"""
    tc = tc_with(apid, count)
    k = RequestId.from_pus_tc(tc)
    tm = report_for(sub, tc, step)
    known = k in v.verif_dict
    entry = v.verif_dict.get(k)
    old = snapshot(entry)
    if j is not None:
        other = mk_req_id(j)
        requires(j != k.as_u32())      # another telecommand: its 32 request-ID bits differ (not stated through __eq__, which is itself under test)
        before_j = v.verif_dict.get(other)
        before_j_view = snapshot(before_j)
    r = v.add_tm(tm)
    if not known:
        ensures("unknown-no-result", r is None)
        ensures("unknown-not-added", not (k in v.verif_dict))
    else:
        ensures("result-present", r is not None)
        ensures("same-entry-object", both(is_same(v.verif_dict.get(k), entry), is_same(r.status, entry)))
        ensures("state-machine", same_state(view(entry), sm_step(view(old), sub, step)))
        ensures("completed-flag", r.completed == either(sub == 2, sub == 4, sub == 6, sub == 7, sub == 8))
        ensures("all-recvd-never-reverts", implies(old.all_verifs_recvd, entry.all_verifs_recvd))
        ensures("failed-step-sticks", implies(old.step == FAILURE, entry.step == FAILURE))
    if j is not None:
        ensures("others-untouched", both(is_same(v.verif_dict.get(other), before_j), same_state(before_j, before_j_view)))


def warm_up(v, op1, apid1, count1, sub1):
    """any one earlier operation on the tracker (the harnesses above start from an arbitrary DICTIONARY; state a change might
    keep elsewhere - a look-up cache, a set of finished IDs - only exists after an operation has run)"""
    tc1 = tc_with(apid1, count1)
    if op1 == 0:
        v.add_tm(report_for(sub1, tc1, 1))
    elif op1 == 1:
        v.remove_entry(RequestId.from_pus_tc(tc1))
    elif op1 == 2:
        v.remove_completed_entries()
    elif op1 == 3:
        v.add_tm(report_for(sub1, tc1, 1))
        v.remove_completed_entries()
    else:
        v.add_tc(tc1)


@obligation(["C16"], "PusVerificator/two-operations/add_tm", verifies=[M + "PusVerificator.add_tm", M + "PusVerificator.remove_entry",
                                                                      M + "PusVerificator.remove_completed_entries", M + "PusVerificator.add_tc"])
def second_add_tm(op1: Choice(0, 1, 2, 3), apid1: IntRange(0, 2047), count1: IntRange(0, 16383),
                  apid: IntRange(0, 2047), count: IntRange(0, 16383), sub: Choice(1, 2, 3, 4, 5, 6, 7, 8), step: IntRange(0, 255)):
    """a report after ANY earlier operation (for the same or another telecommand) is judged by the dictionary alone"""
    v = arbitrary_tracker()
    warm_up(v, op1, apid1, count1, 2)
    add_tm_clauses(v, apid, count, sub, step, None)


@obligation(["C16"], "PusVerificator/two-operations/add_tc-remove", verifies=[M + "PusVerificator.add_tm", M + "PusVerificator.remove_entry",
                                                                             M + "PusVerificator.remove_completed_entries", M + "PusVerificator.add_tc"])
def second_add_tc_remove(op1: Choice(0, 1, 2, 3, 4), apid1: IntRange(0, 2047), count1: IntRange(0, 16383), sub1: Choice(2, 7),
                         apid: IntRange(0, 2047), count: IntRange(0, 16383)):
    """registering / removing a telecommand after ANY earlier operation answers by the dictionary alone"""
    v = arbitrary_tracker()
    warm_up(v, op1, apid1, count1, sub1)
    tc = tc_with(apid, count)
    k = RequestId.from_pus_tc(tc)
    was_known = k in v.verif_dict
    ensures("duplicate-refused", v.add_tc(tc) == (not was_known))
    now = v.verif_dict.get(k)
    ensures("registered", now is not None)
    if not was_known:
        ensures("fresh-entry-initial", both(now.all_verifs_recvd == False, now.accepted == UNSET, now.started == UNSET,
                                            now.step == UNSET, now.step_list == [], now.completed == UNSET))
    ensures("remove-answers-true", v.remove_entry(k) == True)
    ensures("gone", not (k in v.verif_dict))
    ensures("report-for-removed-yields-nothing", v.add_tm(report_for(1, tc, 0)) is None)


@obligation(["C16"], "PusVerificator.add_tm/invalid-subservice", verifies=[M + "PusVerificator.add_tm"])
def add_tm_invalid(apid: IntRange(0, 2047), count: IntRange(0, 16383), sub: IntRange(0, 255)):
    """a report whose subservice is outside 1..8 is refused with ValueError and changes nothing"""
    requires(either(sub <= 0, sub > 8))
    v = arbitrary_tracker()
    tc = tc_with(apid, count)
    k = RequestId.from_pus_tc(tc)
    ts = be(1, 0) + be(2, 0) + be(4, 0)
    if sub % 2 == 0:
        params = VerificationParams(k, failure_notice=FailureNotice(ErrorCode(pfc=8, val=1), be(1, 0)))
    else:
        params = VerificationParams(k)
    tm = Service1Tm(apid=3, subservice=sub, timestamp=ts, verif_params=params)
    entry = v.verif_dict.get(k)
    old = snapshot(entry)
    o = outcome(v.add_tm, tm)
    if entry is None:
        ensures("unknown-no-result", both(o.ok, o.value is None))
    else:
        ensures("refused", o.raised(ValueError))
        ensures("entry-unchanged", both(is_same(v.verif_dict.get(k), entry), same_state(entry, old)))


@obligation(["C16"], "PusVerificator.remove_entry", verifies=[M + "PusVerificator.remove_entry"])
def remove_entry(u: U32, j: U32):
    v = arbitrary_tracker()
    k = mk_req_id(u)
    other = mk_req_id(j)
    requires(j != k.as_u32())      # another telecommand: its 32 request-ID bits differ (not stated through __eq__, which is itself under test)
    known = k in v.verif_dict
    before_j = v.verif_dict.get(other)
    before_j_view = snapshot(before_j)
    r = v.remove_entry(k)
    ensures("answer", r == known)
    ensures("gone", not (k in v.verif_dict))
    ensures("others-untouched", both(is_same(v.verif_dict.get(other), before_j), same_state(before_j, before_j_view)))


@obligation(["C16"], "PusVerificator.remove_completed_entries", verifies=[M + "PusVerificator.remove_completed_entries"])
def remove_completed(j: U32):
    """removes exactly the entries marked finished: for EVERY request ID j"""
    v = arbitrary_tracker()
    key = mk_req_id(j)
    before = v.verif_dict.get(key)
    before_view = snapshot(before)
    v.remove_completed_entries()
    after = v.verif_dict.get(key)
    if before is None:
        ensures("absent-stays-absent", after is None)
    elif before_view.all_verifs_recvd:
        ensures("finished-removed", after is None)
    else:
        ensures("unfinished-kept", both(is_same(after, before), same_state(before, before_view)))


@obligation(["C16"], "PusVerificator.remove_completed_entries/after-activity",
            verifies=[M + "PusVerificator.remove_completed_entries", M + "PusVerificator.add_tm"])
def remove_completed_after_report(apid: IntRange(0, 2047), count: IntRange(0, 16383), sub: Choice(2, 4, 7), j: U32):
    """an entry finished by a report fed just before is removed; one not finished is kept"""
    v = arbitrary_tracker()
    tc = tc_with(apid, count)
    k = RequestId.from_pus_tc(tc)
    entry = v.verif_dict.get(k)
    requires(entry is not None)
    v.add_tm(report_for(sub, tc, 0))
    finished = entry.all_verifs_recvd
    v.remove_completed_entries()
    ensures("removed-iff-finished", (k in v.verif_dict) == (not finished))
    other = mk_req_id(j)
    requires(j != k.as_u32())      # another telecommand: its 32 request-ID bits differ (not stated through __eq__, which is itself under test)
    o_after = v.verif_dict.get(other)
    if o_after is not None:
        ensures("kept-entries-are-unfinished", not o_after.all_verifs_recvd)


# ---------------------------------------------------------------------------------------------
# lemmas over the state machine alone (used for the induction over histories)
# ---------------------------------------------------------------------------------------------
@lemma(["C16"], "sm_step/monotone")
def sm_monotone(all_: Bool, acc: IntRange(-1, 1), sta: IntRange(-1, 1), stp: IntRange(-1, 1), steps: IntList, comp: IntRange(-1, 1),
                sub: Choice(1, 2, 3, 4, 5, 6, 7, 8), step: IntRange(0, 255)):
    s = (all_, acc, sta, stp, steps, comp)
    n = sm_step(s, sub, step)
    ensures("all-recvd-never-reverts", implies(all_, n[0]))
    ensures("failed-step-sticks", implies(stp == FAILURE, n[3] == FAILURE))
    ensures("step-list-only-grows", either(n[4] == steps, n[4] == steps + [step]))
    ensures("acceptance-failure-finishes", implies(sub == 2, n[0]))
    ensures("finished-iff-documented",
            n[0] == either(all_, sub == 2, both(sub == 4, acc != UNSET),
                           both(either(sub == 6, sub == 7, sub == 8), acc != UNSET, sta != UNSET)))
    ensures("only-own-field", both(implies(sub > 2, n[1] == acc), implies(either(sub < 3, sub > 4), n[2] == sta),
                                   implies(either(sub < 5, sub > 6), both(n[3] == stp, n[4] == steps)),
                                   implies(sub < 7, n[5] == comp)))
