"""C20 - unsigned byte fields (spacepackets/util.py)."""
from pyvc_spec import *
from spec_util import pow256, width_ok, hex_view, twos_complement
from spacepackets.util import (
    UnsignedByteField, ByteFieldEmpty, ByteFieldU8, ByteFieldU16, ByteFieldU32, ByteFieldU64,
    ByteFieldGenerator, IntByteConversion,
)

M = "spacepackets.util:"
WIDTH = Choice(0, 1, 2, 4, 8)
WIDTH1 = Choice(1, 2, 4, 8)


@obligation(["C20"], "UnsignedByteField.__init__", verifies=[M + "UnsignedByteField.__init__", M + "UnsignedByteField.verify_byte_len",
                                                              M + "UnsignedByteField._verify_int_value", M + "IntByteConversion.to_unsigned"])
def ubf_init(val: Int, width: Int):
    o = outcome(UnsignedByteField, val, width)
    if width_ok(width):
        bad = either(val < 0, val >= pow256(width))
    else:
        bad = True
    ensures("valueerror-iff", o.raised(ValueError) == bad)
    ensures("raises-only", o.ok or o.raised(ValueError))
    if o.ok:
        f = o.value
        ensures("octets", f.as_bytes == be(width, val))
        ensures("int-view", int(f) == val)
        ensures("value-view", f.value == val)
        ensures("len-view", both(len(f) == width, f.byte_len == width, len(f.as_bytes) == width))
        ensures("hex-view", f.hex_str == hex_view(val, width))


@obligation(["C20"], "UnsignedByteField.from_bytes", verifies=[M + "UnsignedByteField.from_bytes"])
def ubf_from_bytes(width: WIDTH, val: Int):
    requires(0 <= val < pow256(width))
    f = UnsignedByteField(val, width)
    o = outcome(UnsignedByteField.from_bytes, f.as_bytes)
    ensures("rebuild-ok", o.ok)
    if o.ok:
        ensures("rebuild-equal", both(o.value == f, o.value.value == val, o.value.byte_len == width))


@obligation(["C20", "C10"], "UnsignedByteField.from_bytes/any", verifies=[M + "UnsignedByteField.from_bytes"])
def ubf_from_bytes_any(raw: Bytes):
    o = outcome(UnsignedByteField.from_bytes, raw)
    ensures("raises-only", o.ok or o.raised(ValueError))
    ensures("ok-iff-width", o.ok == width_ok(len(raw)))
    if o.ok:
        ensures("octets", o.value.as_bytes == raw)


@obligation(["C20"], "UnsignedByteField.value.setter/int", verifies=[M + "UnsignedByteField.value"])
def ubf_set_int(width: WIDTH, v0: Int, v1: Int, used_before: Bool):
    requires(0 <= v0 < pow256(width))
    f = UnsignedByteField(v0, width)
    if used_before:      # every view has been taken before the assignment (fills whatever an implementation may cache)
        hash(f), int(f), len(f), f.as_bytes, f.hex_str
    o = outcome(setattr, f, "value", v1)
    ensures("valueerror-iff", o.raised(ValueError) == either(v1 < 0, v1 >= pow256(width)))
    ensures("raises-only", o.ok or o.raised(ValueError))
    if o.ok:
        ensures("coherent", same_state(f, UnsignedByteField(v1, width)))
        ensures("views", both(int(f) == v1, f.as_bytes == be(width, v1), len(f) == width))
        ensures("eq-hash-follow", both(f == UnsignedByteField(v1, width), hash(f) == hash(UnsignedByteField(v1, width))))
    else:
        ensures("unchanged-on-error", both(f == UnsignedByteField(v0, width), f.value == v0, f.as_bytes == be(width, v0),
                                           hash(f) == hash(UnsignedByteField(v0, width))))


@obligation(["C20"], "UnsignedByteField.value.setter/octets", verifies=[M + "UnsignedByteField.value", M + "UnsignedByteField._verify_bytes_value"])
def ubf_set_bytes(width: WIDTH1, v0: Int, raw: Bytes, as_array: Bool, used_before: Bool):
    requires(0 <= v0 < pow256(width))
    f = UnsignedByteField(v0, width)
    if used_before:
        hash(f), int(f), len(f), f.as_bytes, f.hex_str
    arg = bytearray(raw) if as_array else raw
    o = outcome(setattr, f, "value", arg)
    ensures("valueerror-iff", o.raised(ValueError) == (len(raw) < width))
    ensures("raises-only", o.ok or o.raised(ValueError))
    if o.ok:
        ensures("octets", f.as_bytes == raw[0:width])
        ensures("value", f.value == from_be(raw[0:width]))
        ensures("views", both(int(f) == f.value, len(f) == width, f == UnsignedByteField.from_bytes(raw[0:width])))
        fresh = UnsignedByteField(from_be(raw[0:width]), width)
        ensures("eq-hash-follow", both(f == fresh, hash(f) == hash(fresh), len(f.as_bytes) == width))


@obligation(["C20"], "UnsignedByteField.__eq__/__hash__", verifies=[M + "UnsignedByteField.__eq__", M + "UnsignedByteField.__hash__"])
def ubf_eq_hash(w1: WIDTH, v1: Int, w2: WIDTH, v2: Int):
    requires(0 <= v1 < pow256(w1))
    requires(0 <= v2 < pow256(w2))
    a = UnsignedByteField(v1, w1)
    b = UnsignedByteField(v2, w2)
    same = both(v1 == v2, w1 == w2)
    ensures("eq-iff", (a == b) == same)
    ensures("hash-function-of-pair", implies(same, hash(a) == hash(b)))
    ensures("hash-separates", (hash(a) == hash(b)) == same)
    ensures("eq-octets", (a == b.as_bytes) == (a.as_bytes == b.as_bytes))


@obligation(["C20"], "ByteFieldU*", verifies=[M + "ByteFieldU8.__init__", M + "ByteFieldU16.__init__", M + "ByteFieldU32.__init__",
                                              M + "ByteFieldU64.__init__", M + "ByteFieldEmpty.__init__", M + "ByteFieldGenerator.from_int"])
def fixed_width_fields(width: Int, val: Int):
    o = outcome(ByteFieldGenerator.from_int, width, val)
    okw = either(width == 1, width == 2, width == 4, width == 8)
    if okw:
        bad = either(val < 0, val >= pow256(width))
    else:
        bad = True
    ensures("valueerror-iff", o.raised(ValueError) == bad)
    ensures("raises-only", o.ok or o.raised(ValueError))
    if o.ok:
        ensures("agrees-with-ctor", o.value == UnsignedByteField(val, width))
        ensures("octets", o.value.as_bytes == be(width, val))
        if width == 1:
            ensures("u8", same_state(o.value, ByteFieldU8(val)))
        if width == 2:
            ensures("u16", same_state(o.value, ByteFieldU16(val)))
        if width == 4:
            ensures("u32", same_state(o.value, ByteFieldU32(val)))
        if width == 8:
            ensures("u64", same_state(o.value, ByteFieldU64(val)))
    e = ByteFieldEmpty()
    ensures("empty", both(len(e) == 0, int(e) == 0, e.as_bytes == bytes(), e == UnsignedByteField(0, 0)))


@obligation(["C20", "C10"], "ByteFieldGenerator.from_bytes", verifies=[M + "ByteFieldGenerator.from_bytes", M + "ByteFieldU8.from_u8_bytes",
                                                                        M + "ByteFieldU16.from_u16_bytes", M + "ByteFieldU32.from_u32_bytes",
                                                                        M + "ByteFieldU64.from_u64_bytes"])
def generator_from_bytes(width: Int, stream: Bytes):
    o = outcome(ByteFieldGenerator.from_bytes, width, stream)
    okw = either(width == 1, width == 2, width == 4, width == 8)
    ensures("valueerror-iff", o.raised(ValueError) == either(not okw, len(stream) < width))
    ensures("raises-only", o.ok or o.raised(ValueError))
    if o.ok:
        ensures("octets", o.value.as_bytes == stream[0:width])
        ensures("value", o.value.value == from_be(stream[0:width]))
        ensures("width", len(o.value) == width)
        ensures("agrees-with-direct", o.value == UnsignedByteField.from_bytes(stream[0:width]))
        ensures("prefix-only", same_state(o.value, ByteFieldGenerator.from_bytes(width, stream[0:width])))


@obligation(["C20"], "ByteFieldGenerator/roundtrip")
def generator_roundtrip(width: WIDTH1, val: Int, suffix: Bytes):
    requires(0 <= val < pow256(width))
    f = ByteFieldGenerator.from_int(width, val)
    g = ByteFieldGenerator.from_bytes(width, f.as_bytes + suffix)
    ensures("equal", both(g == f, g.value == val, len(g) == width, hash(g) == hash(f)))


@obligation(["C20"], "IntByteConversion", verifies=[M + "IntByteConversion.to_signed", M + "IntByteConversion.to_unsigned",
                                                     M + "IntByteConversion.signed_struct_specifier", M + "IntByteConversion.unsigned_struct_specifier"])
def int_byte_conversion(width: Int, val: Int):
    okw = width_ok(width)
    u = outcome(IntByteConversion.to_unsigned, width, val)
    s = outcome(IntByteConversion.to_signed, width, val)
    if not okw:
        ensures("unsigned-bad-width", u.raised(ValueError))
        ensures("signed-bad-width", s.raised(ValueError))
    else:
        if width == 0:
            ensures("zero-width", both(u.ok, s.ok))
            if u.ok and s.ok:
                ensures("zero-width-empty", both(u.value == bytes(), s.value == bytes()))
        else:
            half = pow256(width) // 2
            ensures("unsigned-too-large", implies(val >= pow256(width), u.raised(ValueError)))
            ensures("unsigned-accepted", implies(both(0 <= val, val < pow256(width)), u.ok))
            if u.ok:
                ensures("unsigned-octets", u.value == be(width, val))
            ensures("signed-too-large", implies(either(val > half - 1, val < -(half - 1)), s.raised(ValueError)))
            ensures("signed-accepted", implies(both(-(half - 1) <= val, val <= half - 1), s.ok))
            if s.ok:
                ensures("signed-octets", s.value == twos_complement(width, val))
