"""C18 - reserved CFDP messages (spacepackets/cfdp/tlv/msg_to_user.py, cfdp/defs.py TransactionId)."""
from pyvc_spec import *
from spec_util import pow256
from spec_cfdp import (tlv, lv, reserved_msg_octets, is_reserved_content, proxy_put_request_fields, proxy_put_response_fields,
                       one_bit_field, originating_transaction_id_fields, dir_listing_request_fields, dir_listing_response_fields,
                       dir_listing_options_fields, MSG_PROXY_PUT_REQUEST, MSG_PROXY_TRANSMISSION_MODE, MSG_PROXY_PUT_RESPONSE,
                       MSG_PROXY_PUT_CANCEL, MSG_ORIGINATING_TRANSACTION_ID, MSG_PROXY_CLOSURE_REQUEST, MSG_DIRECTORY_LISTING_REQUEST,
                       MSG_DIRECTORY_LISTING_RESPONSE, MSG_CUSTOM_LISTING_PARAMETERS)
from cfdp_common import W
from spacepackets.util import ByteFieldGenerator, UnsignedByteField
from spacepackets.cfdp.defs import TransactionId, TransmissionMode, ConditionCode, DeliveryCode, FileStatus
from spacepackets.cfdp.lv import CfdpLv
from spacepackets.cfdp.pdu.finished import FinishedParams
from spacepackets.cfdp.tlv.defs import TlvType, ProxyMessageType, DirectoryOperationMessageType
from spacepackets.cfdp.tlv.msg_to_user import (MessageToUserTlv, ReservedCfdpMessage, ProxyPutRequestParams, ProxyPutRequest,
                                               ProxyCancelRequest, ProxyClosureRequest, ProxyTransmissionMode, OriginatingTransactionId,
                                               DirectoryParams, DirListingOptions, DirectoryListingRequest, DirectoryListingResponse,
                                               DirectoryListingParameters, ProxyPutResponseParams, ProxyPutResponse)

U = "spacepackets.cfdp.tlv.msg_to_user:"
D = "spacepackets.cfdp.defs:"
RESERVED = [U + "MessageToUserTlv.is_reserved_cfdp_message", U + "MessageToUserTlv.to_reserved_msg_tlv", U + "ReservedCfdpMessage.__init__",
            U + "ReservedCfdpMessage.get_reserved_cfdp_message_type", U + "ReservedCfdpMessage.is_cfdp_proxy_operation",
            U + "ReservedCfdpMessage.is_directory_operation", U + "ReservedCfdpMessage.is_originating_transaction_id",
            U + "ReservedCfdpMessage.get_cfdp_proxy_message_type", U + "ReservedCfdpMessage.get_directory_operation_type"]
GETTERS = ("get_originating_transaction_id", "get_proxy_put_request_params", "get_proxy_put_response_params",
           "get_proxy_closure_requested", "get_proxy_transmission_mode", "get_dir_listing_request_params",
           "get_dir_listing_response_params", "get_dir_listing_options")
PROXY, DIROP, ORIGIN = 0, 1, 2


def builder_clauses(msg, msg_type, fields):
    """the builder object itself: octets = message-to-user TLV with 'cfdp', type octet, fields"""
    raw = msg.pack()
    ensures("layout", raw == reserved_msg_octets(msg_type, fields))
    ensures("views", both(msg.tlv_type == TlvType.MESSAGE_TO_USER, msg.packet_len == len(raw), msg.value == raw[2:len(raw)]))
    g = msg.to_generic_msg_to_user_tlv()
    ensures("generic-view", both(kind_of(g) == "MessageToUserTlv", g.pack() == raw))
    return raw


def decode_reserved(raw, suffix):
    """the receiving side: decode the TLV (whatever follows it), recognise it as reserved, convert"""
    m = MessageToUserTlv.unpack(raw + suffix)
    ensures("recognised", is_same(m.is_reserved_cfdp_message(), True))
    r = m.to_reserved_msg_tlv()
    ensures("converted", both(r is not None, kind_of(r) == "ReservedCfdpMessage"))
    ensures("same-octets", both(r.pack() == raw, r.packet_len == len(raw)))
    return r


def classification_clauses(r, msg_type, family):
    """exactly the right kind: one of proxy operation / directory operation / originating transaction ID"""
    ensures("message-type", r.get_reserved_cfdp_message_type() == msg_type)
    ensures("family", both(is_same(r.is_cfdp_proxy_operation(), family == PROXY), is_same(r.is_directory_operation(), family == DIROP),
                           is_same(r.is_originating_transaction_id(), family == ORIGIN)))
    p = r.get_cfdp_proxy_message_type()
    d = r.get_directory_operation_type()
    if family == PROXY:
        ensures("proxy-type", both(p == msg_type, kind_of(p) == "ProxyMessageType", d is None))
    elif family == DIROP:
        ensures("directory-type", both(d == msg_type, kind_of(d) == "DirectoryOperationMessageType", p is None))
    else:
        ensures("no-operation-type", both(p is None, d is None))


def other_getters_none(r, own):
    """every parameter getter of a different message kind answers None"""
    for name in GETTERS:
        if name != own:
            ensures("none-" + name, getattr(r, name)() is None)


# ------------------------------------------------------------------------------------------------ classifier

@obligation(["C18", "C10"], "MessageToUserTlv.is_reserved_cfdp_message", verifies=[U + "MessageToUserTlv.is_reserved_cfdp_message",
                                                                                    U + "MessageToUserTlv.to_reserved_msg_tlv"])
def reserved_classifier(v: BytesLen(0, 255), suffix: Bytes):
    """for ANY message content: a bool, never an exception; True iff 'cfdp' + a message-type octet"""
    m = MessageToUserTlv.unpack(tlv(2, v) + suffix)
    o = outcome(m.is_reserved_cfdp_message)
    ensures("total", o.ok)
    if o.ok:
        ensures("bool", either(is_same(o.value, True), is_same(o.value, False)))
        ensures("true-iff-marker", o.value == is_reserved_content(v))
        if not o.value:
            ensures("not-converted", m.to_reserved_msg_tlv() is None)
        elif v[4] != 255:       # ReservedCfdpMessage documents message types below 255 (assert in its constructor)
            c = outcome(m.to_reserved_msg_tlv)
            ensures("converted", c.ok)
            if c.ok:
                ensures("converted-same-content", both(kind_of(c.value) == "ReservedCfdpMessage", c.value.value == v,
                                                       c.value.get_reserved_cfdp_message_type() == v[4], c.value.pack() == tlv(2, v)))
    d = MessageToUserTlv(v)
    o2 = outcome(d.is_reserved_cfdp_message)
    ensures("total-constructed", o2.ok)
    if o2.ok:
        ensures("true-iff-marker-constructed", o2.value == is_reserved_content(v))


# ------------------------------------------------------------------------------------------------ proxy operations

def put_request_len(w, src, dst):
    return 5 + 1 + w + 1 + len(src) + 1 + len(dst)


@obligation(["C18", "C09"], "ProxyPutRequest", verifies=RESERVED + [U + "ProxyPutRequest.__init__", U + "ReservedCfdpMessage.get_proxy_put_request_params"])
def proxy_put_request(w: W, dest: Int, src: BytesLen(0, 255), dst: BytesLen(0, 255), suffix: Bytes):
    requires(both(0 <= dest, dest < pow256(w)))
    requires(put_request_len(w, src, dst) <= 255)
    params = ProxyPutRequestParams(ByteFieldGenerator.from_int(w, dest), CfdpLv(src), CfdpLv(dst))
    msg = ProxyPutRequest(params)
    raw = builder_clauses(msg, MSG_PROXY_PUT_REQUEST, proxy_put_request_fields(be(w, dest), src, dst))
    r = decode_reserved(raw, suffix)
    classification_clauses(r, MSG_PROXY_PUT_REQUEST, PROXY)
    g = r.get_proxy_put_request_params()
    ensures("params-present", g is not None)
    ensures("params", both(g.dest_entity_id.value == dest, g.dest_entity_id.byte_len == w, g.source_file_name.value == src,
                           g.dest_file_name.value == dst))
    ensures("params-equal", g == params)
    ensures("builder-getter", msg.get_proxy_put_request_params() == params)
    other_getters_none(r, "get_proxy_put_request_params")


@obligation(["C18"], "ProxyPutRequest/too-long", verifies=[U + "ProxyPutRequest.__init__", U + "ReservedCfdpMessage.__init__"])
def proxy_put_request_too_long(w: W, dest: Int, src: BytesLen(0, 255), dst: BytesLen(0, 255)):
    requires(both(0 <= dest, dest < pow256(w)))
    requires(put_request_len(w, src, dst) > 255)
    o = outcome(ProxyPutRequest, ProxyPutRequestParams(ByteFieldGenerator.from_int(w, dest), CfdpLv(src), CfdpLv(dst)))
    ensures("refused", o.raised(ValueError))


@obligation(["C18"], "ProxyPutRequestParams/names", verifies=[U + "ProxyPutRequestParams.source_file_as_str", U + "ProxyPutRequestParams.dest_file_as_str"])
def proxy_put_request_names(src: StrLen(100), dst: StrLen(100)):
    params = ProxyPutRequestParams(ByteFieldGenerator.from_int(1, 7), CfdpLv.from_str(src), CfdpLv.from_str(dst))
    g = MessageToUserTlv.unpack(ProxyPutRequest(params).pack()).to_reserved_msg_tlv().get_proxy_put_request_params()
    ensures("names", both(g.source_file_as_str == src, g.dest_file_as_str == dst))


@obligation(["C18", "C09"], "ProxyPutResponse", verifies=RESERVED + [U + "ProxyPutResponse.__init__", U + "ReservedCfdpMessage.get_proxy_put_response_params",
                                                                     U + "ProxyPutResponseParams.from_finished_params"])
def proxy_put_response(cc: EnumOf(ConditionCode), dc: EnumOf(DeliveryCode), fs: EnumOf(FileStatus), suffix: Bytes):
    requires(cc != ConditionCode.NO_CONDITION_FIELD)    # the response always carries the 4-bit condition code
    params = ProxyPutResponseParams(cc, dc, fs)
    msg = ProxyPutResponse(params)
    raw = builder_clauses(msg, MSG_PROXY_PUT_RESPONSE, proxy_put_response_fields(cc, dc, fs))
    r = decode_reserved(raw, suffix)
    classification_clauses(r, MSG_PROXY_PUT_RESPONSE, PROXY)
    g = r.get_proxy_put_response_params()
    ensures("params-present", g is not None)
    ensures("params", both(g.condition_code == cc, g.delivery_code == dc, g.file_status == fs, g == params))
    ensures("kinds", both(kind_of(g.condition_code) == "ConditionCode", kind_of(g.delivery_code) == "DeliveryCode",
                          kind_of(g.file_status) == "FileStatus"))
    other_getters_none(r, "get_proxy_put_response_params")
    f = ProxyPutResponseParams.from_finished_params(FinishedParams(cc, dc, fs))
    ensures("from-finished-params", both(f == params, ProxyPutResponse(f).pack() == raw))


@obligation(["C18", "C09"], "ProxyCancelRequest", verifies=RESERVED + [U + "ProxyCancelRequest.__init__"])
def proxy_cancel(suffix: Bytes):
    msg = ProxyCancelRequest()
    raw = builder_clauses(msg, MSG_PROXY_PUT_CANCEL, bytes())
    r = decode_reserved(raw, suffix)
    classification_clauses(r, MSG_PROXY_PUT_CANCEL, PROXY)
    other_getters_none(r, "")


@obligation(["C18", "C09"], "ProxyClosureRequest", verifies=RESERVED + [U + "ProxyClosureRequest.__init__", U + "ReservedCfdpMessage.get_proxy_closure_requested"])
def proxy_closure(requested: Bool, suffix: Bytes):
    msg = ProxyClosureRequest(requested)
    raw = builder_clauses(msg, MSG_PROXY_CLOSURE_REQUEST, one_bit_field(requested))
    r = decode_reserved(raw, suffix)
    classification_clauses(r, MSG_PROXY_CLOSURE_REQUEST, PROXY)
    g = r.get_proxy_closure_requested()
    ensures("params", both(g is not None, g == requested))
    other_getters_none(r, "get_proxy_closure_requested")


@obligation(["C18", "C09"], "ProxyTransmissionMode", verifies=RESERVED + [U + "ProxyTransmissionMode.__init__", U + "ReservedCfdpMessage.get_proxy_transmission_mode"])
def proxy_transmission_mode(mode: EnumOf(TransmissionMode), suffix: Bytes):
    msg = ProxyTransmissionMode(mode)
    raw = builder_clauses(msg, MSG_PROXY_TRANSMISSION_MODE, one_bit_field(mode == TransmissionMode.UNACKNOWLEDGED))
    r = decode_reserved(raw, suffix)
    classification_clauses(r, MSG_PROXY_TRANSMISSION_MODE, PROXY)
    g = r.get_proxy_transmission_mode()
    ensures("params", both(g is not None, g == mode, kind_of(g) == "TransmissionMode"))
    other_getters_none(r, "get_proxy_transmission_mode")


# ------------------------------------------------------------------------------------------------ originating transaction ID

@obligation(["C18", "C09"], "OriginatingTransactionId", verifies=RESERVED + [U + "OriginatingTransactionId.__init__",
                                                                             U + "ReservedCfdpMessage.get_originating_transaction_id",
                                                                             D + "TransactionId.__eq__"])
def originating_transaction_id(we: W, ws: W, src: Int, seq: Int, suffix: Bytes):
    requires(both(0 <= src, src < pow256(we), 0 <= seq, seq < pow256(ws)))
    tid = TransactionId(ByteFieldGenerator.from_int(we, src), ByteFieldGenerator.from_int(ws, seq))
    msg = OriginatingTransactionId(tid)
    raw = builder_clauses(msg, MSG_ORIGINATING_TRANSACTION_ID, originating_transaction_id_fields(we, src, ws, seq))
    r = decode_reserved(raw, suffix)
    classification_clauses(r, MSG_ORIGINATING_TRANSACTION_ID, ORIGIN)
    g = r.get_originating_transaction_id()
    ensures("params-present", g is not None)
    ensures("values", both(g.source_id.value == src, g.seq_num.value == seq))
    ensures("widths", both(g.source_id.byte_len == we, g.seq_num.byte_len == ws))
    ensures("equal", both(g == tid, hash(g) == hash(tid)))
    other_getters_none(r, "get_originating_transaction_id")


@obligation(["C18"], "OriginatingTransactionId/widths", verifies=[U + "OriginatingTransactionId.__init__"])
def originating_transaction_id_widths(we: Choice(0, 1, 2, 4, 8), ws: Choice(0, 1, 2, 4, 8)):
    o = outcome(OriginatingTransactionId, TransactionId(UnsignedByteField(0, we), UnsignedByteField(0, ws)))
    ensures("refused-iff-zero-width", o.raised(ValueError) == either(we == 0, ws == 0))
    ensures("raises-only", o.ok or o.raised(ValueError))


@obligation(["C18"], "TransactionId.__eq__/__hash__", verifies=[D + "TransactionId.__eq__", D + "TransactionId.__hash__"])
def transaction_id_eq_hash(we1: W, ws1: Choice(1, 4), src1: Int, seq1: Int, we2: W, ws2: Choice(2, 4), src2: Int, seq2: Int):
    requires(both(0 <= src1, src1 < pow256(we1), 0 <= seq1, seq1 < pow256(ws1)))
    requires(both(0 <= src2, src2 < pow256(we2), 0 <= seq2, seq2 < pow256(ws2)))
    a = TransactionId(ByteFieldGenerator.from_int(we1, src1), ByteFieldGenerator.from_int(ws1, seq1))
    b = TransactionId(ByteFieldGenerator.from_int(we2, src2), ByteFieldGenerator.from_int(ws2, seq2))
    same = both(src1 == src2, seq1 == seq2)
    ensures("eq-iff-same-values", (a == b) == same)
    ensures("hash-agrees", implies(same, hash(a) == hash(b)))


# ------------------------------------------------------------------------------------------------ directory operations

@obligation(["C18", "C09"], "DirectoryListingRequest", verifies=RESERVED + [U + "DirectoryListingRequest.__init__",
                                                                            U + "ReservedCfdpMessage.get_dir_listing_request_params"])
def dir_listing_request(path: BytesLen(0, 255), name: BytesLen(0, 255), suffix: Bytes):
    requires(5 + 1 + len(path) + 1 + len(name) <= 255)
    params = DirectoryParams(CfdpLv(path), CfdpLv(name))
    msg = DirectoryListingRequest(params)
    raw = builder_clauses(msg, MSG_DIRECTORY_LISTING_REQUEST, dir_listing_request_fields(path, name))
    r = decode_reserved(raw, suffix)
    classification_clauses(r, MSG_DIRECTORY_LISTING_REQUEST, DIROP)
    g = r.get_dir_listing_request_params()
    ensures("params-present", g is not None)
    ensures("params", both(g.dir_path.value == path, g.dir_file_name.value == name, g == params))
    other_getters_none(r, "get_dir_listing_request_params")


@obligation(["C18"], "DirectoryListing*/too-long", verifies=[U + "DirectoryListingRequest.__init__", U + "DirectoryListingResponse.__init__"])
def dir_listing_too_long(ok: Bool, path: BytesLen(0, 255), name: BytesLen(0, 255)):
    params = DirectoryParams(CfdpLv(path), CfdpLv(name))
    if 5 + 1 + len(path) + 1 + len(name) > 255:
        ensures("request-refused", outcome(DirectoryListingRequest, params).raised(ValueError))
    if 5 + 1 + 1 + len(path) + 1 + len(name) > 255:
        ensures("response-refused", outcome(DirectoryListingResponse, ok, params).raised(ValueError))


@obligation(["C18", "C09"], "DirectoryListingResponse", verifies=RESERVED + [U + "DirectoryListingResponse.__init__",
                                                                             U + "ReservedCfdpMessage.get_dir_listing_response_params"])
def dir_listing_response(ok: Bool, path: BytesLen(0, 255), name: BytesLen(0, 255), suffix: Bytes):
    requires(5 + 1 + 1 + len(path) + 1 + len(name) <= 255)
    params = DirectoryParams(CfdpLv(path), CfdpLv(name))
    msg = DirectoryListingResponse(ok, params)
    raw = builder_clauses(msg, MSG_DIRECTORY_LISTING_RESPONSE, dir_listing_response_fields(ok, path, name))
    r = decode_reserved(raw, suffix)
    classification_clauses(r, MSG_DIRECTORY_LISTING_RESPONSE, DIROP)
    g = r.get_dir_listing_response_params()
    ensures("params-present", g is not None)
    ensures("params", both(g[0] == ok, g[1].dir_path.value == path, g[1].dir_file_name.value == name, g[1] == params))
    other_getters_none(r, "get_dir_listing_response_params")


@obligation(["C18"], "DirectoryParams.from_strs", verifies=[U + "DirectoryParams.from_strs", U + "DirectoryParams.dir_path_as_str",
                                                            U + "DirectoryParams.dir_file_name_as_str"])
def dir_params_from_strs(path: StrLen(120), name: StrLen(120), suffix: Bytes):
    params = DirectoryParams.from_strs(path, name)
    ensures("lvs", both(params.dir_path.value == path.encode(), params.dir_file_name.value == name.encode()))
    raw = DirectoryListingRequest(params).pack()
    ensures("layout", raw == reserved_msg_octets(MSG_DIRECTORY_LISTING_REQUEST, dir_listing_request_fields(path.encode(), name.encode())))
    g = MessageToUserTlv.unpack(raw + suffix).to_reserved_msg_tlv().get_dir_listing_request_params()
    ensures("names", both(g == params, g.dir_path_as_str == path, g.dir_file_name_as_str == name))


@obligation(["C18", "C09"], "DirectoryListingParameters", verifies=RESERVED + [U + "DirectoryListingParameters.__init__",
                                                                               U + "ReservedCfdpMessage.get_dir_listing_options"])
def dir_listing_options(recursive: Bool, all_files: Bool, suffix: Bytes):
    opts = DirListingOptions(recursive, all_files)
    msg = DirectoryListingParameters(opts)
    raw = builder_clauses(msg, MSG_CUSTOM_LISTING_PARAMETERS, dir_listing_options_fields(recursive, all_files))
    r = decode_reserved(raw, suffix)
    classification_clauses(r, MSG_CUSTOM_LISTING_PARAMETERS, DIROP)
    g = r.get_dir_listing_options()
    ensures("params-present", g is not None)
    ensures("params", both(g.recursive == recursive, g.all == all_files, g == opts))
    other_getters_none(r, "get_dir_listing_options")
