"""C07 - CFDP File Data PDU (spacepackets/cfdp/pdu/file_data.py).

The harness bodies are shared; the obligations split the configuration space (segment metadata absent / present x
normal / large file) so that they run in parallel.  Together the variants cover every configuration.
"""
from pyvc_spec import *
from spec_cfdp import fss_len
from spec_cfdp_fd import file_data_octets, file_data_body, file_data_field_len, seg_metadata_len, max_file_seg_len
from cfdp_common import mk_conf, ids_in_range, W
from spacepackets.exceptions import BytesTooShortError
from spacepackets.cfdp.defs import (PduType, Direction, TransmissionMode, CrcFlag, LargeFileFlag, SegmentationControl,
                                    SegmentMetadataFlag, UnsupportedCfdpVersion)
from spacepackets.cfdp.exceptions import InvalidCrc
from spacepackets.cfdp.conf import PduConfig
from spacepackets.cfdp.pdu.header import PduHeader
from spacepackets.cfdp.pdu.file_data import (FileDataPdu, FileDataParams, SegmentMetadata, RecordContinuationState,
                                             get_max_file_seg_len_for_max_packet_len_and_pdu_cfg)

M = "spacepackets.cfdp.pdu.file_data:"
STATE = EnumOf(RecordContinuationState)
NORMAL = LargeFileFlag.NORMAL
LARGE = LargeFileFlag.LARGE
S0 = RecordContinuationState.NO_START_NO_END
V_PACK = [M + "FileDataPdu.pack", M + "FileDataPdu.__init__", M + "FileDataPdu._calculate_pdu_data_field_len",
          M + "FileDataPdu.packet_len"]
V_UNPACK = [M + "FileDataPdu.unpack", M + "FileDataPdu.__eq__"]


def mk_meta(has_meta, state, meta):
    if has_meta:
        return SegmentMetadata(state, meta)
    return None


def offset_fits(large, offset):
    if large:
        return both(0 <= offset, offset < 18446744073709551616)
    return both(0 <= offset, offset < 4294967296)


# ------------------------------------------------------------------------------------------------ pack = oracle

def pack_case(direction, mode, crc, large, segctrl, we, ws, src, seq, dst, has_meta, state, meta, offset, data):
    requires(ids_in_range(we, ws, src, seq, dst))
    requires(offset_fits(large, offset))
    requires(file_data_field_len(crc, large, has_meta, meta, data) <= 65535)
    conf = mk_conf(we, ws, src, seq, dst, mode, crc, large, direction, segctrl)
    params = FileDataParams(data, offset, mk_meta(has_meta, state, meta))
    conf_snap = snapshot(conf)
    params_snap = snapshot(params)
    pdu = FileDataPdu(conf, params)
    r = pdu.pack()
    if crc == CrcFlag.WITH_CRC:     # lemma for the solver: the octets in front of the trailer first, then the whole PDU
        ensures("layout-body", r[0:len(r) - 2] == file_data_body(mode, crc, large, segctrl, we, ws, src, seq, dst, has_meta, state, meta, offset, data))
    ensures("layout", r == file_data_octets(mode, crc, large, segctrl, we, ws, src, seq, dst, has_meta, state, meta, offset, data))
    ensures("packet_len", both(pdu.packet_len == len(r), pdu.header_len == 4 + 2 * we + ws))
    ensures("data-field-len", both(pdu.pdu_data_field_len == len(r) - pdu.header_len,
                                   pdu.pdu_data_field_len == file_data_field_len(crc, large, has_meta, meta, data)))
    ensures("accessors", both(pdu.offset == offset, pdu.file_data == data, pdu.has_segment_metadata == has_meta,
                              pdu.pdu_type == PduType.FILE_DATA, pdu.direction == Direction.TOWARDS_RECEIVER,
                              pdu.transmission_mode == mode, pdu.crc_flag == crc, pdu.file_flag == large,
                              pdu.source_entity_id.value == src, pdu.dest_entity_id.value == dst,
                              pdu.transaction_seq_num.value == seq))
    if has_meta:
        ensures("metadata-accessors", both(pdu.record_cont_state == state, pdu.segment_metadata.metadata == meta))
    else:
        ensures("no-metadata", both(pdu.record_cont_state is None, pdu.segment_metadata is None))
    ensures("crc-residue", implies(crc == CrcFlag.WITH_CRC, crc16(r) == 0))
    ensures("pack-twice", pdu.pack() == r)
    ensures("caller-config-untouched", same_state(conf, conf_snap))
    ensures("caller-params-untouched", same_state(params, params_snap))


@obligation(["C07", "C04", "C11"], "FileDataPdu.pack/no-metadata/normal-file", verifies=V_PACK)
def fd_pack_n_normal(direction: EnumOf(Direction), mode: EnumOf(TransmissionMode), crc: EnumOf(CrcFlag), segctrl: EnumOf(SegmentationControl),
          we: W, ws: W, src: Int, seq: Int, dst: Int, offset: Int, data: Bytes):
    pack_case(direction, mode, crc, NORMAL, segctrl, we, ws, src, seq, dst, False, S0, b"", offset, data)


@obligation(["C07", "C04", "C11"], "FileDataPdu.pack/metadata/normal-file/no-crc", verifies=V_PACK)
def fd_pack_m_normal_no_crc(direction: EnumOf(Direction), mode: EnumOf(TransmissionMode), segctrl: EnumOf(SegmentationControl),
          we: W, ws: W, src: Int, seq: Int, dst: Int, state: STATE, meta: BytesLen(0, 63), offset: Int, data: Bytes):
    pack_case(direction, mode, CrcFlag.NO_CRC, NORMAL, segctrl, we, ws, src, seq, dst, True, state, meta, offset, data)


@obligation(["C07", "C04", "C11"], "FileDataPdu.pack/metadata/normal-file/crc", verifies=V_PACK)
def fd_pack_m_normal_crc(direction: EnumOf(Direction), mode: EnumOf(TransmissionMode), segctrl: EnumOf(SegmentationControl),
          we: W, ws: W, src: Int, seq: Int, dst: Int, state: STATE, meta: BytesLen(0, 63), offset: Int, data: Bytes):
    pack_case(direction, mode, CrcFlag.WITH_CRC, NORMAL, segctrl, we, ws, src, seq, dst, True, state, meta, offset, data)


@obligation(["C07", "C04", "C11"], "FileDataPdu.pack/no-metadata/large-file", verifies=V_PACK)
def fd_pack_n_large(direction: EnumOf(Direction), mode: EnumOf(TransmissionMode), crc: EnumOf(CrcFlag), segctrl: EnumOf(SegmentationControl),
          we: W, ws: W, src: Int, seq: Int, dst: Int, offset: Int, data: Bytes):
    pack_case(direction, mode, crc, LARGE, segctrl, we, ws, src, seq, dst, False, S0, b"", offset, data)


@obligation(["C07", "C04", "C11"], "FileDataPdu.pack/metadata/large-file/no-crc", verifies=V_PACK)
def fd_pack_m_large_no_crc(direction: EnumOf(Direction), mode: EnumOf(TransmissionMode), segctrl: EnumOf(SegmentationControl),
          we: W, ws: W, src: Int, seq: Int, dst: Int, state: STATE, meta: BytesLen(0, 63), offset: Int, data: Bytes):
    pack_case(direction, mode, CrcFlag.NO_CRC, LARGE, segctrl, we, ws, src, seq, dst, True, state, meta, offset, data)


@obligation(["C07", "C04", "C11"], "FileDataPdu.pack/metadata/large-file/crc", verifies=V_PACK)
def fd_pack_m_large_crc(direction: EnumOf(Direction), mode: EnumOf(TransmissionMode), segctrl: EnumOf(SegmentationControl),
          we: W, ws: W, src: Int, seq: Int, dst: Int, state: STATE, meta: BytesLen(0, 63), offset: Int, data: Bytes):
    pack_case(direction, mode, CrcFlag.WITH_CRC, LARGE, segctrl, we, ws, src, seq, dst, True, state, meta, offset, data)


# ------------------------------------------------------------------------------------------------ refusals

def refusal_case(mode, crc, large, segctrl, we, ws, src, seq, dst, has_meta, state, meta, offset, data):
    requires(ids_in_range(we, ws, src, seq, dst))
    requires(file_data_field_len(crc, large, has_meta, meta, data) <= 65535)
    conf = mk_conf(we, ws, src, seq, dst, mode, crc, large, Direction.TOWARDS_RECEIVER, segctrl)
    pdu = FileDataPdu(conf, FileDataParams(data, offset, mk_meta(has_meta, state, meta)))
    o = outcome(pdu.pack)
    too_long = both(has_meta, len(meta) > 63)
    ensures("metadata-over-63-refused", implies(too_long, o.raised(ValueError)))
    if offset_fits(large, offset):
        ensures("valueerror-iff-metadata-over-63", iff(o.raised(ValueError), too_long))
        ensures("ok-otherwise", o.ok == (not too_long))
    else:
        ensures("offset-not-fitting-fails", not o.ok)


@obligation(["C07"], "FileDataPdu.pack/refusals/no-metadata/normal-file", verifies=[M + "FileDataPdu.pack", M + "FileDataPdu.__init__"])
def fd_refusals_00(mode: EnumOf(TransmissionMode), crc: EnumOf(CrcFlag), segctrl: EnumOf(SegmentationControl),
                we: W, ws: W, src: Int, seq: Int, dst: Int, offset: Int, data: Bytes):
    refusal_case(mode, crc, NORMAL, segctrl, we, ws, src, seq, dst, False, S0, b"", offset, data)


@obligation(["C07"], "FileDataPdu.pack/refusals/no-metadata/large-file", verifies=[M + "FileDataPdu.pack", M + "FileDataPdu.__init__"])
def fd_refusals_01(mode: EnumOf(TransmissionMode), crc: EnumOf(CrcFlag), segctrl: EnumOf(SegmentationControl),
                we: W, ws: W, src: Int, seq: Int, dst: Int, offset: Int, data: Bytes):
    refusal_case(mode, crc, LARGE, segctrl, we, ws, src, seq, dst, False, S0, b"", offset, data)


@obligation(["C07"], "FileDataPdu.pack/refusals/metadata/normal-file", verifies=[M + "FileDataPdu.pack", M + "FileDataPdu.__init__"])
def fd_refusals_10(mode: EnumOf(TransmissionMode), crc: EnumOf(CrcFlag), segctrl: EnumOf(SegmentationControl),
                we: W, ws: W, src: Int, seq: Int, dst: Int, state: STATE, meta: Bytes, offset: Int, data: Bytes):
    refusal_case(mode, crc, NORMAL, segctrl, we, ws, src, seq, dst, True, state, meta, offset, data)


@obligation(["C07"], "FileDataPdu.pack/refusals/metadata/large-file", verifies=[M + "FileDataPdu.pack", M + "FileDataPdu.__init__"])
def fd_refusals_11(mode: EnumOf(TransmissionMode), crc: EnumOf(CrcFlag), segctrl: EnumOf(SegmentationControl),
                we: W, ws: W, src: Int, seq: Int, dst: Int, state: STATE, meta: Bytes, offset: Int, data: Bytes):
    refusal_case(mode, crc, LARGE, segctrl, we, ws, src, seq, dst, True, state, meta, offset, data)


@obligation(["C07"], "FileDataPdu.pack/metadata-length-boundary", verifies=[M + "FileDataPdu.pack", M + "FileDataPdu.__init__"])
def fd_meta_boundary(mode: EnumOf(TransmissionMode), crc: EnumOf(CrcFlag), large: EnumOf(LargeFileFlag), state: STATE,
                     mlen: Choice(0, 1, 62, 63, 64, 65, 100), pad: BytesLen(100, 100), offset: IntRange(0, 4294967295),
                     data: BytesLen(0, 8)):
    """the 63-octet limit of the segment metadata with CONCRETE lengths around it (the general refusal clauses quantify over all
    lengths; a counter-model there needs a 64-element sequence, which is slow to find)"""
    meta = pad[0:mlen]
    conf = mk_conf(1, 2, 3, 4, 5, mode, crc, large, Direction.TOWARDS_RECEIVER, SegmentationControl.NO_RECORD_BOUNDARIES_PRESERVATION)
    pdu = FileDataPdu(conf, FileDataParams(data, offset, mk_meta(True, state, meta)))
    o = outcome(pdu.pack)
    ensures("refused-iff-over-63", o.raised(ValueError) == (mlen > 63))
    ensures("raises-only", o.ok or o.raised(ValueError))
    if o.ok:
        r = o.value
        ensures("metadata-octet", r[4 + 2 * 1 + 2] == state * 64 + mlen)
        ensures("layout", r == file_data_octets(mode, crc, large, 0, 1, 2, 3, 4, 5, True, state, meta, offset, data))


@obligation(["C07"], "FileDataPdu.__init__/data-field-over-65535", verifies=[M + "FileDataPdu.__init__"])
def fd_too_large(crc: EnumOf(CrcFlag), large: EnumOf(LargeFileFlag), has_meta: Bool, state: STATE, meta: BytesLen(0, 63), data: Bytes):
    """the 16-bit data field length cannot cover more than 65535 octets: such a PDU must not be built"""
    requires(file_data_field_len(crc, large, has_meta, meta, data) > 65535)
    conf = mk_conf(1, 1, 0, 0, 0, TransmissionMode.ACKNOWLEDGED, crc, large, Direction.TOWARDS_RECEIVER,
                   SegmentationControl.NO_RECORD_BOUNDARIES_PRESERVATION)
    o = outcome(FileDataPdu, conf, FileDataParams(data, 0, mk_meta(has_meta, state, meta)))
    ensures("refused", o.raised(ValueError))


# ------------------------------------------------------------------------------------------------ round trip (C09)

def roundtrip_case(mode, crc, large, segctrl, we, ws, src, seq, dst, has_meta, state, meta, offset, data, suffix):
    requires(ids_in_range(we, ws, src, seq, dst))
    requires(offset_fits(large, offset))
    requires(file_data_field_len(crc, large, has_meta, meta, data) <= 65535)
    conf = mk_conf(we, ws, src, seq, dst, mode, crc, large, Direction.TOWARDS_RECEIVER, segctrl)
    pdu = FileDataPdu(conf, FileDataParams(data, offset, mk_meta(has_meta, state, meta)))
    raw = pdu.pack()
    o = outcome(FileDataPdu.unpack, raw + suffix)
    ensures("accepted-or-documented-error", o.ok or o.raised(ValueError, InvalidCrc))
    ensures("exact-pdu-accepted", implies(len(suffix) == 0, o.ok))
    if o.ok:
        g = o.value
        ensures("offset", g.offset == offset)
        ensures("file-data-exact", g.file_data == data)
        if has_meta:
            ensures("metadata", both(g.has_segment_metadata, g.segment_metadata is not None))
            if g.segment_metadata is not None:
                ensures("metadata-values", both(g.record_cont_state == state, g.segment_metadata.metadata == meta))
        else:
            ensures("no-metadata", both(not g.has_segment_metadata, g.segment_metadata is None, g.record_cont_state is None))
        ensures("lengths", both(g.pdu_data_field_len == pdu.pdu_data_field_len, g.packet_len == len(raw),
                                g.header_len == pdu.header_len))
        ensures("header", both(g.pdu_type == PduType.FILE_DATA, g.direction == Direction.TOWARDS_RECEIVER, g.crc_flag == crc,
                               g.file_flag == large, g.transmission_mode == mode, g.source_entity_id.value == src,
                               g.dest_entity_id.value == dst, g.transaction_seq_num.value == seq,
                               g.pdu_header.seg_ctrl == segctrl))
        ensures("equal", g == pdu)
        ensures("repack", g.pack() == raw)


@obligation(["C07", "C09", "C11"], "FileDataPdu/roundtrip/no-metadata/normal-file", verifies=V_UNPACK)
def fd_rt_n_normal(mode: EnumOf(TransmissionMode), crc: EnumOf(CrcFlag), segctrl: EnumOf(SegmentationControl),
          we: W, ws: W, src: Int, seq: Int, dst: Int, offset: Int, data: Bytes, suffix: Bytes):
    roundtrip_case(mode, crc, NORMAL, segctrl, we, ws, src, seq, dst, False, S0, b"", offset, data, suffix)


@obligation(["C07", "C09", "C11"], "FileDataPdu/roundtrip/metadata/normal-file/no-crc", verifies=V_UNPACK)
def fd_rt_m_normal_no_crc(mode: EnumOf(TransmissionMode), segctrl: EnumOf(SegmentationControl),
          we: W, ws: W, src: Int, seq: Int, dst: Int, state: STATE, meta: BytesLen(0, 63), offset: Int, data: Bytes, suffix: Bytes):
    roundtrip_case(mode, CrcFlag.NO_CRC, NORMAL, segctrl, we, ws, src, seq, dst, True, state, meta, offset, data, suffix)


@obligation(["C07", "C09", "C11"], "FileDataPdu/roundtrip/metadata/normal-file/crc", verifies=V_UNPACK)
def fd_rt_m_normal_crc(mode: EnumOf(TransmissionMode), segctrl: EnumOf(SegmentationControl),
          we: W, ws: W, src: Int, seq: Int, dst: Int, state: STATE, meta: BytesLen(0, 63), offset: Int, data: Bytes, suffix: Bytes):
    roundtrip_case(mode, CrcFlag.WITH_CRC, NORMAL, segctrl, we, ws, src, seq, dst, True, state, meta, offset, data, suffix)


@obligation(["C07", "C09", "C11"], "FileDataPdu/roundtrip/no-metadata/large-file", verifies=V_UNPACK)
def fd_rt_n_large(mode: EnumOf(TransmissionMode), crc: EnumOf(CrcFlag), segctrl: EnumOf(SegmentationControl),
          we: W, ws: W, src: Int, seq: Int, dst: Int, offset: Int, data: Bytes, suffix: Bytes):
    roundtrip_case(mode, crc, LARGE, segctrl, we, ws, src, seq, dst, False, S0, b"", offset, data, suffix)


@obligation(["C07", "C09", "C11"], "FileDataPdu/roundtrip/metadata/large-file/no-crc", verifies=V_UNPACK)
def fd_rt_m_large_no_crc(mode: EnumOf(TransmissionMode), segctrl: EnumOf(SegmentationControl),
          we: W, ws: W, src: Int, seq: Int, dst: Int, state: STATE, meta: BytesLen(0, 63), offset: Int, data: Bytes, suffix: Bytes):
    roundtrip_case(mode, CrcFlag.NO_CRC, LARGE, segctrl, we, ws, src, seq, dst, True, state, meta, offset, data, suffix)


@obligation(["C07", "C09", "C11"], "FileDataPdu/roundtrip/metadata/large-file/crc", verifies=V_UNPACK)
def fd_rt_m_large_crc(mode: EnumOf(TransmissionMode), segctrl: EnumOf(SegmentationControl),
          we: W, ws: W, src: Int, seq: Int, dst: Int, state: STATE, meta: BytesLen(0, 63), offset: Int, data: Bytes, suffix: Bytes):
    roundtrip_case(mode, CrcFlag.WITH_CRC, LARGE, segctrl, we, ws, src, seq, dst, True, state, meta, offset, data, suffix)


# ------------------------------------------------------------------------------------------------ decoding arbitrary octets (C10)

def unpack_any_case(data, we, ws, segmeta, large, crc):
    """data: any octet string of at least 4 octets whose width codes, segment-metadata, large-file and CRC bits are as given
    (the obligations below enumerate all of them; the remaining width codes are in unpack/any/invalid-width-code)"""
    requires(len(data) >= 4)
    requires(both(bits(data[3], 6, 4) == we - 1, bits(data[3], 2, 0) == ws - 1, bits(data[3], 3, 3) == segmeta))
    requires(both(bits(data[0], 0, 0) == large, bits(data[0], 1, 1) == crc))
    o = outcome(FileDataPdu.unpack, data)
    ensures("raises-only", o.ok or o.raised(ValueError, InvalidCrc, UnsupportedCfdpVersion))
    if o.ok:
        g = o.value
        hl = 4 + 2 * we + ws
        n = hl + data[1] * 256 + data[2]
        ensures("buffer-holds-pdu", len(data) >= n)
        ensures("crc-gate", implies(crc == 1, crc16(data[0:n]) == 0))
        end = n - 2 * crc
        ensures("lengths", both(g.header_len == hl, g.packet_len == n, g.pdu_data_field_len == data[1] * 256 + data[2]))
        if segmeta == 1:
            ensures("metadata-octet-inside", hl + 1 <= end)
            mlen = bits(data[hl], 5, 0)
            k = hl + 1 + mlen
            ensures("metadata-inside", k <= end)
            ensures("metadata", both(g.segment_metadata is not None, g.has_segment_metadata))
            if g.segment_metadata is not None:
                ensures("metadata-values", both(g.record_cont_state == bits(data[hl], 7, 6),
                                                g.segment_metadata.metadata == data[hl + 1:k]))
        else:
            k = hl
            ensures("no-metadata", both(g.segment_metadata is None, not g.has_segment_metadata))
        fl = fss_len(large)
        ensures("offset-inside", k + fl <= end)
        ensures("offset", g.offset == from_be(data[k:k + fl]))
        ensures("file-data-exact", g.file_data == data[k + fl:end])
        ensures("header-as-decoded-alone", same_state(g.pdu_header, PduHeader.unpack(data)))


# one obligation per (segment metadata flag, large-file flag, CRC flag, group of entity-ID widths); together they cover
# every octet string of >= 4 octets with valid width codes (the others: invalid-width-code, shorter-than-fixed-header)

@obligation(["C07", "C09", "C10", "C04"], "FileDataPdu.unpack/any/no-metadata/normal-file/no-crc/entity-id-width-1-2", verifies=V_UNPACK)
def fd_unpack_any_000_1_2(data: Bytes, we: Choice(1, 2), ws: W):
    unpack_any_case(data, we, ws, 0, 0, 0)


@obligation(["C07", "C09", "C10", "C04"], "FileDataPdu.unpack/any/no-metadata/normal-file/no-crc/entity-id-width-4-8", verifies=V_UNPACK)
def fd_unpack_any_000_4_8(data: Bytes, we: Choice(4, 8), ws: W):
    unpack_any_case(data, we, ws, 0, 0, 0)


@obligation(["C07", "C09", "C10", "C04"], "FileDataPdu.unpack/any/no-metadata/normal-file/crc/entity-id-width-1/seq-num-width-1-2", verifies=V_UNPACK)
def fd_unpack_any_001_1_1_2(data: Bytes, we: Choice(1), ws: Choice(1, 2)):
    unpack_any_case(data, we, ws, 0, 0, 1)


@obligation(["C07", "C09", "C10", "C04"], "FileDataPdu.unpack/any/no-metadata/normal-file/crc/entity-id-width-1/seq-num-width-4-8", verifies=V_UNPACK)
def fd_unpack_any_001_1_4_8(data: Bytes, we: Choice(1), ws: Choice(4, 8)):
    unpack_any_case(data, we, ws, 0, 0, 1)


@obligation(["C07", "C09", "C10", "C04"], "FileDataPdu.unpack/any/no-metadata/normal-file/crc/entity-id-width-2/seq-num-width-1-2", verifies=V_UNPACK)
def fd_unpack_any_001_2_1_2(data: Bytes, we: Choice(2), ws: Choice(1, 2)):
    unpack_any_case(data, we, ws, 0, 0, 1)


@obligation(["C07", "C09", "C10", "C04"], "FileDataPdu.unpack/any/no-metadata/normal-file/crc/entity-id-width-2/seq-num-width-4-8", verifies=V_UNPACK)
def fd_unpack_any_001_2_4_8(data: Bytes, we: Choice(2), ws: Choice(4, 8)):
    unpack_any_case(data, we, ws, 0, 0, 1)


@obligation(["C07", "C09", "C10", "C04"], "FileDataPdu.unpack/any/no-metadata/normal-file/crc/entity-id-width-4/seq-num-width-1-2", verifies=V_UNPACK)
def fd_unpack_any_001_4_1_2(data: Bytes, we: Choice(4), ws: Choice(1, 2)):
    unpack_any_case(data, we, ws, 0, 0, 1)


@obligation(["C07", "C09", "C10", "C04"], "FileDataPdu.unpack/any/no-metadata/normal-file/crc/entity-id-width-4/seq-num-width-4-8", verifies=V_UNPACK)
def fd_unpack_any_001_4_4_8(data: Bytes, we: Choice(4), ws: Choice(4, 8)):
    unpack_any_case(data, we, ws, 0, 0, 1)


@obligation(["C07", "C09", "C10", "C04"], "FileDataPdu.unpack/any/no-metadata/normal-file/crc/entity-id-width-8/seq-num-width-1-2", verifies=V_UNPACK)
def fd_unpack_any_001_8_1_2(data: Bytes, we: Choice(8), ws: Choice(1, 2)):
    unpack_any_case(data, we, ws, 0, 0, 1)


@obligation(["C07", "C09", "C10", "C04"], "FileDataPdu.unpack/any/no-metadata/normal-file/crc/entity-id-width-8/seq-num-width-4-8", verifies=V_UNPACK)
def fd_unpack_any_001_8_4_8(data: Bytes, we: Choice(8), ws: Choice(4, 8)):
    unpack_any_case(data, we, ws, 0, 0, 1)


@obligation(["C07", "C09", "C10", "C04"], "FileDataPdu.unpack/any/no-metadata/large-file/no-crc/entity-id-width-1-2", verifies=V_UNPACK)
def fd_unpack_any_010_1_2(data: Bytes, we: Choice(1, 2), ws: W):
    unpack_any_case(data, we, ws, 0, 1, 0)


@obligation(["C07", "C09", "C10", "C04"], "FileDataPdu.unpack/any/no-metadata/large-file/no-crc/entity-id-width-4-8", verifies=V_UNPACK)
def fd_unpack_any_010_4_8(data: Bytes, we: Choice(4, 8), ws: W):
    unpack_any_case(data, we, ws, 0, 1, 0)


@obligation(["C07", "C09", "C10", "C04"], "FileDataPdu.unpack/any/no-metadata/large-file/crc/entity-id-width-1/seq-num-width-1-2", verifies=V_UNPACK)
def fd_unpack_any_011_1_1_2(data: Bytes, we: Choice(1), ws: Choice(1, 2)):
    unpack_any_case(data, we, ws, 0, 1, 1)


@obligation(["C07", "C09", "C10", "C04"], "FileDataPdu.unpack/any/no-metadata/large-file/crc/entity-id-width-1/seq-num-width-4-8", verifies=V_UNPACK)
def fd_unpack_any_011_1_4_8(data: Bytes, we: Choice(1), ws: Choice(4, 8)):
    unpack_any_case(data, we, ws, 0, 1, 1)


@obligation(["C07", "C09", "C10", "C04"], "FileDataPdu.unpack/any/no-metadata/large-file/crc/entity-id-width-2/seq-num-width-1-2", verifies=V_UNPACK)
def fd_unpack_any_011_2_1_2(data: Bytes, we: Choice(2), ws: Choice(1, 2)):
    unpack_any_case(data, we, ws, 0, 1, 1)


@obligation(["C07", "C09", "C10", "C04"], "FileDataPdu.unpack/any/no-metadata/large-file/crc/entity-id-width-2/seq-num-width-4-8", verifies=V_UNPACK)
def fd_unpack_any_011_2_4_8(data: Bytes, we: Choice(2), ws: Choice(4, 8)):
    unpack_any_case(data, we, ws, 0, 1, 1)


@obligation(["C07", "C09", "C10", "C04"], "FileDataPdu.unpack/any/no-metadata/large-file/crc/entity-id-width-4/seq-num-width-1-2", verifies=V_UNPACK)
def fd_unpack_any_011_4_1_2(data: Bytes, we: Choice(4), ws: Choice(1, 2)):
    unpack_any_case(data, we, ws, 0, 1, 1)


@obligation(["C07", "C09", "C10", "C04"], "FileDataPdu.unpack/any/no-metadata/large-file/crc/entity-id-width-4/seq-num-width-4-8", verifies=V_UNPACK)
def fd_unpack_any_011_4_4_8(data: Bytes, we: Choice(4), ws: Choice(4, 8)):
    unpack_any_case(data, we, ws, 0, 1, 1)


@obligation(["C07", "C09", "C10", "C04"], "FileDataPdu.unpack/any/no-metadata/large-file/crc/entity-id-width-8/seq-num-width-1-2", verifies=V_UNPACK)
def fd_unpack_any_011_8_1_2(data: Bytes, we: Choice(8), ws: Choice(1, 2)):
    unpack_any_case(data, we, ws, 0, 1, 1)


@obligation(["C07", "C09", "C10", "C04"], "FileDataPdu.unpack/any/no-metadata/large-file/crc/entity-id-width-8/seq-num-width-4-8", verifies=V_UNPACK)
def fd_unpack_any_011_8_4_8(data: Bytes, we: Choice(8), ws: Choice(4, 8)):
    unpack_any_case(data, we, ws, 0, 1, 1)


@obligation(["C07", "C09", "C10", "C04"], "FileDataPdu.unpack/any/metadata/normal-file/no-crc/entity-id-width-1", verifies=V_UNPACK)
def fd_unpack_any_100_1(data: Bytes, we: Choice(1), ws: W):
    unpack_any_case(data, we, ws, 1, 0, 0)


@obligation(["C07", "C09", "C10", "C04"], "FileDataPdu.unpack/any/metadata/normal-file/no-crc/entity-id-width-2", verifies=V_UNPACK)
def fd_unpack_any_100_2(data: Bytes, we: Choice(2), ws: W):
    unpack_any_case(data, we, ws, 1, 0, 0)


@obligation(["C07", "C09", "C10", "C04"], "FileDataPdu.unpack/any/metadata/normal-file/no-crc/entity-id-width-4", verifies=V_UNPACK)
def fd_unpack_any_100_4(data: Bytes, we: Choice(4), ws: W):
    unpack_any_case(data, we, ws, 1, 0, 0)


@obligation(["C07", "C09", "C10", "C04"], "FileDataPdu.unpack/any/metadata/normal-file/no-crc/entity-id-width-8", verifies=V_UNPACK)
def fd_unpack_any_100_8(data: Bytes, we: Choice(8), ws: W):
    unpack_any_case(data, we, ws, 1, 0, 0)


@obligation(["C07", "C09", "C10", "C04"], "FileDataPdu.unpack/any/metadata/normal-file/crc/entity-id-width-1/seq-num-width-1-2", verifies=V_UNPACK)
def fd_unpack_any_101_1_1_2(data: Bytes, we: Choice(1), ws: Choice(1, 2)):
    unpack_any_case(data, we, ws, 1, 0, 1)


@obligation(["C07", "C09", "C10", "C04"], "FileDataPdu.unpack/any/metadata/normal-file/crc/entity-id-width-1/seq-num-width-4-8", verifies=V_UNPACK)
def fd_unpack_any_101_1_4_8(data: Bytes, we: Choice(1), ws: Choice(4, 8)):
    unpack_any_case(data, we, ws, 1, 0, 1)


@obligation(["C07", "C09", "C10", "C04"], "FileDataPdu.unpack/any/metadata/normal-file/crc/entity-id-width-2/seq-num-width-1-2", verifies=V_UNPACK)
def fd_unpack_any_101_2_1_2(data: Bytes, we: Choice(2), ws: Choice(1, 2)):
    unpack_any_case(data, we, ws, 1, 0, 1)


@obligation(["C07", "C09", "C10", "C04"], "FileDataPdu.unpack/any/metadata/normal-file/crc/entity-id-width-2/seq-num-width-4-8", verifies=V_UNPACK)
def fd_unpack_any_101_2_4_8(data: Bytes, we: Choice(2), ws: Choice(4, 8)):
    unpack_any_case(data, we, ws, 1, 0, 1)


@obligation(["C07", "C09", "C10", "C04"], "FileDataPdu.unpack/any/metadata/normal-file/crc/entity-id-width-4/seq-num-width-1-2", verifies=V_UNPACK)
def fd_unpack_any_101_4_1_2(data: Bytes, we: Choice(4), ws: Choice(1, 2)):
    unpack_any_case(data, we, ws, 1, 0, 1)


@obligation(["C07", "C09", "C10", "C04"], "FileDataPdu.unpack/any/metadata/normal-file/crc/entity-id-width-4/seq-num-width-4-8", verifies=V_UNPACK)
def fd_unpack_any_101_4_4_8(data: Bytes, we: Choice(4), ws: Choice(4, 8)):
    unpack_any_case(data, we, ws, 1, 0, 1)


@obligation(["C07", "C09", "C10", "C04"], "FileDataPdu.unpack/any/metadata/normal-file/crc/entity-id-width-8/seq-num-width-1-2", verifies=V_UNPACK)
def fd_unpack_any_101_8_1_2(data: Bytes, we: Choice(8), ws: Choice(1, 2)):
    unpack_any_case(data, we, ws, 1, 0, 1)


@obligation(["C07", "C09", "C10", "C04"], "FileDataPdu.unpack/any/metadata/normal-file/crc/entity-id-width-8/seq-num-width-4-8", verifies=V_UNPACK)
def fd_unpack_any_101_8_4_8(data: Bytes, we: Choice(8), ws: Choice(4, 8)):
    unpack_any_case(data, we, ws, 1, 0, 1)


@obligation(["C07", "C09", "C10", "C04"], "FileDataPdu.unpack/any/metadata/large-file/no-crc/entity-id-width-1", verifies=V_UNPACK)
def fd_unpack_any_110_1(data: Bytes, we: Choice(1), ws: W):
    unpack_any_case(data, we, ws, 1, 1, 0)


@obligation(["C07", "C09", "C10", "C04"], "FileDataPdu.unpack/any/metadata/large-file/no-crc/entity-id-width-2", verifies=V_UNPACK)
def fd_unpack_any_110_2(data: Bytes, we: Choice(2), ws: W):
    unpack_any_case(data, we, ws, 1, 1, 0)


@obligation(["C07", "C09", "C10", "C04"], "FileDataPdu.unpack/any/metadata/large-file/no-crc/entity-id-width-4", verifies=V_UNPACK)
def fd_unpack_any_110_4(data: Bytes, we: Choice(4), ws: W):
    unpack_any_case(data, we, ws, 1, 1, 0)


@obligation(["C07", "C09", "C10", "C04"], "FileDataPdu.unpack/any/metadata/large-file/no-crc/entity-id-width-8", verifies=V_UNPACK)
def fd_unpack_any_110_8(data: Bytes, we: Choice(8), ws: W):
    unpack_any_case(data, we, ws, 1, 1, 0)


@obligation(["C07", "C09", "C10", "C04"], "FileDataPdu.unpack/any/metadata/large-file/crc/entity-id-width-1/seq-num-width-1-2", verifies=V_UNPACK)
def fd_unpack_any_111_1_1_2(data: Bytes, we: Choice(1), ws: Choice(1, 2)):
    unpack_any_case(data, we, ws, 1, 1, 1)


@obligation(["C07", "C09", "C10", "C04"], "FileDataPdu.unpack/any/metadata/large-file/crc/entity-id-width-1/seq-num-width-4-8", verifies=V_UNPACK)
def fd_unpack_any_111_1_4_8(data: Bytes, we: Choice(1), ws: Choice(4, 8)):
    unpack_any_case(data, we, ws, 1, 1, 1)


@obligation(["C07", "C09", "C10", "C04"], "FileDataPdu.unpack/any/metadata/large-file/crc/entity-id-width-2/seq-num-width-1-2", verifies=V_UNPACK)
def fd_unpack_any_111_2_1_2(data: Bytes, we: Choice(2), ws: Choice(1, 2)):
    unpack_any_case(data, we, ws, 1, 1, 1)


@obligation(["C07", "C09", "C10", "C04"], "FileDataPdu.unpack/any/metadata/large-file/crc/entity-id-width-2/seq-num-width-4-8", verifies=V_UNPACK)
def fd_unpack_any_111_2_4_8(data: Bytes, we: Choice(2), ws: Choice(4, 8)):
    unpack_any_case(data, we, ws, 1, 1, 1)


@obligation(["C07", "C09", "C10", "C04"], "FileDataPdu.unpack/any/metadata/large-file/crc/entity-id-width-4/seq-num-width-1-2", verifies=V_UNPACK)
def fd_unpack_any_111_4_1_2(data: Bytes, we: Choice(4), ws: Choice(1, 2)):
    unpack_any_case(data, we, ws, 1, 1, 1)


@obligation(["C07", "C09", "C10", "C04"], "FileDataPdu.unpack/any/metadata/large-file/crc/entity-id-width-4/seq-num-width-4-8", verifies=V_UNPACK)
def fd_unpack_any_111_4_4_8(data: Bytes, we: Choice(4), ws: Choice(4, 8)):
    unpack_any_case(data, we, ws, 1, 1, 1)


@obligation(["C07", "C09", "C10", "C04"], "FileDataPdu.unpack/any/metadata/large-file/crc/entity-id-width-8/seq-num-width-1-2", verifies=V_UNPACK)
def fd_unpack_any_111_8_1_2(data: Bytes, we: Choice(8), ws: Choice(1, 2)):
    unpack_any_case(data, we, ws, 1, 1, 1)


@obligation(["C07", "C09", "C10", "C04"], "FileDataPdu.unpack/any/metadata/large-file/crc/entity-id-width-8/seq-num-width-4-8", verifies=V_UNPACK)
def fd_unpack_any_111_8_4_8(data: Bytes, we: Choice(8), ws: Choice(4, 8)):
    unpack_any_case(data, we, ws, 1, 1, 1)


@obligation(["C07", "C10"], "FileDataPdu.unpack/any/invalid-width-code", verifies=V_UNPACK)
def fd_unpack_bad_width(data: Bytes):
    requires(len(data) >= 4)
    we = bits(data[3], 6, 4) + 1
    ws = bits(data[3], 2, 0) + 1
    requires(not both(either(we == 1, we == 2, we == 4, we == 8), either(ws == 1, ws == 2, ws == 4, ws == 8)))
    o = outcome(FileDataPdu.unpack, data)
    ensures("refused", o.raised(ValueError, UnsupportedCfdpVersion))


@obligation(["C07", "C10"], "FileDataPdu.unpack/any/shorter-than-fixed-header", verifies=V_UNPACK)
def fd_unpack_short(data: BytesLen(0, 3)):
    o = outcome(FileDataPdu.unpack, data)
    ensures("refused", o.raised(BytesTooShortError))


# ------------------------------------------------------------------------------------------------ setters (C11)

@obligation(["C07", "C11"], "FileDataPdu.file_data(setter)", verifies=[M + "FileDataPdu.file_data", M + "FileDataPdu._calculate_pdu_data_field_len"])
def fd_set_file_data(mode: EnumOf(TransmissionMode), crc: EnumOf(CrcFlag), large: EnumOf(LargeFileFlag), segctrl: EnumOf(SegmentationControl),
                     we: W, ws: Choice(1, 2), src: Int, seq: Int, dst: Int, has_meta: Bool, state: STATE, meta: BytesLen(0, 63),
                     offset: Int, data0: Bytes, data1: Bytes):
    requires(ids_in_range(we, ws, src, seq, dst))
    requires(offset_fits(large, offset))
    requires(file_data_field_len(crc, large, has_meta, meta, data0) <= 65535)
    requires(file_data_field_len(crc, large, has_meta, meta, data1) <= 65535)
    conf = mk_conf(we, ws, src, seq, dst, mode, crc, large, Direction.TOWARDS_RECEIVER, segctrl)
    pdu = FileDataPdu(conf, FileDataParams(data0, offset, mk_meta(has_meta, state, meta)))
    pdu.file_data = data1
    fresh = FileDataPdu(conf, FileDataParams(data1, offset, mk_meta(has_meta, state, meta)))
    r = pdu.pack()
    ensures("view", both(pdu.file_data == data1, pdu.offset == offset))
    ensures("lengths-follow", both(pdu.packet_len == len(r), pdu.pdu_data_field_len == len(r) - pdu.header_len,
                                   pdu.pdu_data_field_len == file_data_field_len(crc, large, has_meta, meta, data1)))
    ensures("as-fresh-octets", r == fresh.pack())
    ensures("as-fresh-state", both(same_state(pdu, fresh), pdu == fresh))
    # (fresh.pack() == file_data_octets(...) is what the FileDataPdu.pack obligations prove for every PDU)


@obligation(["C07", "C11"], "FileDataPdu.segment_metadata(setter)",
            verifies=[M + "FileDataPdu.segment_metadata", M + "FileDataPdu._calculate_pdu_data_field_len"])
def fd_set_metadata(mode: EnumOf(TransmissionMode), crc: EnumOf(CrcFlag), large: EnumOf(LargeFileFlag), segctrl: EnumOf(SegmentationControl),
                    we: W, ws: Choice(1, 2), src: Int, seq: Int, dst: Int, has_meta0: Bool, state0: STATE, meta0: BytesLen(0, 63),
                    has_meta1: Bool, state1: STATE, meta1: BytesLen(0, 63), offset: Int, data: Bytes):
    requires(ids_in_range(we, ws, src, seq, dst))
    requires(offset_fits(large, offset))
    requires(file_data_field_len(crc, large, has_meta0, meta0, data) <= 65535)
    requires(file_data_field_len(crc, large, has_meta1, meta1, data) <= 65535)
    conf = mk_conf(we, ws, src, seq, dst, mode, crc, large, Direction.TOWARDS_RECEIVER, segctrl)
    pdu = FileDataPdu(conf, FileDataParams(data, offset, mk_meta(has_meta0, state0, meta0)))
    pdu.segment_metadata = mk_meta(has_meta1, state1, meta1)
    fresh = FileDataPdu(conf, FileDataParams(data, offset, mk_meta(has_meta1, state1, meta1)))
    r = pdu.pack()
    ensures("view", both(pdu.has_segment_metadata == has_meta1, pdu.file_data == data, pdu.offset == offset))
    ensures("lengths-follow", both(pdu.packet_len == len(r), pdu.pdu_data_field_len == len(r) - pdu.header_len,
                                   pdu.pdu_data_field_len == file_data_field_len(crc, large, has_meta1, meta1, data)))
    ensures("as-fresh-octets", r == fresh.pack())
    ensures("as-fresh-state", both(same_state(pdu, fresh), pdu == fresh))
    # (fresh.pack() == file_data_octets(...) is what the FileDataPdu.pack obligations prove for every PDU)


@obligation(["C07", "C11"], "FileDataPdu/setters-after-unpack", verifies=[M + "FileDataPdu.unpack", M + "FileDataPdu.file_data",
                                                                           M + "FileDataPdu.segment_metadata"])
def fd_set_after_unpack(crc: EnumOf(CrcFlag), large: EnumOf(LargeFileFlag), has_meta: Bool, state: STATE, meta: BytesLen(0, 63),
                        offset: Int, data0: Bytes, data1: Bytes, has_meta1: Bool, state1: STATE, meta1: BytesLen(0, 63)):
    """a decoded PDU is as mutable as a constructed one: setters keep the lengths right and the octets are those of a fresh PDU"""
    requires(offset_fits(large, offset))
    requires(file_data_field_len(crc, large, has_meta, meta, data0) <= 65535)
    requires(file_data_field_len(crc, large, has_meta1, meta1, data1) <= 65535)
    requires(file_data_field_len(crc, large, has_meta, meta, data1) <= 65535)
    conf = mk_conf(2, 1, 258, 3, 772, TransmissionMode.UNACKNOWLEDGED, crc, large, Direction.TOWARDS_RECEIVER,
                   SegmentationControl.NO_RECORD_BOUNDARIES_PRESERVATION)
    raw = FileDataPdu(conf, FileDataParams(data0, offset, mk_meta(has_meta, state, meta))).pack()
    o = outcome(FileDataPdu.unpack, raw)
    ensures("accepted", o.ok)
    if o.ok:
        g = o.value
        g.file_data = data1
        r1 = g.pack()
        ensures("file-data-setter", both(g.packet_len == len(r1), r1 == FileDataPdu(conf, FileDataParams(data1, offset, mk_meta(has_meta, state, meta))).pack()))
        g.segment_metadata = mk_meta(has_meta1, state1, meta1)
        r2 = g.pack()
        ensures("metadata-setter", both(g.packet_len == len(r2), r2 == FileDataPdu(conf, FileDataParams(data1, offset, mk_meta(has_meta1, state1, meta1))).pack()))


# ------------------------------------------------------------------------------------------------ maximum segment length

@obligation(["C07"], "get_max_file_seg_len_for_max_packet_len_and_pdu_cfg",
            verifies=[M + "get_max_file_seg_len_for_max_packet_len_and_pdu_cfg", M + "FileDataPdu.get_max_file_seg_len_for_max_packet_len"])
def fd_max_seg_len(crc: EnumOf(CrcFlag), large: EnumOf(LargeFileFlag), we: W, ws: W, has_meta: Bool, state: STATE, meta: BytesLen(0, 63),
                   max_packet_len: Int):
    conf = mk_conf(we, ws, 0, 0, 0, TransmissionMode.ACKNOWLEDGED, crc, large, Direction.TOWARDS_RECEIVER,
                   SegmentationControl.NO_RECORD_BOUNDARIES_PRESERVATION)
    snap = snapshot(conf)
    sm = mk_meta(has_meta, state, meta)
    o = outcome(get_max_file_seg_len_for_max_packet_len_and_pdu_cfg, conf, max_packet_len, sm)
    want = max_file_seg_len(we, ws, crc, large, has_meta, meta, max_packet_len)
    ensures("raises-only", o.ok or o.raised(ValueError))
    ensures("valueerror-iff-negative", iff(o.raised(ValueError), want < 0))
    if o.ok:
        ensures("value", o.value == want)
    ensures("config-untouched", same_state(conf, snap))
    pdu = FileDataPdu(conf, FileDataParams(b"", 0, sm))
    o2 = outcome(pdu.get_max_file_seg_len_for_max_packet_len, max_packet_len)
    ensures("method-agrees", o2.ok == o.ok)
    if o2.ok:
        ensures("method-value", o2.value == want)
