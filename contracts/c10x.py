"""C10 (and C18) - the reserved-CFDP-message accessors are decoders of message-to-user content: for ARBITRARY content they return
a value / None or raise a documented error (ValueError family), never IndexError / AssertionError / struct.error."""
from pyvc_spec import *
from spacepackets.cfdp.tlv import MessageToUserTlv
from spacepackets.cfdp.tlv.msg_to_user import ReservedCfdpMessage

MTU = "spacepackets.cfdp.tlv.msg_to_user:"


def only_documented(o):
    return o.ok or o.raised(ValueError)


@obligation(["C10", "C18"], "ReservedCfdpMessage/accessors/any-content",
            verifies=[MTU + "MessageToUserTlv.to_reserved_msg_tlv", MTU + "ReservedCfdpMessage.__init__",
                      MTU + "ReservedCfdpMessage.get_originating_transaction_id", MTU + "ReservedCfdpMessage.get_proxy_put_request_params",
                      MTU + "ReservedCfdpMessage.get_proxy_put_response_params", MTU + "ReservedCfdpMessage.get_proxy_closure_requested",
                      MTU + "ReservedCfdpMessage.get_proxy_transmission_mode", MTU + "ReservedCfdpMessage.get_dir_listing_request_params",
                      MTU + "ReservedCfdpMessage.get_dir_listing_response_params", MTU + "ReservedCfdpMessage.get_dir_listing_options"],
            lia_branch=True)
def reserved_accessors_any(value: BytesLen(0, 255)):
    t = MessageToUserTlv(value)
    o = outcome(t.to_reserved_msg_tlv)
    ensures("conversion-raises-only", only_documented(o))
    ensures("not-reserved-gives-none", implies(not t.is_reserved_cfdp_message(), both(o.ok, o.value is None)))
    if o.ok and o.value is not None:
        m = o.value
        ensures("classification-total", both(only_documented(outcome(m.is_cfdp_proxy_operation)), only_documented(outcome(m.is_directory_operation)),
                                             only_documented(outcome(m.is_originating_transaction_id)),
                                             only_documented(outcome(m.get_cfdp_proxy_message_type)),
                                             only_documented(outcome(m.get_directory_operation_type))))
        ensures("originating-id", only_documented(outcome(m.get_originating_transaction_id)))
        ensures("put-request", only_documented(outcome(m.get_proxy_put_request_params)))
        ensures("put-response", only_documented(outcome(m.get_proxy_put_response_params)))
        ensures("closure", only_documented(outcome(m.get_proxy_closure_requested)))
        ensures("transmission-mode", only_documented(outcome(m.get_proxy_transmission_mode)))
        ensures("listing-request", only_documented(outcome(m.get_dir_listing_request_params)))
        ensures("listing-response", only_documented(outcome(m.get_dir_listing_response_params)))
        ensures("listing-options", only_documented(outcome(m.get_dir_listing_options)))
