"""C02 - PUS-C telecommand (spacepackets/ecss/tc.py)."""
from pyvc_spec import *
from spec_pus import pus_tc_octets
from spacepackets.ccsds.spacepacket import SpacePacketHeader, PacketType, SequenceFlags, SpacePacket
from spacepackets.ecss.tc import PusTc, PusTcDataFieldHeader, InvalidTcCrc16
from spacepackets.exceptions import BytesTooShortError

M = "spacepackets.ecss.tc:"
MAX_APP = 65536 - 5 - 2  # data field limit: secondary header + application data + CRC <= 65536


@obligation(["C02", "C04", "C11"], "PusTc.pack", verifies=[M + "PusTc.pack", M + "PusTc.__init__", M + "PusTcDataFieldHeader.pack",
                                                           M + "PusTc.get_data_length"])
def tc_pack(service: IntRange(0, 255), subservice: IntRange(0, 255), apid: IntRange(0, 2047), count: IntRange(0, 16383),
            source_id: IntRange(0, 65535), ack: IntRange(0, 15), app: BytesLen(0, MAX_APP)):
    tc = PusTc(service, subservice, apid, app, count, source_id, ack)
    r = tc.pack()
    ensures("layout", r == pus_tc_octets(apid, count, service, subservice, source_id, ack, app))
    ensures("packet_len", both(tc.packet_len == len(r), tc.packet_len == len(app) + 13))
    ensures("length-field", tc.sp_header.data_len == len(r) - 7)
    ensures("accessors", both(tc.service == service, tc.subservice == subservice, tc.apid == apid, tc.seq_count == count,
                              tc.source_id == source_id, tc.app_data == app, tc.pus_tc_sec_header.ack_flags == ack))
    ensures("crc-residue", crc16(r) == 0)
    ensures("pack-twice", tc.pack() == r)
    ensures("crc16-attr", tc.crc16 == r[len(r) - 2:len(r)])


@obligation(["C02"], "PusTc.__init__/too-large", verifies=[M + "PusTc.__init__"])
def tc_too_large(app: BytesLen(MAX_APP + 1, None)):
    o = outcome(PusTc, 17, 1, 0, app)
    ensures("refused", o.raised(ValueError))


@obligation(["C02"], "PusTc.to_space_packet", verifies=[M + "PusTc.to_space_packet", M + "PusTc.calc_crc"])
def tc_space_packet(service: IntRange(0, 255), subservice: IntRange(0, 255), apid: IntRange(0, 2047), count: IntRange(0, 16383),
                    source_id: IntRange(0, 65535), ack: IntRange(0, 15), app: BytesLen(0, MAX_APP)):
    tc = PusTc(service, subservice, apid, app, count, source_id, ack)
    sp = tc.to_space_packet()
    ensures("same-octets", sp.pack() == pus_tc_octets(apid, count, service, subservice, source_id, ack, app))
    tc2 = PusTc(service, subservice, apid, app, count, source_id, ack)
    tc2.calc_crc()
    r = tc2.pack(recalc_crc=False)
    ensures("calc-crc-then-pack", r == pus_tc_octets(apid, count, service, subservice, source_id, ack, app))


@obligation(["C02", "C04", "C09", "C10"], "PusTc.unpack", verifies=[M + "PusTc.unpack", M + "PusTcDataFieldHeader.unpack"])
def tc_unpack(data: Bytes):
    o = outcome(PusTc.unpack, data)
    ensures("raises-only", o.ok or o.raised(ValueError, InvalidTcCrc16))
    ensures("short-refused", implies(len(data) < 13, not o.ok))
    if o.ok:
        tc = o.value
        n = data[4] * 256 + data[5] + 7
        ensures("min-length", n >= 13)
        ensures("buffer-holds-packet", len(data) >= n)
        ensures("crc-gate", crc16(data[0:n]) == 0)
        ensures("pus-version", bits(data[6], 7, 4) == 2)
        ensures("primary-header", same_state(tc.sp_header, SpacePacketHeader.unpack(data)))
        ensures("fields", both(tc.pus_tc_sec_header.ack_flags == bits(data[6], 3, 0), tc.service == data[7],
                               tc.subservice == data[8], tc.source_id == data[9] * 256 + data[10]))
        ensures("app-data", tc.app_data == data[11:n - 2])
        ensures("packet_len", tc.packet_len == n)
        ensures("prefix-only", same_state(tc, PusTc.unpack(data[0:n])))


@obligation(["C02", "C09"], "PusTc/roundtrip")
def tc_roundtrip(service: IntRange(0, 255), subservice: IntRange(0, 255), apid: IntRange(0, 2047), count: IntRange(0, 16383),
                 source_id: IntRange(0, 65535), ack: IntRange(0, 15), app: BytesLen(0, MAX_APP), suffix: Bytes):
    tc = PusTc(service, subservice, apid, app, count, source_id, ack)
    raw = tc.pack()
    o = outcome(PusTc.unpack, raw + suffix)
    ensures("accepted", o.ok)
    if o.ok:
        g = o.value
        ensures("equal", g == tc)
        ensures("fields", both(g.service == service, g.subservice == subservice, g.apid == apid, g.seq_count == count,
                               g.source_id == source_id, g.pus_tc_sec_header.ack_flags == ack, g.app_data == app,
                               g.packet_len == len(raw)))
        ensures("repack", g.pack() == raw)
        ensures("space-packet-view", g.to_space_packet().pack() == raw)


@obligation(["C02"], "PusTc/repack-any")
def tc_repack_any(data: Bytes):
    """encode(decode(b)) = b[:N] for every accepted octet string"""
    o = outcome(PusTc.unpack, data)
    if o.ok:
        n = data[4] * 256 + data[5] + 7
        requires(n >= 13)
        ensures("repack", o.value.pack() == data[0:n])


@obligation(["C02"], "PusTcDataFieldHeader", verifies=[M + "PusTcDataFieldHeader.unpack", M + "PusTcDataFieldHeader.pack",
                                                        M + "PusTcDataFieldHeader.__eq__"])
def tc_sec_header(service: IntRange(0, 255), subservice: IntRange(0, 255), source_id: IntRange(0, 65535), ack: IntRange(0, 15), data: Bytes):
    h = PusTcDataFieldHeader(service, subservice, source_id, ack)
    raw = h.pack()
    ensures("layout", raw == be(1, 32 + ack) + be(1, service) + be(1, subservice) + be(2, source_id))
    ensures("size", both(len(raw) == 5, PusTcDataFieldHeader.get_header_size() == 5))
    g = PusTcDataFieldHeader.unpack(raw + data)
    ensures("roundtrip", both(g == h, g.service == service, g.subservice == subservice, g.source_id == source_id, g.ack_flags == ack))
    o = outcome(PusTcDataFieldHeader.unpack, data)
    ensures("raises-only", o.ok or o.raised(ValueError))
    ensures("short-iff", implies(len(data) < 5, o.raised(BytesTooShortError)))
    if len(data) >= 5:
        ensures("version-iff", o.ok == (bits(data[0], 7, 4) == 2))


@obligation(["C02", "C04", "C11"], "PusTc/setters", verifies=[M + "PusTc.app_data", M + "PusTc.seq_count", M + "PusTc.apid", M + "PusTc.source_id",
                                                              M + "PusTc.to_space_packet", M + "PusTc.pack"])
def tc_setters(service: IntRange(0, 255), subservice: IntRange(0, 255), apid: IntRange(0, 2047), count: IntRange(0, 16383),
               source_id: IntRange(0, 65535), ack: IntRange(0, 15), app: BytesLen(0, MAX_APP),
               which: Choice("app_data", "seq_count", "apid", "source_id", "sec.service", "sec.ack_flags"), new_app: BytesLen(0, MAX_APP), new_int: Int,
               packed_before: Bool, view_first: Bool):
    """whatever was set after construction (and whether or not the packet was packed before, which fills the CRC cache):
    reported length, length field, octets, CRC trailer and the space-packet view are those of a freshly built telecommand"""
    tc = PusTc(service, subservice, apid, app, count, source_id, ack)
    if packed_before:
        tc.pack()
    if which == "app_data":
        tc.app_data = new_app
        fresh = PusTc(service, subservice, apid, new_app, count, source_id, ack)
    elif which == "seq_count":
        requires(both(0 <= new_int, new_int <= 16383))
        tc.seq_count = new_int
        fresh = PusTc(service, subservice, apid, app, new_int, source_id, ack)
    elif which == "apid":
        requires(both(0 <= new_int, new_int <= 2047))
        tc.apid = new_int
        fresh = PusTc(service, subservice, new_int, app, count, source_id, ack)
    elif which == "source_id":
        requires(both(0 <= new_int, new_int <= 65535))
        tc.source_id = new_int
        fresh = PusTc(service, subservice, apid, app, count, new_int, ack)
    elif which == "sec.service":                # fields changed through the public header object
        requires(both(0 <= new_int, new_int <= 255))
        tc.pus_tc_sec_header.service = new_int
        fresh = PusTc(new_int, subservice, apid, app, count, source_id, ack)
    else:
        requires(both(0 <= new_int, new_int <= 15))
        tc.pus_tc_sec_header.ack_flags = new_int
        fresh = PusTc(service, subservice, apid, app, count, source_id, new_int)
    expected = fresh.pack()
    if view_first:     # both orders: either call may refresh a cached CRC and hide a stale one from the other
        view = tc.to_space_packet().pack()
        ensures("space-packet-view-as-fresh", view == expected)
        r = tc.pack()
        ensures("octets-as-fresh", r == expected)
    else:
        r = tc.pack()
        ensures("octets-as-fresh", r == expected)
        view = tc.to_space_packet().pack()
        ensures("space-packet-view-as-fresh", view == expected)
    ensures("reported-length", tc.packet_len == len(r))
    ensures("length-field", tc.sp_header.data_len == len(r) - 7)
    ensures("crc-residue", crc16(r) == 0)
    ensures("equal-to-fresh", tc == fresh)
    ensures("view-after-pack", tc.to_space_packet().pack() == expected)
