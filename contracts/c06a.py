"""C06 part A - CFDP file-directive base and the scalar directives EOF, ACK, Prompt, Keep Alive
(spacepackets/cfdp/pdu/file_directive.py, eof.py, ack.py, prompt.py, keep_alive.py)."""
import struct
from pyvc_spec import *
from spec_cfdp import pdu_header_octets, fss_len
from spec_cfdp_dir_a import (directive_octets, directive_base_octets, eof_octets, ack_octets, prompt_octets, keep_alive_octets,
                             crc_len, fss_max, raw_header_len, raw_packet_len, raw_crc_flag, raw_large_flag, ack_direction)
from cfdp_common import mk_conf, ids_in_range, W
from spacepackets.exceptions import BytesTooShortError
from spacepackets.cfdp.defs import (PduType, Direction, TransmissionMode, CrcFlag, LargeFileFlag, SegmentationControl,
                                    SegmentMetadataFlag, UnsupportedCfdpVersion, ConditionCode)
from spacepackets.cfdp.exceptions import InvalidCrc, TlvTypeMissmatch
from spacepackets.cfdp.conf import PduConfig
from spacepackets.cfdp.tlv.tlv import EntityIdTlv
from spacepackets.cfdp.pdu.file_directive import FileDirectivePduBase, DirectiveType
from spacepackets.cfdp.pdu.header import PduHeader
from spacepackets.cfdp.pdu.eof import EofPdu
from spacepackets.cfdp.pdu.ack import AckPdu, TransactionStatus
from spacepackets.cfdp.pdu.prompt import PromptPdu, ResponseRequired
from spacepackets.cfdp.pdu.keep_alive import KeepAlivePdu

P = "spacepackets.cfdp.pdu."


def header_view_ok(g, direction, mode, crc, large, segctrl, we, ws, src, seq, dst):
    """the header accessors every file-directive PDU exposes"""
    return both(g.pdu_type == PduType.FILE_DIRECTIVE, g.direction == direction, g.transmission_mode == mode, g.crc_flag == crc,
                g.file_flag == large, g.pdu_header.seg_ctrl == segctrl,
                g.pdu_header.segment_metadata_flag == SegmentMetadataFlag.NOT_PRESENT,
                g.source_entity_id.value == src, g.source_entity_id.byte_len == we,
                g.transaction_seq_num.value == seq, g.transaction_seq_num.byte_len == ws,
                g.dest_entity_id.value == dst, g.dest_entity_id.byte_len == we)


# ------------------------------------------------------------------------------------------------------------------
# Directive base
# ------------------------------------------------------------------------------------------------------------------
FD = P + "file_directive:"


@obligation(["C06", "C09"], "FileDirectivePduBase/pack-roundtrip",
            verifies=[FD + "FileDirectivePduBase.__init__", FD + "FileDirectivePduBase.pack", FD + "FileDirectivePduBase.unpack",
                      FD + "FileDirectivePduBase.directive_param_field_len", FD + "AbstractFileDirectiveBase.header_len",
                      FD + "AbstractFileDirectiveBase.packet_len", FD + "AbstractFileDirectiveBase.__eq__", FD + "FileDirectivePduBase.__eq__"])
def base_roundtrip(direction: EnumOf(Direction), mode: EnumOf(TransmissionMode), crc: EnumOf(CrcFlag), large: EnumOf(LargeFileFlag),
                   segctrl: EnumOf(SegmentationControl), we: W, ws: W, src: Int, seq: Int, dst: Int,
                   code: EnumOf(DirectiveType), plen: IntRange(0, 65534), plen2: IntRange(0, 65534), suffix: Bytes):
    requires(ids_in_range(we, ws, src, seq, dst))
    conf = mk_conf(we, ws, src, seq, dst, mode, crc, large, direction, segctrl)
    b = FileDirectivePduBase(conf, code, plen)
    raw = b.pack()
    ensures("layout", raw == directive_base_octets(direction, mode, crc, large, segctrl, we, ws, src, seq, dst, code, plen))
    ensures("lengths", both(b.header_len == 4 + 2 * we + ws + 1, len(raw) == b.header_len, b.pdu_data_field_len == plen + 1,
                            b.directive_param_field_len == plen, b.packet_len == 4 + 2 * we + ws + 1 + plen))
    ensures("accessors", both(b.directive_type == code, header_view_ok(b, direction, mode, crc, large, segctrl, we, ws, src, seq, dst)))
    ensures("pack-twice", b.pack() == raw)
    g = FileDirectivePduBase.unpack(raw + suffix)
    ensures("rt-accessors", both(g.directive_type == code, g.directive_param_field_len == plen, g.packet_len == b.packet_len,
                                 g.header_len == b.header_len,
                                 header_view_ok(g, direction, mode, crc, large, segctrl, we, ws, src, seq, dst)))
    ensures("rt-equal", both(g == b, b == g))
    ensures("rt-repack", g.pack() == raw)
    b.directive_param_field_len = plen2
    ensures("param-len-setter", both(b.directive_param_field_len == plen2, b.pdu_data_field_len == plen2 + 1,
                                     b.packet_len == 4 + 2 * we + ws + 1 + plen2,
                                     b.pack() == directive_base_octets(direction, mode, crc, large, segctrl, we, ws, src, seq, dst, code, plen2)))


@obligation(["C06", "C09", "C10"], "FileDirectivePduBase.unpack/any", verifies=[FD + "FileDirectivePduBase.unpack"])
def base_unpack_any(data: Bytes):
    o = outcome(FileDirectivePduBase.unpack, data)
    h = outcome(PduHeader.unpack, data)
    ensures("raises-only", o.ok or o.raised(ValueError, UnsupportedCfdpVersion))
    if not h.ok:
        ensures("header-refusal-propagates", not o.ok)
    else:
        hl = raw_header_len(data)
        ensures("too-short-iff", iff(o.ok, len(data) >= hl + 1))
        ensures("too-short-error", o.ok or o.raised(BytesTooShortError))
        if o.ok:
            g = o.value
            ensures("fields", both(g.directive_type == data[hl], g.header_len == hl + 1, g.packet_len == raw_packet_len(data),
                                   g.directive_param_field_len == data[1] * 256 + data[2] - 1))
            ensures("header", same_state(g.pdu_header, h.value))
            ensures("prefix-only", same_state(g, FileDirectivePduBase.unpack(data[0:hl + 1])))


@obligation(["C06", "C09", "C10"], "FileDirectivePduBase.parse_fss_field", verifies=[FD + "FileDirectivePduBase.parse_fss_field",
                                                                                       FD + "FileDirectivePduBase._verify_file_len"])
def base_fss_helpers(large: EnumOf(LargeFileFlag), raw: Bytes, idx: IntRange(0, None), size: Int):
    conf = mk_conf(1, 1, 0, 0, 0, TransmissionMode.ACKNOWLEDGED, CrcFlag.NO_CRC, large, Direction.TOWARDS_RECEIVER,
                   SegmentationControl.NO_RECORD_BOUNDARIES_PRESERVATION)
    b = FileDirectivePduBase(conf, DirectiveType.EOF_PDU, 0)
    fl = fss_len(large)
    o = outcome(b.parse_fss_field, raw, idx)
    ensures("raises-only", o.ok or o.raised(ValueError))
    ensures("too-short-iff", iff(o.raised(BytesTooShortError), idx + fl > len(raw)))
    ensures("accepted-iff", iff(o.ok, idx + fl <= len(raw)))
    if o.ok:
        ensures("value", both(o.value[0] == idx + fl, o.value[1] == from_be(raw[idx:idx + fl])))
    v = outcome(b._verify_file_len, size)
    ensures("verify-raises-only", v.ok or v.raised(ValueError))
    ensures("verify-accepts-fitting", implies(both(0 <= size, size < fss_max(large)), v.ok))
    ensures("verify-refuses-above-field-range", implies(size > fss_max(large), v.raised(ValueError)))


# ------------------------------------------------------------------------------------------------------------------
# Prompt
# ------------------------------------------------------------------------------------------------------------------
@obligation(["C06", "C04", "C09", "C11"], "PromptPdu/pack-roundtrip",
            verifies=[P + "prompt:PromptPdu.__init__", P + "prompt:PromptPdu.pack", P + "prompt:PromptPdu.unpack",
                      P + "prompt:PromptPdu.__eq__", P + "file_directive:FileDirectivePduBase.__init__",
                      P + "file_directive:FileDirectivePduBase.pack", P + "file_directive:FileDirectivePduBase.unpack",
                      P + "file_directive:AbstractFileDirectiveBase.packet_len", P + "file_directive:AbstractFileDirectiveBase.__eq__"])
def prompt_roundtrip(direction: EnumOf(Direction), mode: EnumOf(TransmissionMode), crc: EnumOf(CrcFlag), large: EnumOf(LargeFileFlag),
                     segctrl: EnumOf(SegmentationControl), we: W, ws: W, src: Int, seq: Int, dst: Int,
                     resp: EnumOf(ResponseRequired), suffix: Bytes):
    requires(ids_in_range(we, ws, src, seq, dst))
    conf = mk_conf(we, ws, src, seq, dst, mode, crc, large, direction, segctrl)
    snap = snapshot(conf)
    pdu = PromptPdu(conf, resp)
    raw = pdu.pack()
    spec = prompt_octets(mode, crc, large, segctrl, we, ws, src, seq, dst, resp)
    ensures("layout", raw == spec)
    ensures("lengths", both(pdu.packet_len == len(raw), pdu.pdu_data_field_len == len(raw) - (4 + 2 * we + ws),
                            pdu.header_len == 4 + 2 * we + ws + 1))
    ensures("accessors", both(pdu.directive_type == DirectiveType.PROMPT_PDU, pdu.response_required == resp,
                              header_view_ok(pdu, Direction.TOWARDS_RECEIVER, mode, crc, large, segctrl, we, ws, src, seq, dst)))
    ensures("crc-residue", implies(crc == CrcFlag.WITH_CRC, crc16(raw) == 0))
    ensures("pack-twice", pdu.pack() == raw)
    ensures("caller-config-untouched", same_state(conf, snap))
    o = outcome(PromptPdu.unpack, raw + suffix)
    ensures("rt-raises-only", o.ok or o.raised(ValueError, InvalidCrc))
    ensures("rt-accepted", implies(len(suffix) == 0, o.ok))
    if o.ok:
        g = o.value
        ensures("rt-kind", kind_of(g) == "PromptPdu")
        ensures("rt-equal", both(g == pdu, pdu == g))
        ensures("rt-accessors", both(g.directive_type == DirectiveType.PROMPT_PDU, g.response_required == resp,
                                     g.packet_len == len(raw), g.pdu_data_field_len == pdu.pdu_data_field_len,
                                     header_view_ok(g, Direction.TOWARDS_RECEIVER, mode, crc, large, segctrl, we, ws, src, seq, dst)))
        ensures("rt-repack", g.pack() == raw)
        ensures("rt-pack-keeps-equality", g == pdu)


def any_common(data, o, fixed_params):
    """clauses every decoder of a file-directive PDU owes for an arbitrary octet string it accepts: the buffer holds the declared
    PDU, the CRC (if flagged) is right, the fixed parameters lie inside the declared PDU before the CRC trailer"""
    hl = raw_header_len(data)
    n = raw_packet_len(data)
    c = raw_crc_flag(data)
    ensures("buffer-holds-packet", len(data) >= n)
    if c == 1:
        ensures("crc-gate", crc16(data[0:n]) == 0)
    ensures("declared-length-covers-fields", n - 2 * c >= hl + 1 + fixed_params)


@obligation(["C06", "C04", "C09", "C10"], "PromptPdu.unpack/any", lia_branch=True,
            verifies=[P + "prompt:PromptPdu.unpack", P + "file_directive:FileDirectivePduBase.unpack",
                      P + "file_directive:FileDirectivePduBase.verify_length_and_checksum"])
def prompt_unpack_any(data: Bytes):
    o = outcome(PromptPdu.unpack, data)
    ensures("raises-only", o.ok or o.raised(ValueError, InvalidCrc, UnsupportedCfdpVersion))
    if o.ok:
        g = o.value
        any_common(data, o, 1)
        hl = raw_header_len(data)
        n = raw_packet_len(data)
        ensures("fields", both(g.directive_type == data[hl], g.response_required == bits(data[hl + 1], 7, 7), g.packet_len == n))


# ------------------------------------------------------------------------------------------------------------------
# EOF
# ------------------------------------------------------------------------------------------------------------------
WF = Choice(0, 1, 2, 4, 8)   # width of the entity ID in the fault-location TLV, 0: no fault location


def fid_ok(wf, fid):
    return both(0 <= fid, implies(wf == 0, fid == 0), implies(wf == 1, fid < 256), implies(wf == 2, fid < 65536),
                implies(wf == 4, fid < 4294967296), implies(wf == 8, fid < 18446744073709551616))


def mk_fault_location(wf, fid):
    """entity-ID TLV whose value is an entity ID of wf octets (None: no fault location)"""
    if wf == 0:
        return None
    return EntityIdTlv(be(wf, fid))


def fault_value(wf, fid):
    if wf == 0:
        return None
    return be(wf, fid)


EOF_FUNCS = [P + "eof:EofPdu.__init__", P + "eof:EofPdu.pack", P + "eof:EofPdu.unpack", P + "eof:EofPdu.__eq__",
             P + "eof:EofPdu._calculate_directive_param_field_len", P + "eof:EofPdu.packet_len",
             P + "file_directive:FileDirectivePduBase.parse_fss_field"]


def eof_roundtrip_body(direction, mode, crc, large, segctrl, we, ws, src, seq, dst, cc, checksum, size, wf, fid, suffix):
    requires(ids_in_range(we, ws, src, seq, dst))
    requires(cc != ConditionCode.NO_CONDITION_FIELD)
    requires(fid_ok(wf, fid))
    requires(both(0 <= size, size < fss_max(large)))
    conf = mk_conf(we, ws, src, seq, dst, mode, crc, large, direction, segctrl)
    snap = snapshot(conf)
    pdu = EofPdu(conf, checksum, size, mk_fault_location(wf, fid), cc)
    raw = pdu.pack()
    ensures("caller-config-untouched", same_state(conf, snap))
    spec = eof_octets(mode, crc, large, segctrl, we, ws, src, seq, dst, cc, checksum, size, fault_value(wf, fid))
    ensures("layout", raw == spec)
    ensures("lengths", both(pdu.packet_len == len(raw), pdu.pdu_data_field_len == len(raw) - (4 + 2 * we + ws),
                            pdu.header_len == 4 + 2 * we + ws + 1))
    ensures("accessors", both(pdu.directive_type == DirectiveType.EOF_PDU, pdu.condition_code == cc, pdu.file_checksum == checksum,
                              pdu.file_size == size,
                              header_view_ok(pdu, Direction.TOWARDS_RECEIVER, mode, crc, large, segctrl, we, ws, src, seq, dst)))
    ensures("crc-residue", implies(crc == CrcFlag.WITH_CRC, crc16(raw) == 0))
    ensures("pack-twice", pdu.pack() == raw)
    o = outcome(EofPdu.unpack, raw + suffix)
    ensures("rt-raises-only", o.ok or o.raised(ValueError, InvalidCrc, TlvTypeMissmatch))
    ensures("rt-accepted", implies(len(suffix) == 0, o.ok))
    if o.ok:
        g = o.value
        ensures("rt-kind", kind_of(g) == "EofPdu")
        ensures("rt-condition-code", g.condition_code == cc)
        ensures("rt-accessors", both(g.directive_type == DirectiveType.EOF_PDU, g.file_checksum == checksum, g.file_size == size,
                                     g.packet_len == len(raw), g.pdu_data_field_len == pdu.pdu_data_field_len,
                                     header_view_ok(g, Direction.TOWARDS_RECEIVER, mode, crc, large, segctrl, we, ws, src, seq, dst)))
        if wf == 0:
            ensures("rt-fault-location", g.fault_location is None)
        else:
            ensures("rt-fault-location", both(g.fault_location is not None, g.fault_location == pdu.fault_location))
            if g.fault_location is not None:
                ensures("rt-fault-location-value", g.fault_location.value == be(wf, fid))
        ensures("rt-equal", both(g == pdu, pdu == g))
        ensures("rt-repack", g.pack() == raw)


# The (header widths) x (fault-location width) x CRC x large-file product is 320 cases; it is covered by two families:
# [all-header-widths]: every entity-ID / sequence-number width pair, fault location absent or a 2-octet entity ID;
# [all-fault-locations]: every fault-location width (and none) with 1-octet and with 8-octet header fields.
WF02 = Choice(0, 2)


@obligation(["C06", "C09", "C11"], "EofPdu/pack-roundtrip[all-header-widths,no-crc]", verifies=EOF_FUNCS)
def eof_roundtrip_w0(direction: EnumOf(Direction), mode: EnumOf(TransmissionMode), large: EnumOf(LargeFileFlag),
                     segctrl: EnumOf(SegmentationControl), we: W, ws: W, src: Int, seq: Int, dst: Int, cc: EnumOf(ConditionCode),
                     checksum: BytesLen(4, 4), size: Int, wf: WF02, fid: Int, suffix: Bytes):
    eof_roundtrip_body(direction, mode, CrcFlag.NO_CRC, large, segctrl, we, ws, src, seq, dst, cc, checksum, size, wf, fid, suffix)


@obligation(["C06", "C04", "C09", "C11"], "EofPdu/pack-roundtrip[all-header-widths,crc]", verifies=EOF_FUNCS)
def eof_roundtrip_w1(direction: EnumOf(Direction), mode: EnumOf(TransmissionMode), large: EnumOf(LargeFileFlag),
                     segctrl: EnumOf(SegmentationControl), we: W, ws: W, src: Int, seq: Int, dst: Int, cc: EnumOf(ConditionCode),
                     checksum: BytesLen(4, 4), size: Int, wf: WF02, fid: Int, suffix: Bytes):
    eof_roundtrip_body(direction, mode, CrcFlag.WITH_CRC, large, segctrl, we, ws, src, seq, dst, cc, checksum, size, wf, fid, suffix)


@obligation(["C06", "C04", "C09", "C11"], "EofPdu/pack-roundtrip[all-fault-locations]", verifies=EOF_FUNCS)
def eof_roundtrip_f(direction: EnumOf(Direction), mode: EnumOf(TransmissionMode), crc: EnumOf(CrcFlag), large: EnumOf(LargeFileFlag),
                    segctrl: EnumOf(SegmentationControl), wh: Choice(1, 8), src: Int, seq: Int, dst: Int, cc: EnumOf(ConditionCode),
                    checksum: BytesLen(4, 4), size: Int, wf: WF, fid: Int, suffix: Bytes):
    eof_roundtrip_body(direction, mode, crc, large, segctrl, wh, wh, src, seq, dst, cc, checksum, size, wf, fid, suffix)


@obligation(["C06"], "EofPdu/refusals", verifies=[P + "eof:EofPdu.__init__", P + "eof:EofPdu.pack"])
def eof_refusals(crc: EnumOf(CrcFlag), large: EnumOf(LargeFileFlag), we: W, ws: W, cc: EnumOf(ConditionCode), checksum: Bytes, size: Int,
                 wf: Choice(0, 4), fid: Int):
    """a file size that does not fit the selected FSS width makes pack fail (never a truncated field); the checksum has 4 octets"""
    requires(cc != ConditionCode.NO_CONDITION_FIELD)
    requires(fid_ok(wf, fid))
    conf = mk_conf(we, ws, 0, 0, 0, TransmissionMode.ACKNOWLEDGED, crc, large, Direction.TOWARDS_RECEIVER,
                   SegmentationControl.NO_RECORD_BOUNDARIES_PRESERVATION)
    c = outcome(EofPdu, conf, checksum, size, mk_fault_location(wf, fid), cc)
    ensures("ctor-raises-only", c.ok or c.raised(ValueError))
    ensures("checksum-not-4-octets-refused", iff(c.ok, len(checksum) == 4))
    if c.ok:
        p = outcome(c.value.pack)
        ensures("pack-fails-iff-size-does-not-fit", iff(p.ok, both(0 <= size, size < fss_max(large))))
        ensures("pack-raises-only", p.ok or p.raised(ValueError, struct.error))


@obligation(["C11", "C06"], "EofPdu.fault_location/setter[all-header-widths]",
            verifies=[P + "eof:EofPdu.fault_location", P + "eof:EofPdu._calculate_directive_param_field_len"])
def eof_set_fault_location_widths(mode: EnumOf(TransmissionMode), crc: EnumOf(CrcFlag), large: EnumOf(LargeFileFlag), we: W, ws: W,
                                  src: Int, seq: Int, dst: Int, cc: EnumOf(ConditionCode), checksum: BytesLen(4, 4), size: Int,
                                  add: Bool, fid: Int):
    """all header widths; the setter adds or removes a 2-octet fault location"""
    if add:
        eof_setter_body(mode, crc, large, we, ws, src, seq, dst, cc, checksum, size, 0, 0, 2, fid)
    else:
        eof_setter_body(mode, crc, large, we, ws, src, seq, dst, cc, checksum, size, 2, fid, 0, 0)


@obligation(["C11", "C06"], "EofPdu.fault_location/setter[all-transitions]",
            verifies=[P + "eof:EofPdu.fault_location", P + "eof:EofPdu._calculate_directive_param_field_len"])
def eof_set_fault_location_transitions(mode: EnumOf(TransmissionMode), crc: EnumOf(CrcFlag), large: EnumOf(LargeFileFlag),
                                       wh: Choice(1, 8), src: Int, seq: Int, dst: Int, cc: EnumOf(ConditionCode),
                                       checksum: BytesLen(4, 4), size: Int, wf0: WF, fid0: Int, wf1: WF, fid1: Int):
    """every (old, new) fault-location pair, None included, for 1-octet and 8-octet header fields"""
    eof_setter_body(mode, crc, large, wh, wh, src, seq, dst, cc, checksum, size, wf0, fid0, wf1, fid1)


def eof_setter_body(mode, crc, large, we, ws, src, seq, dst, cc, checksum, size, wf0, fid0, wf1, fid1):
    requires(ids_in_range(we, ws, src, seq, dst))
    requires(cc != ConditionCode.NO_CONDITION_FIELD)
    requires(both(fid_ok(wf0, fid0), fid_ok(wf1, fid1)))
    requires(both(0 <= size, size < fss_max(large)))
    conf = mk_conf(we, ws, src, seq, dst, mode, crc, large, Direction.TOWARDS_RECEIVER, SegmentationControl.NO_RECORD_BOUNDARIES_PRESERVATION)
    snap = snapshot(conf)
    pdu = EofPdu(conf, checksum, size, mk_fault_location(wf0, fid0), cc)
    new_loc = mk_fault_location(wf1, fid1)
    pdu.fault_location = new_loc
    fresh = EofPdu(conf, checksum, size, mk_fault_location(wf1, fid1), cc)
    raw = pdu.pack()
    ensures("getter", is_same(pdu.fault_location, new_loc))
    ensures("packet_len-tracks", both(pdu.packet_len == len(raw), pdu.packet_len == fresh.packet_len))
    ensures("length-field-tracks", both(pdu.pdu_data_field_len == len(raw) - (4 + 2 * we + ws), raw[1] * 256 + raw[2] == pdu.pdu_data_field_len))
    ensures("octets-as-fresh", raw == fresh.pack())
    ensures("octets-as-spec", raw == eof_octets(mode, crc, large, SegmentationControl.NO_RECORD_BOUNDARIES_PRESERVATION, we, ws, src, seq, dst,
                                                cc, checksum, size, fault_value(wf1, fid1)))
    ensures("state-as-fresh", same_state(pdu, fresh))
    ensures("equal-to-fresh", pdu == fresh)
    ensures("pack-twice", pdu.pack() == raw)
    ensures("caller-config-untouched", same_state(conf, snap))


def eof_unpack_any_body(data, part):
    """part 1/2/4/8: octet strings whose header declares that sequence-number width; part 0: all other octet strings"""
    if part == 0:
        if len(data) >= 4:
            w = bits(data[3], 2, 0) + 1
            requires(not either(w == 1, w == 2, w == 4, w == 8))
    else:
        requires(len(data) >= 4)
        requires(bits(data[3], 2, 0) + 1 == part)
    o = outcome(EofPdu.unpack, data)
    ensures("raises-only", o.ok or o.raised(ValueError, InvalidCrc, UnsupportedCfdpVersion, TlvTypeMissmatch))
    if part == 0:
        ensures("refused", not o.ok)
    if o.ok:
        g = o.value
        hl = raw_header_len(data)
        n = raw_packet_len(data)
        fl = fss_len(raw_large_flag(data))
        any_common(data, o, 5 + fl)
        k = hl + 6 + fl                         # first octet after the fixed parameters
        end = n - 2 * raw_crc_flag(data)        # end of the parameters: the declared PDU end, before the CRC trailer
        ensures("fields", both(g.directive_type == data[hl], g.condition_code == bits(data[hl + 1], 7, 4),
                               g.file_checksum == data[hl + 2:hl + 6], g.file_size == from_be(data[hl + 6:hl + 6 + fl])))
        if end <= k:
            ensures("no-fault-location", both(g.fault_location is None, g.packet_len == n))
        else:
            ensures("fault-location-present", g.fault_location is not None)
            t = outcome(EntityIdTlv.unpack, data[k:end])
            ensures("fault-location-from-declared-region-only", t.ok)
            if t.ok:
                ensures("fault-location-value", same_state(g.fault_location, t.value))


@obligation(["C06", "C04", "C09", "C10"], "EofPdu.unpack/any[seq-width-1]", lia_branch=True, verifies=[P + "eof:EofPdu.unpack"])
def eof_unpack_any_1(data: Bytes):
    eof_unpack_any_body(data, 1)


@obligation(["C06", "C04", "C09", "C10"], "EofPdu.unpack/any[seq-width-2]", lia_branch=True, verifies=[P + "eof:EofPdu.unpack"])
def eof_unpack_any_2(data: Bytes):
    eof_unpack_any_body(data, 2)


@obligation(["C06", "C04", "C09", "C10"], "EofPdu.unpack/any[seq-width-4]", lia_branch=True, verifies=[P + "eof:EofPdu.unpack"])
def eof_unpack_any_4(data: Bytes):
    eof_unpack_any_body(data, 4)


@obligation(["C06", "C04", "C09", "C10"], "EofPdu.unpack/any[seq-width-8]", lia_branch=True, verifies=[P + "eof:EofPdu.unpack"])
def eof_unpack_any_8(data: Bytes):
    eof_unpack_any_body(data, 8)


@obligation(["C06", "C09", "C10"], "EofPdu.unpack/any[other]", lia_branch=True, verifies=[P + "eof:EofPdu.unpack"])
def eof_unpack_any_0(data: Bytes):
    eof_unpack_any_body(data, 0)


# ------------------------------------------------------------------------------------------------------------------
# ACK
# ------------------------------------------------------------------------------------------------------------------
ACK_FUNCS = [P + "ack:AckPdu.__init__", P + "ack:AckPdu.pack", P + "ack:AckPdu.unpack", P + "ack:AckPdu.__eq__",
             P + "ack:AckPdu._calculate_directive_field_len"]


@obligation(["C06", "C04", "C09", "C11"], "AckPdu/pack-roundtrip", verifies=ACK_FUNCS)
def ack_roundtrip(direction: EnumOf(Direction), mode: EnumOf(TransmissionMode), crc: EnumOf(CrcFlag), large: EnumOf(LargeFileFlag),
                  segctrl: EnumOf(SegmentationControl), we: W, ws: W, src: Int, seq: Int, dst: Int,
                  acked: EnumOf(DirectiveType), cc: EnumOf(ConditionCode), status: EnumOf(TransactionStatus), suffix: Bytes):
    requires(ids_in_range(we, ws, src, seq, dst))
    requires(cc != ConditionCode.NO_CONDITION_FIELD)
    conf = mk_conf(we, ws, src, seq, dst, mode, crc, large, direction, segctrl)
    snap = snapshot(conf)
    c = outcome(AckPdu, conf, acked, cc, status)
    ensures("ctor-raises-only", c.ok or c.raised(ValueError))
    ensures("only-eof-and-finished-can-be-acked", iff(c.ok, either(acked == DirectiveType.EOF_PDU, acked == DirectiveType.FINISHED_PDU)))
    ensures("caller-config-untouched", same_state(conf, snap))
    if c.ok:
        pdu = c.value
        raw = pdu.pack()
        ensures("caller-config-untouched-by-pack", same_state(conf, snap))
        ensures("layout", raw == ack_octets(mode, crc, large, segctrl, we, ws, src, seq, dst, acked, cc, status))
        ensures("lengths", both(pdu.packet_len == len(raw), pdu.pdu_data_field_len == len(raw) - (4 + 2 * we + ws),
                                pdu.header_len == 4 + 2 * we + ws + 1))
        ensures("accessors", both(pdu.directive_type == DirectiveType.ACK_PDU, pdu.directive_code_of_acked_pdu == acked,
                                  pdu.condition_code_of_acked_pdu == cc, pdu.transaction_status == status,
                                  header_view_ok(pdu, ack_direction(acked), mode, crc, large, segctrl, we, ws, src, seq, dst)))
        ensures("crc-residue", implies(crc == CrcFlag.WITH_CRC, crc16(raw) == 0))
        ensures("pack-twice", pdu.pack() == raw)
        o = outcome(AckPdu.unpack, raw + suffix)
        ensures("rt-raises-only", o.ok or o.raised(ValueError, InvalidCrc))
        ensures("rt-accepted", implies(len(suffix) == 0, o.ok))
        if o.ok:
            g = o.value
            ensures("rt-kind", kind_of(g) == "AckPdu")
            ensures("rt-accessors", both(g.directive_type == DirectiveType.ACK_PDU, g.directive_code_of_acked_pdu == acked,
                                         g.directive_subtype_code == pdu.directive_subtype_code,
                                         g.condition_code_of_acked_pdu == cc, g.transaction_status == status,
                                         g.packet_len == len(raw), g.pdu_data_field_len == pdu.pdu_data_field_len,
                                         header_view_ok(g, ack_direction(acked), mode, crc, large, segctrl, we, ws, src, seq, dst)))
            ensures("rt-equal", both(g == pdu, pdu == g))
            ensures("rt-repack", g.pack() == raw)


@obligation(["C06", "C04", "C09", "C10"], "AckPdu.unpack/any", lia_branch=True, verifies=[P + "ack:AckPdu.unpack"])
def ack_unpack_any(data: Bytes):
    o = outcome(AckPdu.unpack, data)
    ensures("raises-only", o.ok or o.raised(ValueError, InvalidCrc, UnsupportedCfdpVersion))
    if o.ok:
        g = o.value
        any_common(data, o, 2)
        hl = raw_header_len(data)
        n = raw_packet_len(data)
        ensures("fields", both(g.directive_type == DirectiveType.ACK_PDU, g.directive_code_of_acked_pdu == bits(data[hl + 1], 7, 4),
                               g.directive_subtype_code == bits(data[hl + 1], 3, 0), g.condition_code_of_acked_pdu == bits(data[hl + 2], 7, 4),
                               g.transaction_status == bits(data[hl + 2], 1, 0), g.packet_len == n))


# ------------------------------------------------------------------------------------------------------------------
# Keep Alive
# ------------------------------------------------------------------------------------------------------------------
KA_FUNCS = [P + "keep_alive:KeepAlivePdu.__init__", P + "keep_alive:KeepAlivePdu.pack", P + "keep_alive:KeepAlivePdu.unpack",
            P + "keep_alive:KeepAlivePdu.__eq__", P + "keep_alive:KeepAlivePdu.packet_len"]


@obligation(["C06", "C04", "C09", "C11"], "KeepAlivePdu/pack-roundtrip", verifies=KA_FUNCS)
def keep_alive_roundtrip(direction: EnumOf(Direction), mode: EnumOf(TransmissionMode), crc: EnumOf(CrcFlag), large: EnumOf(LargeFileFlag),
                         segctrl: EnumOf(SegmentationControl), we: W, ws: W, src: Int, seq: Int, dst: Int, progress: Int, suffix: Bytes):
    requires(ids_in_range(we, ws, src, seq, dst))
    conf = mk_conf(we, ws, src, seq, dst, mode, crc, large, direction, segctrl)
    snap = snapshot(conf)
    pdu = KeepAlivePdu(conf, progress)
    p = outcome(pdu.pack)
    ensures("pack-fails-iff-progress-does-not-fit", iff(p.ok, both(0 <= progress, progress < fss_max(large))))
    ensures("pack-raises-only", p.ok or p.raised(ValueError, struct.error))
    ensures("caller-config-untouched", same_state(conf, snap))
    if p.ok:
        raw = p.value
        ensures("layout", raw == keep_alive_octets(mode, crc, large, segctrl, we, ws, src, seq, dst, progress))
        ensures("lengths", both(pdu.packet_len == len(raw), pdu.pdu_data_field_len == len(raw) - (4 + 2 * we + ws),
                                pdu.header_len == 4 + 2 * we + ws + 1))
        ensures("accessors", both(pdu.directive_type == DirectiveType.KEEP_ALIVE_PDU, pdu.progress == progress,
                                  header_view_ok(pdu, Direction.TOWARDS_SENDER, mode, crc, large, segctrl, we, ws, src, seq, dst)))
        ensures("crc-residue", implies(crc == CrcFlag.WITH_CRC, crc16(raw) == 0))
        ensures("pack-twice", pdu.pack() == raw)
        o = outcome(KeepAlivePdu.unpack, raw + suffix)
        ensures("rt-raises-only", o.ok or o.raised(ValueError, InvalidCrc))
        ensures("rt-accepted", implies(len(suffix) == 0, o.ok))
        if o.ok:
            g = o.value
            ensures("rt-kind", kind_of(g) == "KeepAlivePdu")
            ensures("rt-accessors", both(g.directive_type == DirectiveType.KEEP_ALIVE_PDU, g.progress == progress,
                                         g.packet_len == len(raw), g.pdu_data_field_len == pdu.pdu_data_field_len,
                                         header_view_ok(g, Direction.TOWARDS_SENDER, mode, crc, large, segctrl, we, ws, src, seq, dst)))
            ensures("rt-equal", both(g == pdu, pdu == g))
            ensures("rt-repack", g.pack() == raw)


@obligation(["C11", "C06"], "KeepAlivePdu.file_flag/setter", verifies=[P + "keep_alive:KeepAlivePdu.file_flag"])
def keep_alive_set_file_flag(mode: EnumOf(TransmissionMode), crc: EnumOf(CrcFlag), large0: EnumOf(LargeFileFlag),
                             large1: EnumOf(LargeFileFlag), segctrl: EnumOf(SegmentationControl), we: W, ws: W, src: Int, seq: Int,
                             dst: Int, progress: Int):
    requires(ids_in_range(we, ws, src, seq, dst))
    requires(both(0 <= progress, progress < fss_max(large1)))
    conf0 = mk_conf(we, ws, src, seq, dst, mode, crc, large0, Direction.TOWARDS_SENDER, segctrl)
    conf1 = mk_conf(we, ws, src, seq, dst, mode, crc, large1, Direction.TOWARDS_SENDER, segctrl)
    snap = snapshot(conf0)
    pdu = KeepAlivePdu(conf0, progress)
    pdu.file_flag = large1
    fresh = KeepAlivePdu(conf1, progress)
    raw = pdu.pack()
    ensures("getter", pdu.file_flag == large1)
    ensures("packet_len-tracks", both(pdu.packet_len == len(raw), pdu.packet_len == fresh.packet_len))
    ensures("length-field-tracks", both(pdu.pdu_data_field_len == len(raw) - (4 + 2 * we + ws), raw[1] * 256 + raw[2] == pdu.pdu_data_field_len))
    ensures("octets-as-fresh", raw == fresh.pack())
    ensures("octets-as-spec", raw == keep_alive_octets(mode, crc, large1, segctrl, we, ws, src, seq, dst, progress))
    ensures("state-as-fresh", same_state(pdu, fresh))
    ensures("equal-to-fresh", pdu == fresh)
    ensures("pack-twice", pdu.pack() == raw)
    ensures("caller-config-untouched", same_state(conf0, snap))


@obligation(["C06", "C04", "C09", "C10"], "KeepAlivePdu.unpack/any", lia_branch=True, verifies=[P + "keep_alive:KeepAlivePdu.unpack"])
def keep_alive_unpack_any(data: Bytes):
    o = outcome(KeepAlivePdu.unpack, data)
    ensures("raises-only", o.ok or o.raised(ValueError, InvalidCrc, UnsupportedCfdpVersion))
    if o.ok:
        g = o.value
        hl = raw_header_len(data)
        n = raw_packet_len(data)
        fl = fss_len(raw_large_flag(data))
        any_common(data, o, fl)
        ensures("fields", both(g.directive_type == DirectiveType.KEEP_ALIVE_PDU, g.progress == from_be(data[hl + 1:hl + 1 + fl]), g.packet_len == n))


# ------------------------------------------------------------------------------------------------------------------
# C10: every strict prefix of a packed PDU is refused with a documented error.
# For every header configuration this follows from clauses above: an accepted octet string holds the whole declared PDU
# (<K>.unpack/any: buffer-holds-packet) and a packed PDU declares exactly its own length (<K>/pack-roundtrip: lengths, layout).
# The direct statement is checked here for 1-octet header fields, every truncation point.
# ------------------------------------------------------------------------------------------------------------------
@obligation(["C10", "C06"], "directives/strict-prefix-refused",
            verifies=[P + "eof:EofPdu.unpack", P + "ack:AckPdu.unpack", P + "prompt:PromptPdu.unpack", P + "keep_alive:KeepAlivePdu.unpack"])
def strict_prefix_refused(kind: Choice(4, 6, 9, 12), mode: EnumOf(TransmissionMode), crc: EnumOf(CrcFlag), large: EnumOf(LargeFileFlag),
                          src: IntRange(0, 255), seq: IntRange(0, 255), dst: IntRange(0, 255), cc: EnumOf(ConditionCode),
                          checksum: BytesLen(4, 4), size: Int, wf: WF02, fid: Int, acked_finished: Bool, status: EnumOf(TransactionStatus),
                          resp: EnumOf(ResponseRequired), k: IntRange(0, 40)):
    requires(cc != ConditionCode.NO_CONDITION_FIELD)
    requires(fid_ok(wf, fid))
    requires(both(0 <= size, size < fss_max(large)))
    conf = mk_conf(1, 1, src, seq, dst, mode, crc, large, Direction.TOWARDS_RECEIVER, SegmentationControl.NO_RECORD_BOUNDARIES_PRESERVATION)
    if kind == 4:
        raw = EofPdu(conf, checksum, size, mk_fault_location(wf, fid), cc).pack()
        requires(k < len(raw))
        o = outcome(EofPdu.unpack, raw[0:k])
    elif kind == 6:
        acked = DirectiveType.EOF_PDU
        if acked_finished:
            acked = DirectiveType.FINISHED_PDU
        raw = AckPdu(conf, acked, cc, status).pack()
        requires(k < len(raw))
        o = outcome(AckPdu.unpack, raw[0:k])
    elif kind == 9:
        raw = PromptPdu(conf, resp).pack()
        requires(k < len(raw))
        o = outcome(PromptPdu.unpack, raw[0:k])
    else:
        raw = KeepAlivePdu(conf, size).pack()
        requires(k < len(raw))
        o = outcome(KeepAlivePdu.unpack, raw[0:k])
    ensures("refused", not o.ok)
    ensures("documented-error", o.raised(ValueError, InvalidCrc))
