"""C13 - space-packet stream parser (spacepackets/ccsds/spacepacket.py: parse_space_packets).

Per-call contract for an ARBITRARY queue content (any number of chunks of any sizes) and an
arbitrary octet stream, against the reference scan `ref_scan` / `ref_end` (a well-founded recursive
definition of "what a left-to-right scan emits"): the call returns exactly ref_scan(B, 0) and leaves
exactly B[ref_end(B, 0):] in the queue, where B is the concatenation of the queue.  The two loops of
the function carry invariants (side-car loop contracts), so buffer length, number of chunks and number
of packets are unbounded.  The lemmas relate the reference scan of a buffer to that of an extended
buffer (chunking independence) and to back-to-back packets."""
from pyvc_spec import *
from spacepackets.ccsds.spacepacket import parse_space_packets, PacketId, SpacePacketHeader, PacketType

Q = "spacepackets.ccsds.spacepacket:parse_space_packets"
IDS = ListOf(IntRange(0, 8191), by_tier(2, 4))      # registered packet IDs (13-bit words): at most 2 (quick) / 4 (thorough) per harness


def pid_at(B, i):
    """13-bit packet identification word at offset i (CCSDS 133.0-B-2 4.1.3.3)"""
    return (B[i] * 256 + B[i + 1]) % 8192


def plen_at(B, i):
    """total packet length announced at offset i: data length field + 1 + 6"""
    return B[i + 4] * 256 + B[i + 5] + 7


def measure(B, i, ids):
    return len(B) - i


@ghost_function(args=["bytes", "int", "intlist"], result="byteslist", measure=measure)
def ref_scan(B, i, ids):
    """packets a left-to-right scan of B emits from offset i: a registered packet ID starts a packet
    (complete: emitted and skipped; incomplete: stop), any other octet is skipped; with at most 6 octets
    left nothing can be decided"""
    if len(B) - i <= 6:
        return []
    if pid_at(B, i) in ids:
        n = plen_at(B, i)
        if i + n > len(B):
            return []
        return [B[i:i + n]] + ref_scan(B, i + n, ids)
    return ref_scan(B, i + 1, ids)


@ghost_function(args=["bytes", "int", "intlist"], result="int", measure=measure)
def ref_end(B, i, ids):
    """offset at which that scan stops (start of the not yet decidable tail)"""
    if len(B) - i <= 6:
        return i
    if pid_at(B, i) in ids:
        n = plen_at(B, i)
        if i + n > len(B):
            return i
        return ref_end(B, i + n, ids)
    return ref_end(B, i + 1, ids)


@loop_spec(Q, 0, havoc={"concatenated_packets": BytesArr(), "analysis_queue": Chunks})
def drain_loop(concatenated_packets, analysis_queue, entry):
    whole = entry.concatenated_packets + concat_chunks(entry.analysis_queue)
    invariant("conservation", concatenated_packets + concat_chunks(analysis_queue) == whole)
    refine_as(concatenated_packets, whole)     # at loop exit the queue is empty: the buffer IS the stream
    decreases(len(analysis_queue))


@loop_spec(Q, 1, havoc={"current_idx": Int, "tm_list": BytesList})
def scan_loop(current_idx, tm_list, concatenated_packets, ids_raw, analysis_queue):
    B = concatenated_packets
    invariant("idx-range", both(0 <= current_idx, current_idx <= len(B)))
    invariant("queue-empty", len(analysis_queue) == 0)
    if loop_phase() != "preserved":     # the definitional facts are needed where the invariant is assumed: at the old offset
        unfold(ref_scan, B, current_idx, ids_raw)
        unfold(ref_end, B, current_idx, ids_raw)
    invariant("emitted", tm_list + ref_scan(B, current_idx, ids_raw) == ref_scan(B, 0, ids_raw))
    invariant("end", ref_end(B, current_idx, ids_raw) == ref_end(B, 0, ids_raw))
    decreases(len(B) - current_idx)


def packet_ids_of(ids):
    return [PacketId.from_raw(x) for x in ids]


@obligation(["C13", "C10"], "parse_space_packets", verifies=[Q, "spacepackets.ccsds.spacepacket:__handle_packet_id_match"], feas_timeout_ms=150, shards=14, shard_depth=10)
def parse_call(queue: Chunks, ids: IDS):
    B = concat_chunks(queue)
    unfold(ref_scan, B, 0, ids)
    unfold(ref_end, B, 0, ids)
    o = outcome(parse_space_packets, queue, packet_ids_of(ids))
    ensures("raises-nothing", o.ok)       # C10: whatever the queue holds, the parser returns (no struct.error / IndexError)
    requires(o.ok)
    r = o.value
    ensures("returns-reference-scan", r == ref_scan(B, 0, ids))
    e = ref_end(B, 0, ids)
    ensures("end-in-range", both(0 <= e, e <= len(B)))
    ensures("tail-kept", concat_chunks(queue) == B[e:len(B)])


@obligation(["C13"], "parse_space_packets/queue-owns-its-data", verifies=[Q])
def kept_data_is_not_the_callers_buffer(chunk: BytesLen(0, 9), later: BytesLen(1, 3), ids: IDS):
    """what a call keeps for the next call (and what it returned) is the parser's own data: a caller that re-uses its receive
    buffer after handing it over - the usual pattern with one bytearray per socket read - does not change either.  Short single
    chunks are the interesting case: nothing can be emitted yet, everything is kept."""
    from collections import deque
    buf = bytearray(chunk)
    q = deque([buf])
    r = parse_space_packets(q, packet_ids_of(ids))
    kept = concat_chunks(q)
    emitted = snapshot(r)
    buf.extend(later)            # the caller appends the next read to ITS buffer ...
    ensures("kept-tail-unchanged-by-caller", concat_chunks(q) == kept)
    ensures("emitted-unchanged-by-caller", same_state(r, emitted))
    buf.clear()                  # ... or recycles it
    ensures("kept-tail-survives-recycling", concat_chunks(q) == kept)


# ---------------------------------------------------------------------------------------------
# lemmas over the reference scan (spec level): what `ref_scan` means for a stream of packets, and
# why the result does not depend on how the stream was cut into chunks / calls
# ---------------------------------------------------------------------------------------------
@lemma(["C13"], "ref_scan/registered-packet-is-emitted", feas_timeout_ms=300)
def scan_packet_step(pre: Bytes, apid: IntRange(0, 2047), ptype: Choice(0, 1), shf: Bool, flags: IntRange(0, 3),
                     count: IntRange(0, 16383), data: BytesLen(1, 65536), post: Bytes, other: IntRange(0, 8191)):
    """a complete space packet with a registered packet ID at offset |pre| is emitted whole, byte-identical,
    and the scan continues right behind it (packets back to back are all found, in order)"""
    h = SpacePacketHeader(PacketType(ptype), apid, count, len(data) - 1, shf, flags)
    pkt = h.pack() + data
    ids = [other, h.packet_id.raw()]
    S = pre + pkt + post
    i = len(pre)
    unfold(ref_scan, S, i, ids)
    unfold(ref_end, S, i, ids)
    ensures("emitted-whole", ref_scan(S, i, ids) == [pkt] + ref_scan(S, i + len(pkt), ids))
    ensures("continues-behind", ref_end(S, i, ids) == ref_end(S, i + len(pkt), ids))


@lemma(["C13"], "ref_scan/unregistered-octet-is-skipped", feas_timeout_ms=300)
def scan_junk_step(S: BytesLen(7, None), i: Int, ids: IDS):
    requires(both(0 <= i, len(S) - i > 6))
    requires(not (pid_at(S, i) in ids))
    unfold(ref_scan, S, i, ids)
    unfold(ref_end, S, i, ids)
    ensures("skipped", both(ref_scan(S, i, ids) == ref_scan(S, i + 1, ids), ref_end(S, i, ids) == ref_end(S, i + 1, ids)))


@lemma(["C13"], "ref_scan/shift-step", feas_timeout_ms=300)
def scan_shift_step(S: Bytes, c: Int, i: Int, ids: IDS):
    """induction step of: scanning the tail S[c:] from i is scanning S from c+i (results and end offset shifted by c).
    Well-founded induction on the remaining length |S|-c-i; the hypothesis is used at the two successor offsets only."""
    requires(both(0 <= c, c <= len(S), 0 <= i, i <= len(S) - c))
    T = S[c:len(S)]
    unfold(ref_scan, T, i, ids)
    unfold(ref_end, T, i, ids)
    unfold(ref_scan, S, c + i, ids)
    unfold(ref_end, S, c + i, ids)
    if len(T) - i > 6:
        if pid_at(T, i) in ids:
            n = plen_at(T, i)
            if i + n <= len(T):
                requires(both(ref_scan(T, i + n, ids) == ref_scan(S, c + i + n, ids),
                              ref_end(T, i + n, ids) + c == ref_end(S, c + i + n, ids)))      # induction hypothesis
        else:
            requires(both(ref_scan(T, i + 1, ids) == ref_scan(S, c + i + 1, ids),
                          ref_end(T, i + 1, ids) + c == ref_end(S, c + i + 1, ids)))          # induction hypothesis
    ensures("same-packets", ref_scan(T, i, ids) == ref_scan(S, c + i, ids))
    ensures("end-shifted", ref_end(T, i, ids) + c == ref_end(S, c + i, ids))


@lemma(["C13"], "ref_scan/extension-step", feas_timeout_ms=300)
def scan_extension_step(B: Bytes, X: Bytes, i: Int, ids: IDS):
    """induction step of chunking independence: as long as the scan of B is not blocked at i, the scan of the
    extended stream B+X takes the same step there; where B's scan stops, B+X's scan carries on:
        ref_scan(B+X, i) == ref_scan(B, i) ++ ref_scan(B+X, ref_end(B, i))    and the end offsets agree.
    Well-founded induction on |B|-i; hypothesis used at the successor offset only."""
    requires(both(0 <= i, i <= len(B)))
    S = B + X
    unfold(ref_scan, B, i, ids)
    unfold(ref_end, B, i, ids)
    unfold(ref_scan, S, i, ids)
    unfold(ref_end, S, i, ids)
    if len(B) - i > 6:
        if pid_at(B, i) in ids:
            n = plen_at(B, i)
            if i + n <= len(B):
                j = i + n
                requires(both(ref_scan(S, j, ids) == ref_scan(B, j, ids) + ref_scan(S, ref_end(B, j, ids), ids),
                              ref_end(S, j, ids) == ref_end(S, ref_end(B, j, ids), ids)))   # induction hypothesis
        else:
            j = i + 1
            requires(both(ref_scan(S, j, ids) == ref_scan(B, j, ids) + ref_scan(S, ref_end(B, j, ids), ids),
                          ref_end(S, j, ids) == ref_end(S, ref_end(B, j, ids), ids)))       # induction hypothesis
    ensures("packets-extend", ref_scan(S, i, ids) == ref_scan(B, i, ids) + ref_scan(S, ref_end(B, i, ids), ids))
    ensures("end-extends", ref_end(S, i, ids) == ref_end(S, ref_end(B, i, ids), ids))
