"""C03 - PUS-C telemetry (spacepackets/ecss/tm.py, spacepackets/ecss/pus_17_test.py), any timestamp length."""
from pyvc_spec import *
from spec_pus import pus_tm_octets
from spacepackets.ccsds.spacepacket import SpacePacketHeader, PacketType, SequenceFlags, SpacePacket
from spacepackets.ecss.tm import PusTm, PusTmSecondaryHeader, InvalidTmCrc16, PUS_TM_TIMESTAMP_OFFSET
from spacepackets.ecss.pus_17_test import Service17Tm
from spacepackets.exceptions import BytesTooShortError

M = "spacepackets.ecss.tm:"
M17 = "spacepackets.ecss.pus_17_test:"
MAX_VAR = 65536 - 7 - 2  # data field limit: secondary header (7) + timestamp + source data + CRC <= 65536


@obligation(["C03", "C04", "C11"], "PusTm.pack", verifies=[M + "PusTm.pack", M + "PusTm.__init__", M + "PusTmSecondaryHeader.pack",
                                                           M + "PusTmSecondaryHeader.__init__",
                                                           M + "PusTm.data_len_from_src_len_timestamp_len"])
def tm_pack(service: IntRange(0, 255), subservice: IntRange(0, 255), apid: IntRange(0, 2047), count: IntRange(0, 16383),
            msg: IntRange(0, 65535), dest: IntRange(0, 65535), tref: IntRange(0, 15), ver: IntRange(0, 7),
            ts: Bytes, src: Bytes):
    requires(len(ts) + len(src) <= MAX_VAR)
    tm = PusTm(service, subservice, ts, src, apid, count, msg, tref, dest, ver)
    r = tm.pack()
    ensures("layout", r == pus_tm_octets(ver, apid, count, service, subservice, msg, dest, tref, ts, src))
    ensures("packet_len", both(tm.packet_len == len(r), tm.packet_len == len(ts) + len(src) + 15))
    ensures("length-field", both(tm.sp_header.data_len == len(r) - 7, from_be(r[4:6]) == len(r) - 7))
    ensures("accessors", both(tm.service == service, tm.subservice == subservice, tm.apid == apid, tm.seq_count == count,
                              tm.timestamp == ts, tm.source_data == src, tm.tm_data == src, tm.ccsds_version == ver,
                              tm.pus_tm_sec_header.message_counter == msg, tm.pus_tm_sec_header.dest_id == dest,
                              tm.pus_tm_sec_header.spacecraft_time_ref == tref))
    ensures("header-size", tm.pus_tm_sec_header.header_size == 7 + len(ts))
    ensures("timestamp-offset", both(PUS_TM_TIMESTAMP_OFFSET == 13, r[13:13 + len(ts)] == ts))
    ensures("crc-residue", crc16(r) == 0)
    ensures("pack-twice", tm.pack() == r)
    ensures("crc16-attr", tm.crc16 == r[len(r) - 2:len(r)])
    ensures("service-from-bytes", PusTm.service_from_bytes(r) == service)


@obligation(["C03"], "PusTm.__init__/refusal", verifies=[M + "PusTm.__init__", M + "PusTmSecondaryHeader.__init__"])
def tm_init_refusal(service: Int, subservice: Int, msg: Int, ts: BytesLen(0, 16), src: BytesLen(0, 16)):
    """out-of-range service, subservice or message counter are refused with ValueError - for all integers"""
    bad = either(service < 0, service > 255, subservice < 0, subservice > 255, msg < 0, msg > 65535)
    o = outcome(PusTm, service, subservice, ts, src, 0, 0, msg)
    ensures("valueerror-iff", o.raised(ValueError) == bad)
    ensures("raises-only", o.ok or o.raised(ValueError))
    o2 = outcome(PusTmSecondaryHeader, service, subservice, ts, msg)
    ensures("sec-header-iff", o2.raised(ValueError) == bad)
    ensures("sec-header-raises-only", o2.ok or o2.raised(ValueError))


@obligation(["C03"], "PusTm.__init__/too-large", verifies=[M + "PusTm.__init__"])
def tm_too_large(ts: Bytes, src: Bytes):
    """a timestamp + source data that does not fit a space packet is refused, everything that fits is accepted"""
    o = outcome(PusTm, 17, 2, ts, src)
    ensures("refused-iff", o.raised(ValueError) == (len(ts) + len(src) > MAX_VAR))
    ensures("raises-only", o.ok or o.raised(ValueError))


@obligation(["C03"], "PusTm.to_space_packet", verifies=[M + "PusTm.to_space_packet", M + "PusTm.calc_crc"])
def tm_space_packet(service: IntRange(0, 255), subservice: IntRange(0, 255), apid: IntRange(0, 2047), count: IntRange(0, 16383),
                    msg: IntRange(0, 65535), dest: IntRange(0, 65535), tref: IntRange(0, 15), ver: IntRange(0, 7),
                    ts: Bytes, src: Bytes):
    requires(len(ts) + len(src) <= MAX_VAR)
    tm = PusTm(service, subservice, ts, src, apid, count, msg, tref, dest, ver)
    sp = tm.to_space_packet()
    ensures("same-octets", sp.pack() == pus_tm_octets(ver, apid, count, service, subservice, msg, dest, tref, ts, src))
    tm2 = PusTm(service, subservice, ts, src, apid, count, msg, tref, dest, ver)
    tm2.calc_crc()
    r = tm2.pack(recalc_crc=False)
    ensures("calc-crc-then-pack", r == pus_tm_octets(ver, apid, count, service, subservice, msg, dest, tref, ts, src))


@obligation(["C03", "C11"], "PusTm.tm_data(setter)", verifies=[M + "PusTm.tm_data"])
def tm_set_data(service: IntRange(0, 255), subservice: IntRange(0, 255), apid: IntRange(0, 2047), count: IntRange(0, 16383),
                msg: IntRange(0, 65535), dest: IntRange(0, 65535), tref: IntRange(0, 15), ver: IntRange(0, 7),
                ts: Bytes, src0: Bytes, src1: Bytes, src: Bytes):
    """after any sequence of source-data updates the packet is that of a freshly built TM with the final data"""
    requires(len(ts) + len(src0) <= MAX_VAR)
    requires(len(ts) + len(src1) <= MAX_VAR)
    requires(len(ts) + len(src) <= MAX_VAR)
    tm = PusTm(service, subservice, ts, src0, apid, count, msg, tref, dest, ver)
    tm.tm_data = src1
    tm.pack()
    tm.tm_data = src
    fresh = PusTm(service, subservice, ts, src, apid, count, msg, tref, dest, ver)
    r = tm.pack()
    ensures("octets-as-fresh", r == pus_tm_octets(ver, apid, count, service, subservice, msg, dest, tref, ts, src))
    ensures("len_ok", both(tm.packet_len == len(r), tm.sp_header.data_len == len(r) - 7, from_be(r[4:6]) == len(r) - 7))
    ensures("equal-fresh", both(tm == fresh, same_state(tm, fresh, ignore=("_crc16",))))
    ensures("source-data", both(tm.source_data == src, tm.tm_data == src))


@obligation(["C03", "C04", "C09", "C10"], "PusTm.unpack", verifies=[M + "PusTm.unpack", M + "PusTmSecondaryHeader.unpack",
                                                                     M + "PusTmSecondaryHeader.header_size"])
def tm_unpack(data: Bytes, tlen: Int):
    requires(tlen >= 0)
    o = outcome(PusTm.unpack, data, tlen)
    ensures("raises-only", o.ok or o.raised(ValueError, InvalidTmCrc16))
    ensures("short-refused", implies(len(data) < 15 + tlen, not o.ok))
    if len(data) >= 13:
        n0 = data[4] * 256 + data[5] + 7
        well_formed = both(n0 >= 15 + tlen, len(data) >= n0, bits(data[6], 7, 4) == 2)
        ensures("accept-iff", o.ok == both(well_formed, crc16(data[0:n0]) == 0))
        ensures("crc-error-iff", o.raised(InvalidTmCrc16) == both(well_formed, crc16(data[0:n0]) != 0))
    if o.ok:
        tm = o.value
        n = data[4] * 256 + data[5] + 7
        ensures("min-length", n >= 6 + 7 + tlen + 2)
        ensures("buffer-holds-packet", len(data) >= n)
        ensures("crc-gate", crc16(data[0:n]) == 0)
        ensures("pus-version", bits(data[6], 7, 4) == 2)
        ensures("primary-header", same_state(tm.sp_header, SpacePacketHeader.unpack(data)))
        ensures("fields", both(tm.pus_tm_sec_header.spacecraft_time_ref == bits(data[6], 3, 0), tm.service == data[7],
                               tm.subservice == data[8], tm.pus_tm_sec_header.message_counter == data[9] * 256 + data[10],
                               tm.pus_tm_sec_header.dest_id == data[11] * 256 + data[12]))
        ensures("timestamp", both(tm.timestamp == data[13:13 + tlen], len(tm.timestamp) == tlen))
        ensures("source-data", both(tm.source_data == data[13 + tlen:n - 2], tm.tm_data == data[13 + tlen:n - 2]))
        ensures("packet_len", tm.packet_len == n)
        ensures("crc16-attr", tm.crc16 == data[n - 2:n])
        ensures("prefix-only", same_state(tm, PusTm.unpack(data[0:n], tlen)))


@obligation(["C03", "C09", "C10"], "PusTm.unpack/strict-prefix")
def tm_unpack_prefix(service: IntRange(0, 255), subservice: IntRange(0, 255), apid: IntRange(0, 2047), count: IntRange(0, 16383),
                     msg: IntRange(0, 65535), dest: IntRange(0, 65535), tref: IntRange(0, 15), ver: IntRange(0, 7),
                     ts: Bytes, src: Bytes, cut: Int):
    """every strict prefix of a packed TM is refused with a documented error"""
    requires(len(ts) + len(src) <= MAX_VAR)
    raw = PusTm(service, subservice, ts, src, apid, count, msg, tref, dest, ver).pack()
    requires(both(0 <= cut, cut < len(raw)))
    o = outcome(PusTm.unpack, raw[0:cut], len(ts))
    ensures("refused", o.raised(ValueError))


@obligation(["C03", "C09"], "PusTm/roundtrip")
def tm_roundtrip(service: IntRange(0, 255), subservice: IntRange(0, 255), apid: IntRange(0, 2047), count: IntRange(0, 16383),
                 msg: IntRange(0, 65535), dest: IntRange(0, 65535), tref: IntRange(0, 15), ver: IntRange(0, 7),
                 ts: Bytes, src: Bytes, suffix: Bytes):
    requires(len(ts) + len(src) <= MAX_VAR)
    tm = PusTm(service, subservice, ts, src, apid, count, msg, tref, dest, ver)
    raw = tm.pack()
    o = outcome(PusTm.unpack, raw + suffix, len(ts))
    ensures("accepted", o.ok)
    if o.ok:
        g = o.value
        ensures("equal", both(g == tm, tm == g))
        ensures("fields", both(g.service == service, g.subservice == subservice, g.apid == apid, g.seq_count == count,
                               g.pus_tm_sec_header.message_counter == msg, g.pus_tm_sec_header.dest_id == dest,
                               g.pus_tm_sec_header.spacecraft_time_ref == tref, g.ccsds_version == ver,
                               g.timestamp == ts, g.source_data == src, g.packet_len == len(raw)))
        ensures("repack", g.pack() == raw)
        ensures("space-packet-view", g.to_space_packet().pack() == raw)


@obligation(["C03"], "PusTm/repack-any")
def tm_repack_any(data: Bytes, tlen: Int):
    """encode(decode(b)) = b[:N] for every accepted octet string"""
    requires(tlen >= 0)
    o = outcome(PusTm.unpack, data, tlen)
    if o.ok:
        n = data[4] * 256 + data[5] + 7
        requires(n >= 15 + tlen)
        ensures("repack", o.value.pack() == data[0:n])


@obligation(["C03", "C09", "C10"], "PusTmSecondaryHeader", verifies=[M + "PusTmSecondaryHeader.unpack", M + "PusTmSecondaryHeader.pack",
                                                                      M + "PusTmSecondaryHeader.__eq__",
                                                                      M + "PusTmSecondaryHeader.header_size"])
def tm_sec_header(service: IntRange(0, 255), subservice: IntRange(0, 255), msg: IntRange(0, 65535), dest: IntRange(0, 65535),
                  tref: IntRange(0, 15), ts: Bytes, data: Bytes, tlen: Int):
    requires(tlen >= 0)
    h = PusTmSecondaryHeader(service, subservice, ts, msg, dest, tref)
    raw = h.pack()
    ensures("layout", raw == be(1, 32 + tref) + be(1, service) + be(1, subservice) + be(2, msg) + be(2, dest) + ts)
    ensures("size", both(len(raw) == 7 + len(ts), h.header_size == 7 + len(ts)))
    g = PusTmSecondaryHeader.unpack(raw + data, len(ts))
    ensures("roundtrip", both(g == h, g.service == service, g.subservice == subservice, g.message_counter == msg,
                              g.dest_id == dest, g.spacecraft_time_ref == tref, g.timestamp == ts))
    o = outcome(PusTmSecondaryHeader.unpack, data, tlen)
    ensures("raises-only", o.ok or o.raised(ValueError))
    ensures("short-refused", implies(len(data) < 7 + tlen, o.raised(ValueError)))
    ensures("short-min", implies(len(data) < 7, o.raised(BytesTooShortError)))
    if len(data) >= 7 + tlen:
        ensures("version-iff", o.ok == (bits(data[0], 7, 4) == 2))
    if o.ok:
        ensures("timestamp-bounds", both(o.value.timestamp == data[7:7 + tlen], len(o.value.timestamp) == tlen,
                                         o.value.header_size == 7 + tlen))


@obligation(["C03", "C04", "C11"], "Service17Tm.pack", verifies=[M17 + "Service17Tm.__init__", M17 + "Service17Tm.pack"])
def s17_pack(subservice: IntRange(0, 255), apid: IntRange(0, 2047), count: IntRange(0, 16383), dest: IntRange(0, 65535),
             tref: IntRange(0, 15), ver: IntRange(0, 7), ts: Bytes, src: Bytes):
    requires(len(ts) + len(src) <= MAX_VAR)
    tm = Service17Tm(apid, subservice, ts, count, src, ver, tref, dest)
    r = tm.pack()
    ensures("layout", r == pus_tm_octets(ver, apid, count, 17, subservice, 0, dest, tref, ts, src))
    ensures("as-pus-tm", r == PusTm(17, subservice, ts, src, apid, count, 0, tref, dest, ver).pack())
    ensures("accessors", both(tm.service == 17, tm.subservice == subservice, tm.timestamp == ts, tm.source_data == src,
                              tm.ccsds_version == ver, tm.sp_header.apid == apid, tm.sp_header.seq_count == count,
                              tm.sp_header.data_len == len(r) - 7))
    ensures("crc-residue", crc16(r) == 0)
    ensures("pack-twice", tm.pack() == r)


@obligation(["C03", "C04", "C09", "C10"], "Service17Tm.unpack", verifies=[M17 + "Service17Tm.unpack"])
def s17_unpack(data: Bytes, tlen: Int):
    """the wrapper decodes exactly like PusTm.unpack: same verdict, same error class, same packet"""
    requires(tlen >= 0)
    o = outcome(Service17Tm.unpack, data, tlen)
    p = outcome(PusTm.unpack, data, tlen)
    ensures("raises-only", o.ok or o.raised(ValueError, InvalidTmCrc16))
    ensures("same-verdict", both(o.ok == p.ok, exc_kind(o) == exc_kind(p)))
    if o.ok and p.ok:
        ensures("same-packet", same_state(o.value.pus_tm, p.value))
        ensures("repack", o.value.pack() == p.value.pack())


@obligation(["C03", "C09"], "Service17Tm/roundtrip")
def s17_roundtrip(subservice: IntRange(0, 255), apid: IntRange(0, 2047), count: IntRange(0, 16383), dest: IntRange(0, 65535),
                  tref: IntRange(0, 15), ver: IntRange(0, 7), ts: Bytes, src: Bytes, suffix: Bytes):
    requires(len(ts) + len(src) <= MAX_VAR)
    tm = Service17Tm(apid, subservice, ts, count, src, ver, tref, dest)
    raw = tm.pack()
    o = outcome(Service17Tm.unpack, raw + suffix, len(ts))
    ensures("accepted", o.ok)
    if o.ok:
        g = o.value
        ensures("fields", both(g.service == 17, g.subservice == subservice, g.timestamp == ts, g.source_data == src,
                               g.ccsds_version == ver, g.sp_header.apid == apid, g.sp_header.seq_count == count,
                               g.sp_header.data_len == len(raw) - 7))
        ensures("equal-pus-tm", g.pus_tm == tm.pus_tm)
        ensures("repack", g.pack() == raw)


@obligation(["C03", "C10"], "PusTm.service_from_bytes", verifies=[M + "PusTm.service_from_bytes"])
def tm_service_from_bytes(data: Bytes):
    o = outcome(PusTm.service_from_bytes, data)
    ensures("short-iff", o.raised(ValueError) == (len(data) < 8))
    ensures("raises-only", o.ok or o.raised(ValueError))
    if o.ok:
        ensures("value", o.value == data[7])


@obligation(["C03", "C04", "C11"], "PusTm/setters", verifies=[M + "PusTm.tm_data", M + "PusTm.apid", M + "PusTm.to_space_packet", M + "PusTm.pack"])
def tm_setters(service: IntRange(0, 255), subservice: IntRange(0, 255), apid: IntRange(0, 2047), count: IntRange(0, 16383),
               msg: IntRange(0, 65535), dest: IntRange(0, 65535), tref: IntRange(0, 15), ver: IntRange(0, 7),
               ts: Bytes, src: Bytes, which: Choice("tm_data", "apid", "sec.message_counter", "sec.dest_id", "sph.seq_count"),
               new_src: Bytes, new_apid: IntRange(0, 2047), new16: IntRange(0, 65535), new14: IntRange(0, 16383), packed_before: Bool, view_first: Bool):
    """whatever was set after construction (packed before or not - packing fills the CRC cache): length, length field, octets,
    CRC trailer and space-packet view are those of a freshly built telemetry packet with the final values"""
    requires(len(ts) + len(src) <= MAX_VAR)
    requires(len(ts) + len(new_src) <= MAX_VAR)
    tm = PusTm(service, subservice, ts, src, apid, count, msg, tref, dest, ver)
    if packed_before:
        tm.pack()
    if which == "tm_data":
        tm.tm_data = new_src
        expected = pus_tm_octets(ver, apid, count, service, subservice, msg, dest, tref, ts, new_src)
    elif which == "apid":
        tm.apid = new_apid
        expected = pus_tm_octets(ver, new_apid, count, service, subservice, msg, dest, tref, ts, src)
    elif which == "sec.message_counter":        # fields changed through the public header objects
        tm.pus_tm_sec_header.message_counter = new16
        expected = pus_tm_octets(ver, apid, count, service, subservice, new16, dest, tref, ts, src)
    elif which == "sec.dest_id":
        tm.pus_tm_sec_header.dest_id = new16
        expected = pus_tm_octets(ver, apid, count, service, subservice, msg, new16, tref, ts, src)
    else:
        tm.space_packet_header.seq_count = new14
        expected = pus_tm_octets(ver, apid, new14, service, subservice, msg, dest, tref, ts, src)
    if view_first:     # both orders: either call may refresh a cached CRC and hide a stale one from the other
        view = tm.to_space_packet().pack()
        ensures("space-packet-view-as-fresh", view == expected)
        r = tm.pack()
        ensures("octets-as-fresh", r == expected)
    else:
        r = tm.pack()
        ensures("octets-as-fresh", r == expected)
        view = tm.to_space_packet().pack()
        ensures("space-packet-view-as-fresh", view == expected)
    ensures("reported-length", both(tm.packet_len == len(r), tm.sp_header.data_len == len(r) - 7))
    ensures("crc-residue", crc16(r) == 0)
    ensures("view-after-pack", tm.to_space_packet().pack() == expected)
