"""Probe used by tools/xcheck_fs.py (differential test of the ghost file system model against CPython).
Not a contract file (leading underscore: ignored by ./check)."""
from pyvc_spec import *
from spacepackets.seqcount import FileSeqCountProvider, SeqCountProvider


def probe(width, text, calls):
    """returns a list of observations: per call the value or the exception class name, and the file text"""
    path = ghost_file(text)
    out = []
    p = FileSeqCountProvider(width, path)
    out.append(file_text(path))
    for c in calls:
        if c == "n":
            o = outcome(p.get_and_increment)
        elif c == "c":
            o = outcome(p.current)
        elif c == "r":
            o = outcome(ghost_remove, path)
        else:
            p = FileSeqCountProvider(width, path)
            o = outcome(len, "")
        if o.ok:
            out.append(o.value)
        else:
            out.append(exc_kind(o))
        out.append(file_text(path))
    return out
