"""Probe used by tools/xcheck_floats.py (differential test of the datetime/float model against CPython).
Not a contract file (leading underscore: ignored by ./check)."""
import datetime
import math
from pyvc_spec import *
from spacepackets.ccsds.time.cds import CdsShortTimestamp

UTC = datetime.timezone.utc
EPOCH70 = datetime.datetime(1970, 1, 1, tzinfo=UTC)
US = datetime.timedelta(microseconds=1)


def us_of(dt):
    return (dt - EPOCH70) // US


def probe(days, ms, us, x):
    """x: a float; observations as plain ints / floats / strings"""
    out = []
    ts = CdsShortTimestamp(days, ms)
    out.append(ts.as_unix_seconds())
    out.append(us_of(ts.as_datetime()))
    dt = EPOCH70 + datetime.timedelta(microseconds=us)
    td = dt - EPOCH70
    out.append((td.days, td.seconds, td.microseconds))
    out.append(td.total_seconds())
    out.append(dt.timestamp())
    o = outcome(CdsShortTimestamp.from_datetime, dt)
    if o.ok:
        out.append((o.value.ccsds_days, o.value.ms_of_day, o.value.as_unix_seconds()))
    else:
        out.append(exc_kind(o))
    out.append(datetime.timedelta(seconds=x) // US)
    out.append(datetime.timedelta(days=1, seconds=x, milliseconds=3) // US)
    if x >= 0:
        out.append(us_of(datetime.datetime.fromtimestamp(x, tz=UTC)))
    out.append((math.floor(x), math.ceil(x), int(x), round(x), x / 1000.0, days * 86400 + x, 7 / 1000))
    o = outcome(ts.__add__, datetime.timedelta(microseconds=abs(us)))
    if o.ok:
        out.append((o.value.ccsds_days, o.value.ms_of_day, us_of(o.value.as_datetime())))
    else:
        out.append(exc_kind(o))
    out.append((dt < EPOCH70, dt == EPOCH70, dt + td > dt, (td + td) // US, (-td) // US, td * 3 // US))
    return out
