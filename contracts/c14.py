"""C14 - CDS short timestamps (spacepackets/ccsds/time/cds.py, common.py).

Integer clauses (layout, decoding, day conversion, addition, from_datetime after its repair) are plain
integer/octet obligations.  The float view (as_unix_seconds) and the datetime view are proved in the
trusted float/datetime model of pyvc/floats_model.py (binary64 = real + rounding-error bounds,
datetime/timedelta = exact integer microseconds); `within` compares a float with a rational exactly.
"""
import datetime
from pyvc_spec import *
from spec_time import cds_short_octets, pfield_is_cds_short, unix_ms, timedelta_ms, MS_PER_DAY, US_PER_DAY, EPOCH_OFFSET_DAYS
from spacepackets.ccsds.time.cds import CdsShortTimestamp, LenOfDaysSegment, len_of_day_seg_from_pfield
from spacepackets.ccsds.time.common import convert_unix_days_to_ccsds_days, convert_ccsds_days_to_unix_days, CcsdsTimeCodeId
from spacepackets.exceptions import BytesTooShortError

M = "spacepackets.ccsds.time.cds:"
MC = "spacepackets.ccsds.time.common:"
DAYS = IntRange(0, 65535)
MS = IntRange(0, MS_PER_DAY - 1)
MS32 = IntRange(0, 4294967295)
UTC = datetime.timezone.utc
EPOCH58 = datetime.datetime(1958, 1, 1, tzinfo=UTC)
EPOCH70 = datetime.datetime(1970, 1, 1, tzinfo=UTC)
SETUP = [M + "CdsShortTimestamp.__init__", M + "CdsShortTimestamp._setup", M + "CdsShortTimestamp._calculate_unix_seconds",
         M + "CdsShortTimestamp._calculate_date_time"]


# ---------------------------------------------------------------------------------- layout
@obligation(["C14"], "CdsShortTimestamp.pack", verifies=SETUP + [M + "CdsShortTimestamp.pack"])
def cds_pack(days: DAYS, ms: MS32):
    ts = CdsShortTimestamp(days, ms)
    r = ts.pack()
    ensures("layout", r == cds_short_octets(days, ms))
    ensures("length", both(len(r) == 7, ts.len_packed == 7))
    ensures("pfield", both(ts.pfield == be(1, 0x40), ts.ccsds_time_code() == 4))
    ensures("accessors", both(ts.ccsds_days == days, ts.ms_of_day == ms))
    ensures("pack-twice", ts.pack() == r)


@obligation(["C14", "C09", "C10"], "CdsShortTimestamp.unpack_from_raw", verifies=[M + "CdsShortTimestamp.unpack_from_raw", M + "len_of_day_seg_from_pfield"])
def cds_unpack_from_raw(data: Bytes):
    o = outcome(CdsShortTimestamp.unpack_from_raw, data)
    ensures("raises-only", o.ok or o.raised(ValueError))
    ensures("too-short-iff", o.raised(BytesTooShortError) == (len(data) < 7))
    if len(data) >= 7:
        ensures("wrong-pfield-refused", implies(not pfield_is_cds_short(data[0]), o.raised(ValueError)))
        ensures("accepted-iff-cds-short", o.ok == pfield_is_cds_short(data[0]))
    if o.ok:
        ensures("values", o.value == (from_be(data[1:3]), from_be(data[3:7])))


@obligation(["C14", "C09", "C10"], "CdsShortTimestamp.unpack", verifies=SETUP + [M + "CdsShortTimestamp.unpack", M + "CdsShortTimestamp.unpack_from_raw"])
def cds_unpack(data: Bytes):
    o = outcome(CdsShortTimestamp.unpack, data)
    ensures("raises-only", o.ok or o.raised(ValueError))
    ensures("too-short-iff", o.raised(BytesTooShortError) == (len(data) < 7))
    if len(data) >= 7:
        ensures("accepted-iff-cds-short", o.ok == pfield_is_cds_short(data[0]))
    if o.ok:
        ts = o.value
        ensures("fields", both(ts.ccsds_days == from_be(data[1:3]), ts.ms_of_day == from_be(data[3:7])))
        ensures("prefix-only", ts == CdsShortTimestamp.unpack(data[0:7]))
        ensures("repack", implies(data[0] == 0x40, ts.pack() == data[0:7]))


@obligation(["C14", "C09", "C10"], "CdsShortTimestamp.read_from_raw", verifies=SETUP + [M + "CdsShortTimestamp.read_from_raw", M + "CdsShortTimestamp.unpack_from_raw"])
def cds_read_from_raw(days0: DAYS, ms0: MS32, data: Bytes):
    ts = CdsShortTimestamp(days0, ms0)
    o = outcome(ts.read_from_raw, data)
    ensures("raises-only", o.ok or o.raised(ValueError))
    ensures("too-short-iff", o.raised(BytesTooShortError) == (len(data) < 7))
    if len(data) >= 7:
        ensures("accepted-iff-cds-short", o.ok == pfield_is_cds_short(data[0]))
    if o.ok:
        ensures("fields", both(ts.ccsds_days == from_be(data[1:3]), ts.ms_of_day == from_be(data[3:7])))
        ensures("same-as-unpack", same_state(ts, CdsShortTimestamp.unpack(data)))
    else:
        ensures("unchanged-when-refused", same_state(ts, CdsShortTimestamp(days0, ms0)))


@obligation(["C14", "C09"], "CdsShortTimestamp/roundtrip", verifies=SETUP + [M + "CdsShortTimestamp.pack", M + "CdsShortTimestamp.unpack",
                                                                               M + "CdsShortTimestamp.unpack_from_raw", M + "CdsShortTimestamp.__eq__"])
def cds_roundtrip(days: DAYS, ms: MS32, suffix: Bytes):
    ts = CdsShortTimestamp(days, ms)
    o = outcome(CdsShortTimestamp.unpack, ts.pack() + suffix)
    ensures("accepted", o.ok)
    if o.ok:
        ensures("same-pair", both(o.value.ccsds_days == days, o.value.ms_of_day == ms))
        ensures("equal", o.value == ts)
        ensures("same-state", same_state(o.value, ts))
    e = CdsShortTimestamp.empty()
    e.read_from_raw(ts.pack() + suffix)
    ensures("read_from_raw-equal", e == ts)


@obligation(["C14"], "CdsShortTimestamp.__eq__", verifies=[M + "CdsShortTimestamp.__eq__"])
def cds_eq(d1: DAYS, ms1: MS32, d2: DAYS, ms2: MS32):
    a = CdsShortTimestamp(d1, ms1)
    b = CdsShortTimestamp(d2, ms2)
    ensures("eq-iff-same-pair", (a == b) == both(d1 == d2, ms1 == ms2))
    ensures("ne-other-kinds", both(not (a == (d1, ms1)), not (a == None)))


@obligation(["C14"], "len_of_day_seg_from_pfield", verifies=[M + "len_of_day_seg_from_pfield"])
def cds_len_of_day(p: IntRange(0, 255)):
    r = len_of_day_seg_from_pfield(p)
    ensures("bit2", r == bits(p, 2, 2))
    ensures("member", both(kind_of(r) == "LenOfDaysSegment", either(r == LenOfDaysSegment.DAYS_16_BITS, r == LenOfDaysSegment.DAYS_24_BITS)))


# ---------------------------------------------------------------------------------- day conversion
@obligation(["C14"], "convert_days", verifies=[MC + "convert_unix_days_to_ccsds_days", MC + "convert_ccsds_days_to_unix_days",
                                               M + "CdsShortTimestamp.from_unix_days"])
def day_conversion(d: Int, ms: MS):
    ensures("unix-to-ccsds", convert_unix_days_to_ccsds_days(d) == d + EPOCH_OFFSET_DAYS)
    ensures("ccsds-to-unix", convert_ccsds_days_to_unix_days(d) == d - EPOCH_OFFSET_DAYS)
    ensures("inverse", both(convert_ccsds_days_to_unix_days(convert_unix_days_to_ccsds_days(d)) == d,
                            convert_unix_days_to_ccsds_days(convert_ccsds_days_to_unix_days(d)) == d))
    if both(d + EPOCH_OFFSET_DAYS >= 0, d + EPOCH_OFFSET_DAYS <= 65535):
        ts = CdsShortTimestamp.from_unix_days(d, ms)
        ensures("from_unix_days", both(ts.ccsds_days == d + EPOCH_OFFSET_DAYS, ts.ms_of_day == ms))


# ---------------------------------------------------------------------------------- views
@obligation(["C14"], "CdsShortTimestamp.as_unix_seconds", verifies=SETUP + [M + "CdsShortTimestamp.as_unix_seconds"])
def cds_unix_seconds(days: DAYS, ms: MS):
    ts = CdsShortTimestamp(days, ms)
    # the float nearest to the exact instant, up to 2^-20 s (two roundings below 2^33 s)
    ensures("value", within(ts.as_unix_seconds(), unix_ms(days, ms), 1000, 1, 1048576))


@obligation(["C14"], "CdsShortTimestamp.as_datetime", verifies=SETUP + [M + "CdsShortTimestamp.as_datetime"])
def cds_datetime(days: DAYS, ms: MS):
    ts = CdsShortTimestamp(days, ms)
    ensures("value", ts.as_datetime() == EPOCH58 + datetime.timedelta(days=days, milliseconds=ms))
    ensures("utc", ts.as_datetime().tzinfo == UTC)


@obligation(["C14"], "CdsShortTimestamp/monotone", verifies=SETUP + [M + "CdsShortTimestamp.as_unix_seconds", M + "CdsShortTimestamp.as_datetime"])
def cds_monotone(d1: DAYS, ms1: MS, d2: DAYS, ms2: MS):
    requires(either(d1 < d2, both(d1 == d2, ms1 < ms2)))
    a = CdsShortTimestamp(d1, ms1)
    b = CdsShortTimestamp(d2, ms2)
    ensures("unix-seconds-later", a.as_unix_seconds() < b.as_unix_seconds())
    ensures("datetime-later", a.as_datetime() < b.as_datetime())


# ---------------------------------------------------------------------------------- addition
@obligation(["C14"], "CdsShortTimestamp.__add__", verifies=SETUP + [M + "CdsShortTimestamp.__add__"])
def cds_add(days: DAYS, ms: MS, td_days: IntRange(0, 999999999), td_seconds: IntRange(0, 86399), td_microseconds: IntRange(0, 999999)):
    ts = CdsShortTimestamp(days, ms)
    td = datetime.timedelta(days=td_days, seconds=td_seconds, microseconds=td_microseconds)
    total = days * MS_PER_DAY + ms + timedelta_ms(td_days, td_seconds, td_microseconds)
    o = outcome(ts.__add__, td)
    ensures("overflow-iff", o.raised(OverflowError) == (total // MS_PER_DAY > 65535))
    ensures("raises-only", o.ok or o.raised(OverflowError))
    if o.ok:
        r = o.value
        ensures("normalised", both(0 <= r.ms_of_day, r.ms_of_day < MS_PER_DAY))
        ensures("total-ms", both(r.ccsds_days == total // MS_PER_DAY, r.ms_of_day == total % MS_PER_DAY))
        ensures("views-follow", r.as_datetime() == EPOCH58 + datetime.timedelta(days=r.ccsds_days, milliseconds=r.ms_of_day))


@obligation(["C14"], "CdsShortTimestamp.__add__/operator", verifies=SETUP + [M + "CdsShortTimestamp.__add__"])
def cds_add_operator(days: DAYS, ms: MS, add_ms: IntRange(0, MS_PER_DAY)):
    requires(days * MS_PER_DAY + ms + add_ms < 65536 * MS_PER_DAY)
    r = CdsShortTimestamp(days, ms) + datetime.timedelta(milliseconds=add_ms)
    total = days * MS_PER_DAY + ms + add_ms
    ensures("total-ms", both(r.ccsds_days == total // MS_PER_DAY, r.ms_of_day == total % MS_PER_DAY))
    o = outcome(CdsShortTimestamp(days, ms).__add__, add_ms)
    ensures("only-timedelta", o.raised(TypeError))


# ---------------------------------------------------------------------------------- from_datetime
US_MIN = -EPOCH_OFFSET_DAYS * US_PER_DAY                  # 1958-01-01T00:00:00Z
US_MAX = (65536 - EPOCH_OFFSET_DAYS) * US_PER_DAY - 1     # 2137-06-06T23:59:59.999999Z


FROM_DT = [M + "CdsShortTimestamp.from_datetime", M + "CdsShortTimestamp.empty", M + "CdsShortTimestamp.__init__", MC + "convert_unix_days_to_ccsds_days"]


def from_datetime_clauses(us):
    dt = EPOCH70 + datetime.timedelta(microseconds=us)
    r = CdsShortTimestamp.from_datetime(dt)
    ensures("days", r.ccsds_days == us // US_PER_DAY + EPOCH_OFFSET_DAYS)
    ensures("ms", r.ms_of_day == (us % US_PER_DAY) // 1000)
    ensures("in-range", both(0 <= r.ccsds_days, r.ccsds_days <= 65535, 0 <= r.ms_of_day, r.ms_of_day < MS_PER_DAY))
    ensures("datetime-view", r.as_datetime() == dt)
    ensures("unix-seconds-view", within(r.as_unix_seconds(), us, 1000000, 1, 1048576))
    if us % 1000 == 0:
        back = CdsShortTimestamp(r.ccsds_days, r.ms_of_day)
        ensures("exact-for-whole-ms", both(back.as_datetime() == dt, r.pack() == cds_short_octets(r.ccsds_days, r.ms_of_day)))


@obligation(["C14"], "CdsShortTimestamp.from_datetime/since-1970", verifies=FROM_DT)
def cds_from_datetime_since_1970(us: IntRange(0, US_MAX)):
    from_datetime_clauses(us)


@obligation(["C14"], "CdsShortTimestamp.from_datetime/before-1970", verifies=FROM_DT)
def cds_from_datetime_before_1970(us: IntRange(US_MIN, -1)):
    from_datetime_clauses(us)
