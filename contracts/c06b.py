"""C06 part B - the list-carrying CFDP file directives: Finished, Metadata, NAK
(spacepackets/cfdp/pdu/finished.py, metadata.py, nak.py).  Oracles: speclib/spec_cfdp_dir_b.py."""
import struct
from pyvc_spec import *
from spec_cfdp import pdu_header_octets, fss, fss_len, tlv, lv, with_crc_trailer
from spec_cfdp_dir_b import (directive_pdu, finished_params, metadata_params, nak_params, segreq, fss_fits, crc_len,
                             entity_id_tlv, filestore_response, TOWARDS_RECEIVER, TOWARDS_SENDER)
from cfdp_common import mk_conf, ids_in_range, W
from spacepackets.exceptions import BytesTooShortError
from spacepackets.cfdp.defs import (Direction, TransmissionMode, CrcFlag, LargeFileFlag, SegmentationControl,
                                    UnsupportedCfdpVersion, ConditionCode, DeliveryCode, FileStatus, ChecksumType)
from spacepackets.cfdp.exceptions import InvalidCrc, TlvTypeMissmatch
from spacepackets.cfdp.conf import PduConfig
from spacepackets.cfdp.pdu.nak import NakPdu, get_max_seg_reqs_for_max_packet_size_and_pdu_cfg
from spacepackets.cfdp.pdu.finished import FinishedPdu, FinishedParams
from spacepackets.cfdp.pdu.metadata import MetadataPdu, MetadataParams

NAK = "spacepackets.cfdp.pdu.nak:"
FIN = "spacepackets.cfdp.pdu.finished:"
MD = "spacepackets.cfdp.pdu.metadata:"
# the list harnesses split over fewer width pairs (every width occurs); the list-free harnesses cover all 16 pairs
W2 = Choice(1, 8)
W2B = Choice(2, 4)

# ------------------------------------------------------------------------------------------------------------------
# NAK
# ------------------------------------------------------------------------------------------------------------------


@obligation(["C06", "C11", "C04"], "NakPdu.pack/scalar",
            verifies=[NAK + "NakPdu.__init__", NAK + "NakPdu.pack", NAK + "NakPdu._calculate_directive_field_len"])
def nak_pack_scalar(direction: EnumOf(Direction), mode: EnumOf(TransmissionMode), crc: EnumOf(CrcFlag), large: EnumOf(LargeFileFlag),
                    segctrl: EnumOf(SegmentationControl), we: W, ws: W, src: Int, seq: Int, dst: Int, start: Int, end: Int):
    """no segment requests: every header configuration, scope over all integers"""
    requires(ids_in_range(we, ws, src, seq, dst))
    conf = mk_conf(we, ws, src, seq, dst, mode, crc, large, direction, segctrl)
    snap = snapshot(conf)
    pdu = NakPdu(conf, start, end)
    ensures("caller-config-untouched", same_state(conf, snap))
    o = outcome(pdu.pack)
    fits = both(fss_fits(large, start), fss_fits(large, end))
    ensures("not-fitting-refused", implies(not fits, o.raised(ValueError, struct.error)))
    ensures("fitting-accepted", implies(fits, o.ok))
    if o.ok:
        raw = o.value
        ensures("layout", raw == directive_pdu(TOWARDS_SENDER, mode, crc, large, segctrl, we, ws, src, seq, dst,
                                               nak_params(large, start, end, b"")))
        ensures("packet_len", pdu.packet_len == len(raw))
        ensures("data-field-len", pdu.pdu_header.pdu_data_field_len == len(raw) - (4 + 2 * we + ws))
        ensures("accessors", both(pdu.start_of_scope == start, pdu.end_of_scope == end, pdu.segment_requests == [],
                                  pdu.file_flag == large, pdu.crc_flag == crc, pdu.direction == Direction.TOWARDS_SENDER))
        ensures("pack-twice", pdu.pack() == raw)
    ensures("caller-config-untouched-by-pack", same_state(conf, snap))


@obligation(["C06", "C11", "C04"], "NakPdu.pack/list", bounded="list length <= 2",
            verifies=[NAK + "NakPdu.__init__", NAK + "NakPdu.pack", NAK + "NakPdu._calculate_directive_field_len",
                      NAK + "NakPdu.segment_requests"])
def nak_pack_list(mode: EnumOf(TransmissionMode), crc: EnumOf(CrcFlag), large: EnumOf(LargeFileFlag), we: W2, ws: W2B, src: Int,
                  seq: Int, dst: Int, start: Int, end: Int, starts: ListOf(Int, 2), ends: ListOf(Int, 2)):
    """segment requests over all integers: pack is the oracle or fails (never truncates an offset)"""
    requires(ids_in_range(we, ws, src, seq, dst))
    requires(len(starts) == len(ends))
    conf = mk_conf(we, ws, src, seq, dst, mode, crc, large, Direction.TOWARDS_SENDER, SegmentationControl.NO_RECORD_BOUNDARIES_PRESERVATION)
    reqs = list(zip(starts, ends))
    pdu = NakPdu(conf, start, end, reqs)
    o = outcome(pdu.pack)
    fits = both(fss_fits(large, start), fss_fits(large, end), all([both(fss_fits(large, a), fss_fits(large, b)) for (a, b) in reqs]))
    ensures("not-fitting-refused", implies(not fits, o.raised(ValueError, struct.error)))
    ensures("fitting-accepted", implies(fits, o.ok))
    if o.ok:
        raw = o.value
        segs = b""
        for (a, b) in reqs:
            segs = segs + segreq(large, a, b)
        ensures("layout", raw == directive_pdu(TOWARDS_SENDER, mode, crc, large, 0, we, ws, src, seq, dst,
                                               nak_params(large, start, end, segs)))
        ensures("packet_len", pdu.packet_len == len(raw))
        ensures("data-field-len", pdu.pdu_header.pdu_data_field_len == len(raw) - (4 + 2 * we + ws))
        ensures("accessors", both(pdu.start_of_scope == start, pdu.end_of_scope == end, pdu.segment_requests == reqs))
        ensures("pack-twice", pdu.pack() == raw)


def nak_rt_clauses(pdu, raw, suffix, conf, start, end, reqs):
    o = outcome(NakPdu.unpack, raw + suffix)
    ensures("decoded-or-refused", o.ok or o.raised(ValueError, InvalidCrc))
    ensures("exact-pdu-accepted", implies(len(suffix) == 0, o.ok))
    if o.ok:
        g = o.value
        ensures("rt-scope", both(g.start_of_scope == start, g.end_of_scope == end))
        ensures("rt-segment-requests", g.segment_requests == reqs)
        ensures("rt-header", both(g.pdu_header.pdu_conf == conf, g.direction == Direction.TOWARDS_SENDER, g.file_flag == conf.file_flag,
                                  g.crc_flag == conf.crc_flag, g.transmission_mode == conf.trans_mode,
                                  g.directive_type == 8))
        ensures("rt-lengths", both(g.packet_len == len(raw), g.pdu_header.pdu_data_field_len == pdu.pdu_header.pdu_data_field_len))
        ensures("rt-equal", both(g == pdu, pdu == g))
        ensures("rt-repack", g.pack() == raw)


@obligation(["C06", "C09", "C04"], "NakPdu/roundtrip-scalar", verifies=[NAK + "NakPdu.unpack", NAK + "NakPdu.__eq__"])
def nak_roundtrip_scalar(mode: EnumOf(TransmissionMode), crc: EnumOf(CrcFlag), large: EnumOf(LargeFileFlag),
                         segctrl: EnumOf(SegmentationControl), we: W, ws: W, src: Int, seq: Int, dst: Int, start: Int, end: Int,
                         suffix: Bytes):
    requires(ids_in_range(we, ws, src, seq, dst))
    requires(both(fss_fits(large, start), fss_fits(large, end)))
    conf = mk_conf(we, ws, src, seq, dst, mode, crc, large, Direction.TOWARDS_SENDER, segctrl)
    pdu = NakPdu(conf, start, end)
    raw = pdu.pack()
    nak_rt_clauses(pdu, raw, suffix, conf, start, end, [])


@obligation(["C06", "C09", "C04"], "NakPdu/roundtrip-list", bounded="list length <= 2",
            verifies=[NAK + "NakPdu.unpack", NAK + "NakPdu.__eq__"])
def nak_roundtrip_list(mode: EnumOf(TransmissionMode), crc: EnumOf(CrcFlag), large: EnumOf(LargeFileFlag), we: W2, ws: W2B, src: Int,
                       seq: Int, dst: Int, start: Int, end: Int, starts: ListOf(Int, 2), ends: ListOf(Int, 2), suffix: Bytes):
    requires(ids_in_range(we, ws, src, seq, dst))
    requires(len(starts) == len(ends))
    reqs = list(zip(starts, ends))
    requires(both(fss_fits(large, start), fss_fits(large, end), all([both(fss_fits(large, a), fss_fits(large, b)) for (a, b) in reqs])))
    conf = mk_conf(we, ws, src, seq, dst, mode, crc, large, Direction.TOWARDS_SENDER, SegmentationControl.NO_RECORD_BOUNDARIES_PRESERVATION)
    pdu = NakPdu(conf, start, end, reqs)
    raw = pdu.pack()
    nak_rt_clauses(pdu, raw, suffix, conf, start, end, reqs)


def hdr_len_of(data):
    """header length declared by octet 3 of a buffer (table 5-1)"""
    return 4 + 2 * (bits(data[3], 6, 4) + 1) + bits(data[3], 2, 0) + 1


def decoded_pdu_facts(g, data):
    """what C09 / C04 / C10 demand of ANY accepted buffer: the PDU ends where its header says, inside the buffer; with the CRC flag
    the declared PDU has residue 0"""
    n = hdr_len_of(data) + data[1] * 256 + data[2]
    ensures("declared-length", both(g.packet_len == n, n <= len(data)))
    ensures("crc-gate", implies(bits(data[0], 1, 1) == 1, crc16(data[0:n]) == 0))
    return n


@obligation(["C06", "C09", "C10", "C04"], "NakPdu.unpack/arbitrary", bounded="declared data-field length admits at most 2 segment requests",
            verifies=[NAK + "NakPdu.unpack"])
def nak_unpack_arbitrary(data: Bytes):
    if len(data) >= 3:
        requires(data[1] * 256 + data[2] <= 1 + 6 * (4 + 4 * bits(data[0], 0, 0)) + 2 * bits(data[0], 1, 1))
    o = outcome(NakPdu.unpack, data)
    ensures("raises-only", o.ok or o.raised(ValueError, InvalidCrc, UnsupportedCfdpVersion))
    if o.ok:
        g = o.value
        n = decoded_pdu_facts(g, data)
        hl = hdr_len_of(data)
        f = 4 + 4 * bits(data[0], 0, 0)
        ensures("directive-code", data[hl] == 8)
        ensures("scope", both(g.start_of_scope == from_be(data[hl + 1:hl + 1 + f]), g.end_of_scope == from_be(data[hl + 1 + f:hl + 1 + 2 * f])))
        ensures("segment-request-count", (1 + 2 * f + len(g.segment_requests) * 2 * f + 2 * bits(data[0], 1, 1)) == data[1] * 256 + data[2])
        ensures("no-surplus-folded-in", len(g.segment_requests) * 2 * f <= n - hl - 1 - 2 * f)


@obligation(["C11", "C06"], "NakPdu/setters", bounded="list length <= 2",
            verifies=[NAK + "NakPdu.segment_requests", NAK + "NakPdu.file_flag", NAK + "NakPdu._calculate_directive_field_len"])
def nak_setters(mode: EnumOf(TransmissionMode), crc: EnumOf(CrcFlag), large0: EnumOf(LargeFileFlag), large1: EnumOf(LargeFileFlag),
                src: Int, seq: Int, dst: Int, start: Int, end: Int, starts0: ListOf(Int, 2), ends0: ListOf(Int, 2),
                starts1: OptionalOf(ListOf(Int, 2)), ends1: ListOf(Int, 2), flag_first: Bool):
    """segment_requests and file_flag setters in either order == freshly built PDU with the final values
    (one width pair: the widths play no role in the setters; all pairs are covered by the pack harnesses)"""
    we = 4
    ws = 2
    requires(ids_in_range(we, ws, src, seq, dst))
    requires(len(starts0) == len(ends0))
    reqs0 = list(zip(starts0, ends0))
    if starts1 is None:
        requires(len(ends1) == 0)
        reqs1 = None
        final = []
    else:
        requires(len(starts1) == len(ends1))
        reqs1 = list(zip(starts1, ends1))
        final = reqs1
    conf = mk_conf(we, ws, src, seq, dst, mode, crc, large0, Direction.TOWARDS_SENDER, SegmentationControl.NO_RECORD_BOUNDARIES_PRESERVATION)
    snap = snapshot(conf)
    pdu = NakPdu(conf, start, end, reqs0)
    if flag_first:
        pdu.file_flag = large1
        pdu.segment_requests = reqs1
    else:
        pdu.segment_requests = reqs1
        pdu.file_flag = large1
    ensures("caller-config-untouched", same_state(conf, snap))
    conf1 = mk_conf(we, ws, src, seq, dst, mode, crc, large1, Direction.TOWARDS_SENDER, SegmentationControl.NO_RECORD_BOUNDARIES_PRESERVATION)
    fresh = NakPdu(conf1, start, end, final)
    ensures("accessors", both(pdu.segment_requests == final, pdu.file_flag == large1))
    ensures("lengths-as-fresh", both(pdu.packet_len == fresh.packet_len,
                                     pdu.pdu_header.pdu_data_field_len == fresh.pdu_header.pdu_data_field_len))
    ensures("length-formula", pdu.pdu_header.pdu_data_field_len == 1 + (2 + 2 * len(final)) * fss_len(large1) + crc_len(crc))
    ensures("equal-to-fresh", both(pdu == fresh, fresh == pdu))
    o = outcome(pdu.pack)
    of = outcome(fresh.pack)
    ensures("pack-as-fresh", iff(o.ok, of.ok))
    if o.ok and of.ok:
        ensures("octets-as-fresh", o.value == of.value)
        ensures("packet_len", pdu.packet_len == len(o.value))
        ensures("pack-twice", pdu.pack() == o.value)
        ensures("still-equal", pdu == fresh)


@obligation(["C06"], "get_max_seg_reqs_for_max_packet_size_and_pdu_cfg",
            verifies=[NAK + "get_max_seg_reqs_for_max_packet_size_and_pdu_cfg", NAK + "NakPdu.get_max_seg_reqs_for_max_packet_size"])
def nak_max_seg_reqs(mode: EnumOf(TransmissionMode), crc: EnumOf(CrcFlag), large: EnumOf(LargeFileFlag), we: W, ws: W, src: Int, seq: Int,
                     dst: Int, max_size: Int):
    """the largest n such that a NAK PDU with n segment requests is at most max_size octets long; ValueError iff not even n = 0 fits"""
    requires(ids_in_range(we, ws, src, seq, dst))
    conf = mk_conf(we, ws, src, seq, dst, mode, crc, large, Direction.TOWARDS_SENDER, SegmentationControl.NO_RECORD_BOUNDARIES_PRESERVATION)
    base = 4 + 2 * we + ws + 1 + 2 * fss_len(large) + crc_len(crc)
    o = outcome(get_max_seg_reqs_for_max_packet_size_and_pdu_cfg, max_size, conf)
    ensures("refused-iff-too-small", iff(max_size < base, o.raised(ValueError)))
    ensures("raises-only", o.ok or o.raised(ValueError))
    if o.ok:
        n = o.value
        ensures("n-fits", both(n >= 0, base + n * 2 * fss_len(large) <= max_size))
        ensures("n-maximal", base + (n + 1) * 2 * fss_len(large) > max_size)
        pdu = NakPdu(conf, 0, 0)
        ensures("member-forwards", pdu.get_max_seg_reqs_for_max_packet_size(max_size) == n)
        ensures("base-is-empty-pdu", pdu.packet_len == base)
