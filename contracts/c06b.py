"""C06 part B - the list-carrying CFDP file directives: Finished, Metadata, NAK
(spacepackets/cfdp/pdu/finished.py, metadata.py, nak.py).  Oracles: speclib/spec_cfdp_dir_b.py."""
import struct
from pyvc_spec import *
from spec_cfdp import pdu_header_octets, fss, fss_len, tlv, lv, with_crc_trailer
from spec_cfdp_dir_b import (directive_pdu, directive_body, finished_params, metadata_params, nak_params, segreq, fss_fits, crc_len,
                             entity_id_tlv, filestore_response, TOWARDS_RECEIVER, TOWARDS_SENDER)
from cfdp_common import mk_conf, ids_in_range, W
from spacepackets.exceptions import BytesTooShortError
from spacepackets.cfdp.defs import (Direction, TransmissionMode, CrcFlag, LargeFileFlag, SegmentationControl,
                                    UnsupportedCfdpVersion, ConditionCode, DeliveryCode, FileStatus, ChecksumType)
from spacepackets.cfdp.exceptions import InvalidCrc, TlvTypeMissmatch
from spacepackets.cfdp.conf import PduConfig
from spacepackets.cfdp.pdu.nak import NakPdu, get_max_seg_reqs_for_max_packet_size_and_pdu_cfg
from spacepackets.cfdp.pdu.finished import FinishedPdu, FinishedParams
from spacepackets.cfdp.pdu.metadata import MetadataPdu, MetadataParams
from spacepackets.cfdp.tlv import CfdpTlv, EntityIdTlv, FileStoreResponseTlv, FlowLabelTlv
from spacepackets.cfdp.tlv.defs import TlvType, FilestoreActionCode, FilestoreResponseStatusCode
from spacepackets.cfdp.lv import CfdpLv
from spec_util import pow256

NAK = "spacepackets.cfdp.pdu.nak:"
FIN = "spacepackets.cfdp.pdu.finished:"
MD = "spacepackets.cfdp.pdu.metadata:"
# the list harnesses split over fewer width pairs (every width occurs); the list-free harnesses cover all 16 pairs
W2 = Choice(1, 8)
W2B = Choice(2, 4)
SEGREQS = ListOf(TupleOf(Int, Int), 2)

LVM = "spacepackets.cfdp.lv:"


@summary(LVM + "CfdpLv.pack")
def lv_pack_summary(self):
    """fork-free rewriting of CfdpLv.pack for LVs in the state every constructor leaves them in (value_len == len(value)):
    length octet ++ value - an empty value contributes nothing, so the library's `if value_len > 0` needs no case split.
    Any other state takes the library's own steps.  Equivalence with the real method: obligation CfdpLv.pack/summary."""
    if self.value_len == len(self.value):
        return bytearray(lv(self.value))
    packet = bytearray()
    packet.append(self.value_len)
    if self.value_len > 0:
        packet.extend(self.value)
    return packet


@obligation(["C06"], "CfdpLv.pack/summary", verifies=[LVM + "CfdpLv.pack"])
def lv_pack_summary_is_exact(value: Bytes, tamper: Bool, vl: IntRange(0, 255)):
    """the summary used at the call sites of this file returns exactly what the real CfdpLv.pack returns, in every state"""
    o = outcome(CfdpLv, value)
    ensures("ctor", iff(o.ok, len(value) <= 255))
    if o.ok:
        x = o.value
        if tamper:
            x.value_len = vl
        real = x.pack()
        summ = lv_pack_summary(x)
        ensures("same-octets", real == summ)
        ensures("same-type", kind_of(real) == kind_of(summ))


@summary(LVM + "CfdpLv.unpack")
def lv_unpack_summary(cls, raw_bytes):
    """fork-free rewriting of CfdpLv.unpack for `bytes` input: the library returns cls(bytes()) for a zero length octet and
    cls(raw_bytes[1:1 + n]) otherwise; for a `bytes` buffer the empty slice IS bytes(), so no case split is needed.  Any other
    buffer type takes the library's own steps.  Equivalence with the real method: obligation CfdpLv.unpack/summary."""
    if len(raw_bytes) < 1:
        raise BytesTooShortError(1, 0)
    detected_len = raw_bytes[0]
    if 1 + detected_len > len(raw_bytes):
        raise ValueError("Detected length exceeds size of passed bytearray")
    if kind_of(raw_bytes) == "bytes":
        return cls(value=raw_bytes[1:1 + detected_len])
    if detected_len == 0:
        return cls(value=bytes())
    return cls(value=raw_bytes[1:1 + detected_len])


def lv_unpack_summary_check(raw):
    real = outcome(CfdpLv.unpack, raw)
    summ = outcome(lv_unpack_summary, CfdpLv, raw)
    ensures("same-outcome", both(iff(real.ok, summ.ok), exc_kind(real) == exc_kind(summ)))
    if real.ok and summ.ok:
        ensures("same-state", both(real.value.value == summ.value.value, real.value.value_len == summ.value.value_len,
                                   kind_of(real.value.value) == kind_of(summ.value.value), same_state(real.value, summ.value)))


@obligation(["C06"], "CfdpLv.unpack/summary", verifies=[LVM + "CfdpLv.unpack"])
def lv_unpack_summary_is_exact(raw: Bytes, raw_arr: BytesArr()):
    """the summary used at the call sites of this file behaves exactly as the real CfdpLv.unpack (same exception class or same
    object state including the type of the value), for bytes and for bytearray buffers"""
    lv_unpack_summary_check(raw)
    lv_unpack_summary_check(raw_arr)


def layout_clauses(raw, crc, body):
    """raw == body ++ T.  With the CRC flag the clause is split: first everything before the trailer (a lemma for the solver, which
    otherwise has to prove the equality of two sequences inside crc16(.)), then the whole PDU"""
    if crc:
        ensures("layout-body", raw[0:len(raw) - 2] == body)
    ensures("layout", raw == with_crc_trailer(crc, body))


# ------------------------------------------------------------------------------------------------------------------
# NAK
# ------------------------------------------------------------------------------------------------------------------


@obligation(["C06", "C11", "C04"], "NakPdu.pack/scalar",
            verifies=[NAK + "NakPdu.__init__", NAK + "NakPdu.pack", NAK + "NakPdu._calculate_directive_field_len"])
def nak_pack_scalar(direction: EnumOf(Direction), mode: EnumOf(TransmissionMode), crc: EnumOf(CrcFlag), large: EnumOf(LargeFileFlag),
                    segctrl: EnumOf(SegmentationControl), we: W, ws: W, src: Int, seq: Int, dst: Int, start: Int, end: Int):
    """no segment requests: every header configuration, scope over all integers"""
    requires(ids_in_range(we, ws, src, seq, dst))
    conf = mk_conf(we, ws, src, seq, dst, mode, crc, large, direction, segctrl)
    snap = snapshot(conf)
    pdu = NakPdu(conf, start, end)
    ensures("caller-config-untouched", same_state(conf, snap))
    o = outcome(pdu.pack)
    fits = both(fss_fits(large, start), fss_fits(large, end))
    ensures("not-fitting-refused", implies(not fits, o.raised(ValueError, struct.error)))
    ensures("fitting-accepted", implies(fits, o.ok))
    if o.ok:
        raw = o.value
        layout_clauses(raw, crc, directive_body(TOWARDS_SENDER, mode, crc, large, segctrl, we, ws, src, seq, dst,
                                               nak_params(large, start, end, b"")))
        ensures("packet_len", pdu.packet_len == len(raw))
        ensures("data-field-len", pdu.pdu_header.pdu_data_field_len == len(raw) - (4 + 2 * we + ws))
        ensures("accessors", both(pdu.start_of_scope == start, pdu.end_of_scope == end, pdu.segment_requests == [],
                                  pdu.file_flag == large, pdu.crc_flag == crc, pdu.direction == Direction.TOWARDS_SENDER))
        ensures("pack-twice", pdu.pack() == raw)
    ensures("caller-config-untouched-by-pack", same_state(conf, snap))


@obligation(["C06", "C11", "C04"], "NakPdu.pack/list", bounded="list length <= 2",
            verifies=[NAK + "NakPdu.__init__", NAK + "NakPdu.pack", NAK + "NakPdu._calculate_directive_field_len",
                      NAK + "NakPdu.segment_requests"])
def nak_pack_list(mode: EnumOf(TransmissionMode), crc: EnumOf(CrcFlag), large: EnumOf(LargeFileFlag), we: W2, ws: W2B, src: Int,
                  seq: Int, dst: Int, start: Int, end: Int, reqs: SEGREQS):
    """segment requests over all integers: pack is the oracle or fails (never truncates an offset)"""
    requires(ids_in_range(we, ws, src, seq, dst))
    conf = mk_conf(we, ws, src, seq, dst, mode, crc, large, Direction.TOWARDS_SENDER, SegmentationControl.NO_RECORD_BOUNDARIES_PRESERVATION)
    pdu = NakPdu(conf, start, end, reqs)
    o = outcome(pdu.pack)
    fits = both(fss_fits(large, start), fss_fits(large, end), all([both(fss_fits(large, a), fss_fits(large, b)) for (a, b) in reqs]))
    ensures("not-fitting-refused", implies(not fits, o.raised(ValueError, struct.error)))
    ensures("fitting-accepted", implies(fits, o.ok))
    if o.ok:
        raw = o.value
        segs = b""
        for (a, b) in reqs:
            segs = segs + segreq(large, a, b)
        layout_clauses(raw, crc, directive_body(TOWARDS_SENDER, mode, crc, large, 0, we, ws, src, seq, dst,
                                               nak_params(large, start, end, segs)))
        ensures("packet_len", pdu.packet_len == len(raw))
        ensures("data-field-len", pdu.pdu_header.pdu_data_field_len == len(raw) - (4 + 2 * we + ws))
        ensures("accessors", both(pdu.start_of_scope == start, pdu.end_of_scope == end, pdu.segment_requests == reqs))
        ensures("pack-twice", pdu.pack() == raw)


def nak_rt_clauses(pdu, raw, suffix, conf, start, end, reqs):
    o = outcome(NakPdu.unpack, raw + suffix)
    ensures("decoded-or-refused", o.ok or o.raised(ValueError, InvalidCrc))
    ensures("exact-pdu-accepted", implies(len(suffix) == 0, o.ok))
    if o.ok:
        g = o.value
        ensures("rt-scope", both(g.start_of_scope == start, g.end_of_scope == end))
        ensures("rt-segment-requests", g.segment_requests == reqs)
        ensures("rt-header", both(g.pdu_header.pdu_conf == conf, g.direction == Direction.TOWARDS_SENDER, g.file_flag == conf.file_flag,
                                  g.crc_flag == conf.crc_flag, g.transmission_mode == conf.trans_mode,
                                  g.directive_type == 8))
        ensures("rt-lengths", both(g.packet_len == len(raw), g.pdu_header.pdu_data_field_len == pdu.pdu_header.pdu_data_field_len))
        ensures("rt-equal", both(g == pdu, pdu == g))
        ensures("rt-repack", g.pack() == raw)


@obligation(["C06", "C09", "C04"], "NakPdu/roundtrip-scalar", verifies=[NAK + "NakPdu.unpack", NAK + "NakPdu.__eq__"])
def nak_roundtrip_scalar(mode: EnumOf(TransmissionMode), crc: EnumOf(CrcFlag), large: EnumOf(LargeFileFlag),
                         segctrl: EnumOf(SegmentationControl), we: W, ws: W, src: Int, seq: Int, dst: Int, start: Int, end: Int,
                         suffix: Bytes):
    requires(ids_in_range(we, ws, src, seq, dst))
    requires(both(fss_fits(large, start), fss_fits(large, end)))
    conf = mk_conf(we, ws, src, seq, dst, mode, crc, large, Direction.TOWARDS_SENDER, segctrl)
    pdu = NakPdu(conf, start, end)
    raw = pdu.pack()
    nak_rt_clauses(pdu, raw, suffix, conf, start, end, [])


@obligation(["C06", "C09", "C04"], "NakPdu/roundtrip-list", bounded="list length <= 2",
            verifies=[NAK + "NakPdu.unpack", NAK + "NakPdu.__eq__"])
def nak_roundtrip_list(mode: EnumOf(TransmissionMode), crc: EnumOf(CrcFlag), large: EnumOf(LargeFileFlag), we: W2, ws: W2B, src: Int,
                       seq: Int, dst: Int, start: Int, end: Int, reqs: SEGREQS, suffix: Bytes):
    requires(ids_in_range(we, ws, src, seq, dst))
    requires(both(fss_fits(large, start), fss_fits(large, end), all([both(fss_fits(large, a), fss_fits(large, b)) for (a, b) in reqs])))
    conf = mk_conf(we, ws, src, seq, dst, mode, crc, large, Direction.TOWARDS_SENDER, SegmentationControl.NO_RECORD_BOUNDARIES_PRESERVATION)
    pdu = NakPdu(conf, start, end, reqs)
    raw = pdu.pack()
    nak_rt_clauses(pdu, raw, suffix, conf, start, end, reqs)


def hdr_len_of(data):
    """header length declared by octet 3 of a buffer (table 5-1)"""
    return 4 + 2 * (bits(data[3], 6, 4) + 1) + bits(data[3], 2, 0) + 1


def decoded_pdu_facts(g, data):
    """what C09 / C04 / C10 demand of ANY accepted buffer: the PDU ends where its header says, inside the buffer; with the CRC flag
    the declared PDU has residue 0"""
    n = hdr_len_of(data) + data[1] * 256 + data[2]
    ensures("declared-length", both(g.packet_len == n, n <= len(data)))
    ensures("crc-gate", implies(bits(data[0], 1, 1) == 1, crc16(data[0:n]) == 0))
    return n


def id_width_code_in(data, c0, c1):
    """case split of the arbitrary-input harnesses over the entity-ID width code of octet 3 (the four harnesses of a PDU kind
    together cover all eight codes, i.e. every octet string)"""
    if len(data) >= 4:
        requires(either(bits(data[3], 6, 4) == c0, bits(data[3], 6, 4) == c1))


def nak_arbitrary_clauses(data):
    o = outcome(NakPdu.unpack, data)
    ensures("raises-only", o.ok or o.raised(ValueError, InvalidCrc, UnsupportedCfdpVersion))
    if o.ok:
        g = o.value
        n = decoded_pdu_facts(g, data)
        hl = hdr_len_of(data)
        f = 4 + 4 * bits(data[0], 0, 0)
        ensures("directive-code", data[hl] == 8)
        ensures("scope", both(g.start_of_scope == from_be(data[hl + 1:hl + 1 + f]), g.end_of_scope == from_be(data[hl + 1 + f:hl + 1 + 2 * f])))
        ensures("segment-request-count", (1 + 2 * f + len(g.segment_requests) * 2 * f + 2 * bits(data[0], 1, 1)) == data[1] * 256 + data[2])


def nak_unpack_arbitrary_short(data):
    """ANY octet string whose declared data-field length cannot hold the two scope fields: every header, every buffer length"""
    if len(data) >= 3:
        requires(data[1] * 256 + data[2] < 1 + 2 * (4 + 4 * bits(data[0], 0, 0)) + 2 * bits(data[0], 1, 1))
    nak_arbitrary_clauses(data)


# branch_timeout_ms: the feasibility double-check of two-sided branches by the full solver mostly runs into its time limit on these
# paths (sequence constraints of the refined buffer); a shorter limit only lets more (possibly infeasible) paths through
NAK_ARB = dict(bounded="declared data field too short for the scope fields", verifies=[NAK + "NakPdu.unpack"], max_paths=4000,
               branch_timeout_ms=120)


@obligation(["C06", "C09", "C10", "C04"], "NakPdu.unpack/arbitrary-short-idw1", **NAK_ARB)
def nak_unpack_arbitrary_1(data: Bytes):
    id_width_code_in(data, 0, 2)
    nak_unpack_arbitrary_short(data)


@obligation(["C06", "C09", "C10", "C04"], "NakPdu.unpack/arbitrary-short-idw2", **NAK_ARB)
def nak_unpack_arbitrary_2(data: Bytes):
    id_width_code_in(data, 1, 4)
    nak_unpack_arbitrary_short(data)


@obligation(["C06", "C09", "C10", "C04"], "NakPdu.unpack/arbitrary-short-idw4", **NAK_ARB)
def nak_unpack_arbitrary_4(data: Bytes):
    id_width_code_in(data, 3, 5)
    nak_unpack_arbitrary_short(data)


@obligation(["C06", "C09", "C10", "C04"], "NakPdu.unpack/arbitrary-short-idw8", **NAK_ARB)
def nak_unpack_arbitrary_8(data: Bytes):
    id_width_code_in(data, 7, 6)
    nak_unpack_arbitrary_short(data)


@obligation(["C06", "C09", "C10", "C04"], "NakPdu.unpack/arbitrary-segreqs",
            bounded="valid fixed header; declared data field <= scope + 2 segment requests + 15 octets", verifies=[NAK + "NakPdu.unpack"])
def nak_unpack_arbitrary_segreqs(direction: EnumOf(Direction), mode: EnumOf(TransmissionMode), crc: EnumOf(CrcFlag),
                                 large: EnumOf(LargeFileFlag), we: W2, ws: W2B, src: Int, seq: Int, dst: Int, extra: IntRange(0, 47),
                                 rest: Bytes):
    """a well-formed fixed header (any flags; arbitrary headers: C05 and arbitrary-short) that declares 0..47 octets behind the scope
    fields (up to 5 / 2 segment requests and every remainder), followed by ANY octets"""
    requires(ids_in_range(we, ws, src, seq, dst))
    requires(extra <= 4 * fss_len(large) + 15)
    data = pdu_header_octets(0, direction, mode, crc, large, 1 + 2 * fss_len(large) + extra + crc_len(crc), 0, 0, we, ws, src, seq, dst) + rest
    nak_arbitrary_clauses(data)


@obligation(["C11", "C06"], "NakPdu/setters", bounded="list length <= 2",
            verifies=[NAK + "NakPdu.segment_requests", NAK + "NakPdu.file_flag", NAK + "NakPdu._calculate_directive_field_len"])
def nak_setters(mode: EnumOf(TransmissionMode), crc: EnumOf(CrcFlag), large0: EnumOf(LargeFileFlag), large1: EnumOf(LargeFileFlag),
                src: Int, seq: Int, dst: Int, start: Int, end: Int, reqs0: SEGREQS, reqs1: OptionalOf(SEGREQS), flag_first: Bool):
    """segment_requests and file_flag setters in either order == freshly built PDU with the final values
    (one width pair: the widths play no role in the setters; all pairs are covered by the pack harnesses)"""
    we = 4
    ws = 2
    requires(ids_in_range(we, ws, src, seq, dst))
    final = reqs1
    if reqs1 is None:
        final = []
    # the final values fit the final width (values that do not fit make pack fail: NakPdu.pack/scalar, NakPdu.pack/list)
    requires(both(fss_fits(large1, start), fss_fits(large1, end), all([both(fss_fits(large1, a), fss_fits(large1, b)) for (a, b) in final])))
    conf = mk_conf(we, ws, src, seq, dst, mode, crc, large0, Direction.TOWARDS_SENDER, SegmentationControl.NO_RECORD_BOUNDARIES_PRESERVATION)
    snap = snapshot(conf)
    pdu = NakPdu(conf, start, end, reqs0)
    if flag_first:
        pdu.file_flag = large1
        pdu.segment_requests = reqs1
    else:
        pdu.segment_requests = reqs1
        pdu.file_flag = large1
    ensures("caller-config-untouched", same_state(conf, snap))
    conf1 = mk_conf(we, ws, src, seq, dst, mode, crc, large1, Direction.TOWARDS_SENDER, SegmentationControl.NO_RECORD_BOUNDARIES_PRESERVATION)
    fresh = NakPdu(conf1, start, end, final)
    ensures("accessors", both(pdu.segment_requests == final, pdu.file_flag == large1))
    ensures("lengths-as-fresh", both(pdu.packet_len == fresh.packet_len,
                                     pdu.pdu_header.pdu_data_field_len == fresh.pdu_header.pdu_data_field_len))
    ensures("length-formula", pdu.pdu_header.pdu_data_field_len == 1 + (2 + 2 * len(final)) * fss_len(large1) + crc_len(crc))
    ensures("equal-to-fresh", both(pdu == fresh, fresh == pdu))
    raw = pdu.pack()
    ensures("octets-as-fresh", raw == fresh.pack())
    ensures("packet_len", pdu.packet_len == len(raw))
    ensures("pack-twice", pdu.pack() == raw)
    ensures("still-equal", pdu == fresh)


@obligation(["C06"], "get_max_seg_reqs_for_max_packet_size_and_pdu_cfg",
            verifies=[NAK + "get_max_seg_reqs_for_max_packet_size_and_pdu_cfg", NAK + "NakPdu.get_max_seg_reqs_for_max_packet_size"])
def nak_max_seg_reqs(mode: EnumOf(TransmissionMode), crc: EnumOf(CrcFlag), large: EnumOf(LargeFileFlag), we: W, ws: W, src: Int, seq: Int,
                     dst: Int, max_size: Int):
    """the largest n such that a NAK PDU with n segment requests is at most max_size octets long; ValueError iff not even n = 0 fits"""
    requires(ids_in_range(we, ws, src, seq, dst))
    conf = mk_conf(we, ws, src, seq, dst, mode, crc, large, Direction.TOWARDS_SENDER, SegmentationControl.NO_RECORD_BOUNDARIES_PRESERVATION)
    base = 4 + 2 * we + ws + 1 + 2 * fss_len(large) + crc_len(crc)
    o = outcome(get_max_seg_reqs_for_max_packet_size_and_pdu_cfg, max_size, conf)
    ensures("refused-iff-too-small", iff(max_size < base, o.raised(ValueError)))
    ensures("raises-only", o.ok or o.raised(ValueError))
    if o.ok:
        n = o.value
        ensures("n-fits", both(n >= 0, base + n * 2 * fss_len(large) <= max_size))
        ensures("n-maximal", base + (n + 1) * 2 * fss_len(large) > max_size)
        pdu = NakPdu(conf, 0, 0)
        ensures("member-forwards", pdu.get_max_seg_reqs_for_max_packet_size(max_size) == n)
        ensures("base-is-empty-pdu", pdu.packet_len == base)


# ------------------------------------------------------------------------------------------------------------------
# Finished
# ------------------------------------------------------------------------------------------------------------------
FW = OptionalOf(W)   # width of the fault-location entity ID (None: no fault location)
FW1 = OptionalOf(Choice(2))


def may_carry_fault_location(cc):
    """727.0-B-5 table 5-7: the fault location is omitted for 'No error' and 'Unsupported checksum type'"""
    return both(cc != ConditionCode.NO_ERROR, cc != ConditionCode.UNSUPPORTED_CHECKSUM_TYPE)


def mk_fault_location(fw, fv):
    if fw is None:
        return None
    requires(both(0 <= fv, fv < pow256(fw)))
    return EntityIdTlv(be(fw, fv))


def fault_location_octets(fw, fv):
    if fw is None:
        return b""
    return entity_id_tlv(fw, fv)


@obligation(["C06", "C11", "C04"], "FinishedPdu.pack/scalar",
            verifies=[FIN + "FinishedPdu.__init__", FIN + "FinishedPdu.pack", FIN + "FinishedPdu._calculate_directive_field_len"])
def finished_pack_scalar(direction: EnumOf(Direction), mode: EnumOf(TransmissionMode), crc: EnumOf(CrcFlag), large: EnumOf(LargeFileFlag),
                         segctrl: EnumOf(SegmentationControl), we: W, ws: W, src: Int, seq: Int, dst: Int,
                         cc: EnumOf(ConditionCode), dc: EnumOf(DeliveryCode), fs: EnumOf(FileStatus), fw: FW, fv: Int):
    """no filestore responses: every header configuration, every condition / delivery / status code, fault location of every width"""
    requires(ids_in_range(we, ws, src, seq, dst))
    requires(cc >= 0)
    requires(implies(fw is not None, may_carry_fault_location(cc)))
    conf = mk_conf(we, ws, src, seq, dst, mode, crc, large, direction, segctrl)
    params = FinishedParams(cc, dc, fs, [], mk_fault_location(fw, fv))
    snap = snapshot(conf)
    psnap = snapshot(params)
    pdu = FinishedPdu(conf, params)
    raw = pdu.pack()
    layout_clauses(raw, crc, directive_body(TOWARDS_SENDER, mode, crc, large, segctrl, we, ws, src, seq, dst,
                                           finished_params(cc, dc, fs, b"", fault_location_octets(fw, fv))))
    ensures("packet_len", pdu.packet_len == len(raw))
    ensures("data-field-len", pdu.pdu_header.pdu_data_field_len == len(raw) - (4 + 2 * we + ws))
    ensures("accessors", both(pdu.condition_code == cc, pdu.delivery_code == dc, pdu.file_status == fs, pdu.file_store_responses == [],
                              is_same(pdu.fault_location, params.fault_location), pdu.crc_flag == crc, pdu.file_flag == large,
                              pdu.direction == Direction.TOWARDS_SENDER, pdu.directive_type == 5))
    ensures("pack-twice", pdu.pack() == raw)
    ensures("caller-config-untouched", same_state(conf, snap))
    ensures("caller-params-untouched", same_state(params, psnap))


def two_names(action):
    """727.0-B-5 table 5-16: rename, append and replace carry a second file name"""
    return either(action == FilestoreActionCode.RENAME_FILE_SNP, action == FilestoreActionCode.APPEND_FILE_SNP,
                  action == FilestoreActionCode.REPLACE_FILE_SNP)


def mk_responses(items):
    """filestore responses from primitives (action code, 4-bit status, first name, second name, filestore message).  Valid items:
    a status code of the enumeration, ASCII file names (FileStore*.packet_len counts characters - a TLV-module defect owned
    elsewhere - so non-ASCII names are kept out), TLV value of at most 255 octets"""
    out = []
    for (action, stc, n1, n2, msg) in items:
        st = outcome(FilestoreResponseStatusCode, action * 16 + stc)
        requires(st.ok)
        requires(both(len(n1) == len(n1.encode("utf-8")), len(n2) == len(n2.encode("utf-8"))))
        requires(4 + len(n1.encode("utf-8")) + len(n2.encode("utf-8")) + len(msg) <= 255)
        out.append(FileStoreResponseTlv(action, st.value, n1, n2, CfdpLv(msg)))
    return out


def responses_octets(items):
    r = b""
    for (action, stc, n1, n2, msg) in items:
        r = r + filestore_response(action, stc, n1.encode("utf-8"), two_names(action), n2.encode("utf-8"), msg)
    return r


# names / message of at most 80 octets: z3 does not build models with long sequences in reasonable time (4 + 3 * 80 <= 255, so
# every such item is a valid TLV)
FS_RESPONSES = ListOf(TupleOf(EnumOf(FilestoreActionCode), IntRange(0, 15), StrLen(80), StrLen(80), BytesLen(0, 80)), 2)
FS_BOUND = "list length <= 2, file names and filestore message <= 80 octets each"


@obligation(["C06", "C11", "C04"], "FinishedPdu.pack/list", bounded=FS_BOUND,
            verifies=[FIN + "FinishedPdu.__init__", FIN + "FinishedPdu.pack", FIN + "FinishedPdu._calculate_directive_field_len",
                      FIN + "FinishedPdu.file_store_responses_len"])
def finished_pack_list(mode: EnumOf(TransmissionMode), crc: EnumOf(CrcFlag), large: EnumOf(LargeFileFlag), src: Int,
                       seq: Int, dst: Int, cc: EnumOf(ConditionCode), dc: EnumOf(DeliveryCode), fs: EnumOf(FileStatus), fw: FW1, fv: Int,
                       items: FS_RESPONSES):
    """filestore responses (and a fault location behind them); one width pair and one fault-location width here, all of them in
    FinishedPdu.pack/scalar"""
    we = 2
    ws = 4
    requires(ids_in_range(we, ws, src, seq, dst))
    requires(cc >= 0)
    requires(implies(fw is not None, may_carry_fault_location(cc)))
    conf = mk_conf(we, ws, src, seq, dst, mode, crc, large, Direction.TOWARDS_RECEIVER, SegmentationControl.NO_RECORD_BOUNDARIES_PRESERVATION)
    responses = mk_responses(items)
    params = FinishedParams(cc, dc, fs, responses, mk_fault_location(fw, fv))
    psnap = snapshot(params)
    pdu = FinishedPdu(conf, params)
    raw = pdu.pack()
    ensures("packet_len", pdu.packet_len == len(raw))
    ensures("data-field-len", pdu.pdu_header.pdu_data_field_len == len(raw) - (4 + 2 * we + ws))
    layout_clauses(raw, crc, directive_body(TOWARDS_SENDER, mode, crc, large, 0, we, ws, src, seq, dst,
                                           finished_params(cc, dc, fs, responses_octets(items),
                                                           fault_location_octets(fw, fv))))
    ensures("accessors", both(is_same(pdu.file_store_responses, responses), is_same(pdu.fault_location, params.fault_location)))
    ensures("pack-twice", pdu.pack() == raw)
    ensures("caller-params-untouched", same_state(params, psnap, ignore=("tlv",)))


def fin_rt_clauses(pdu, raw, suffix, conf, cc, dc, fs, fw, fv, items):
    o = outcome(FinishedPdu.unpack, raw + suffix)
    ensures("decoded-or-refused", o.ok or o.raised(ValueError, InvalidCrc))
    ensures("exact-pdu-accepted", implies(len(suffix) == 0, o.ok))
    if o.ok:
        g = o.value
        ensures("rt-codes", both(g.condition_code == cc, g.delivery_code == dc, g.file_status == fs))
        if fw is None:
            ensures("rt-fault-location", g.fault_location is None)
        else:
            ensures("rt-fault-location", both(g.fault_location is not None, g.fault_location.value == be(fw, fv),
                                              g.fault_location == pdu.fault_location, g.fault_location.packet_len == 2 + fw))
        ensures("rt-response-count", len(g.file_store_responses) == len(items))
        if len(g.file_store_responses) == len(items):
            for (r, (action, stc, n1, n2, msg)) in zip(g.file_store_responses, items):
                ensures("rt-response", both(r.action_code == action, r.status_code == action * 16 + stc, r.first_file_name == n1,
                                            implies(two_names(action), r.second_file_name == n2), r.filestore_msg.value == msg,
                                            r.pack() == filestore_response(action, stc, n1.encode("utf-8"), two_names(action),
                                                                           n2.encode("utf-8"), msg)))
        ensures("rt-header", both(g.pdu_header.pdu_conf == conf, g.direction == Direction.TOWARDS_SENDER, g.file_flag == conf.file_flag,
                                  g.crc_flag == conf.crc_flag, g.transmission_mode == conf.trans_mode, g.directive_type == 5))
        ensures("rt-lengths", both(g.packet_len == len(raw), g.pdu_header.pdu_data_field_len == pdu.pdu_header.pdu_data_field_len))
        ensures("rt-equal", both(g == pdu, pdu == g))
        ensures("rt-repack", g.pack() == raw)


@obligation(["C06", "C09", "C04"], "FinishedPdu/roundtrip-scalar", max_paths=4000, branch_timeout_ms=120, verifies=[FIN + "FinishedPdu.unpack", FIN + "FinishedPdu._unpack_tlvs",
                                                                             FIN + "FinishedPdu.__eq__"])
def finished_roundtrip_scalar(mode: EnumOf(TransmissionMode), crc: EnumOf(CrcFlag), large: EnumOf(LargeFileFlag),
                              segctrl: EnumOf(SegmentationControl), we: W, ws: W, src: Int, seq: Int, dst: Int,
                              cc: EnumOf(ConditionCode), dc: EnumOf(DeliveryCode), fs: EnumOf(FileStatus), fw: OptionalOf(Choice(4)),
                              fv: Int, suffix: Bytes):
    """every header configuration; without / with a fault location (its other widths: FinishedPdu/roundtrip-fault-widths)"""
    requires(ids_in_range(we, ws, src, seq, dst))
    requires(cc >= 0)
    requires(implies(fw is not None, may_carry_fault_location(cc)))
    conf = mk_conf(we, ws, src, seq, dst, mode, crc, large, Direction.TOWARDS_SENDER, segctrl)
    pdu = FinishedPdu(conf, FinishedParams(cc, dc, fs, [], mk_fault_location(fw, fv)))
    raw = pdu.pack()
    fin_rt_clauses(pdu, raw, suffix, conf, cc, dc, fs, fw, fv, [])


@obligation(["C06", "C09", "C04"], "FinishedPdu/roundtrip-fault-widths", verifies=[FIN + "FinishedPdu.unpack", FIN + "FinishedPdu._unpack_tlvs",
                                                                                   FIN + "FinishedPdu.__eq__"])
def finished_roundtrip_fault_widths(mode: EnumOf(TransmissionMode), crc: EnumOf(CrcFlag), large: EnumOf(LargeFileFlag), src: Int, seq: Int,
                                    dst: Int, cc: EnumOf(ConditionCode), dc: EnumOf(DeliveryCode), fs: EnumOf(FileStatus), fw: W, fv: Int,
                                    suffix: Bytes):
    """fault location entity IDs of every width (one header width pair)"""
    we = 1
    ws = 8
    requires(ids_in_range(we, ws, src, seq, dst))
    requires(cc >= 0)
    requires(may_carry_fault_location(cc))
    conf = mk_conf(we, ws, src, seq, dst, mode, crc, large, Direction.TOWARDS_SENDER, SegmentationControl.NO_RECORD_BOUNDARIES_PRESERVATION)
    pdu = FinishedPdu(conf, FinishedParams(cc, dc, fs, [], mk_fault_location(fw, fv)))
    raw = pdu.pack()
    fin_rt_clauses(pdu, raw, suffix, conf, cc, dc, fs, fw, fv, [])


FS_ITEM = TupleOf(EnumOf(FilestoreActionCode), IntRange(0, 15), StrLen(80), StrLen(80), BytesLen(0, 80))
# (condition code, fault-location width): the three shapes of the end of the TLV area behind the filestore responses
FIN_TAIL = Choice((ConditionCode.NO_ERROR, None), (ConditionCode.FILESTORE_REJECTION, None), (ConditionCode.FILESTORE_REJECTION, 2))


def fin_rt_list(mode, crc, large, src, seq, dst, tail, fv, items, suffix):
    """round trip with filestore responses: one width pair, fixed delivery code / file status and two condition codes (all of
    these are quantified in the list-free round-trip harnesses), a bytes buffer (the list-free harnesses decode bytearrays)"""
    we = 2
    ws = 4
    (cc, fw) = tail
    dc = DeliveryCode.DATA_INCOMPLETE
    fs = FileStatus.DISCARDED_FILESTORE_REJECTION
    requires(ids_in_range(we, ws, src, seq, dst))
    conf = mk_conf(we, ws, src, seq, dst, mode, crc, large, Direction.TOWARDS_SENDER, SegmentationControl.NO_RECORD_BOUNDARIES_PRESERVATION)
    pdu = FinishedPdu(conf, FinishedParams(cc, dc, fs, mk_responses(items), mk_fault_location(fw, fv)))
    raw = bytes(pdu.pack())
    fin_rt_clauses(pdu, raw, suffix, conf, cc, dc, fs, fw, fv, items)


@obligation(["C06", "C09", "C04"], "FinishedPdu/roundtrip-list1", max_paths=4000, branch_timeout_ms=120, bounded="list length <= 1, file names and filestore message <= 80 octets each",
            verifies=[FIN + "FinishedPdu.unpack", FIN + "FinishedPdu._unpack_tlvs", FIN + "FinishedPdu.__eq__"])
def finished_roundtrip_list1(mode: EnumOf(TransmissionMode), crc: EnumOf(CrcFlag), large: EnumOf(LargeFileFlag), src: Int, seq: Int, dst: Int,
                             tail: FIN_TAIL, fv: Int, items: ListOf(FS_ITEM, 1), suffix: Bytes):
    """at most one filestore response, of any shape (every action and status code, empty or non-empty names and message), followed by
    nothing / a fault location / the CRC / surplus octets"""
    fin_rt_list(mode, crc, large, src, seq, dst, tail, fv, items, suffix)


@obligation(["C06", "C09", "C04"], "FinishedPdu/roundtrip-list2", max_paths=4000, branch_timeout_ms=120,
            bounded="list length == 2, file names and filestore message <= 80 octets each, second item: one non-empty name, non-empty message; fault location present",
            verifies=[FIN + "FinishedPdu.unpack", FIN + "FinishedPdu._unpack_tlvs", FIN + "FinishedPdu.__eq__"])
def finished_roundtrip_list2(mode: EnumOf(TransmissionMode), crc: EnumOf(CrcFlag), large: EnumOf(LargeFileFlag), src: Int, seq: Int, dst: Int,
                             tail: Choice((ConditionCode.FILESTORE_REJECTION, 2)), fv: Int, item0: FS_ITEM, item1: FS_ITEM, suffix: Bytes):
    """two filestore responses and a fault location: the first response of any shape, directly followed by a second one (single-name
    action, non-empty name and message: the shapes of an item are all covered as item 0 and in roundtrip-list1, which also has
    the other shapes of the end of the TLV area)"""
    (action1, stc1, n1, n2, msg1) = item1
    requires(both(not two_names(action1), len(n1) > 0, len(msg1) > 0))
    fin_rt_list(mode, crc, large, src, seq, dst, tail, fv, [item0, item1], suffix)


def no_filestore_response_tlv(data, start, end):
    """restriction of the arbitrary-input harness of FinishedPdu.unpack: none of the TLVs the decoder walks over is a filestore
    response (type 1).  FileStoreResponseTlv.unpack (cfdp/tlv/tlv.py, under another contract file and owner) indexes past short
    input (IndexError) - with such TLVs the raises-only clause below fails for a reason outside finished.py.  The walk: a TLV
    starts at `start`; an entity-ID TLV (type 6) is followed by the next TLV, every other type ends the walk (refusal)."""
    i = start
    k = 0
    while k < 7 and i < end:
        requires(data[i] != 1)
        if data[i] != 6 or i + 1 >= end:
            break
        i = i + 2 + data[i + 1]
        k = k + 1


def finished_arbitrary_clauses(data):
    o = outcome(FinishedPdu.unpack, data)
    ensures("raises-only", o.ok or o.raised(ValueError, InvalidCrc, UnsupportedCfdpVersion))
    if o.ok:
        g = o.value
        n = decoded_pdu_facts(g, data)
        hl = hdr_len_of(data)
        ensures("params-inside-pdu", hl + 2 + 2 * bits(data[0], 1, 1) <= n)
        ensures("codes", both(g.condition_code == bits(data[hl + 1], 7, 4), g.delivery_code == bits(data[hl + 1], 2, 2),
                              g.file_status == bits(data[hl + 1], 1, 0)))
        o2 = outcome(FinishedPdu.unpack, data[0:n])
        ensures("prefix-only", both(o2.ok, same_state(g, o2.value)))


def finished_unpack_arbitrary_short(data):
    """ANY octet string whose declared data-field length has no room for the parameter octet: every header, every buffer length"""
    if len(data) >= 3:
        requires(data[1] * 256 + data[2] < 2 + 2 * bits(data[0], 1, 1))
    finished_arbitrary_clauses(data)


FIN_ARB = dict(bounded="declared data field too short for the parameter octet", verifies=[FIN + "FinishedPdu.unpack"], max_paths=4000, branch_timeout_ms=120)


@obligation(["C06", "C09", "C10", "C04"], "FinishedPdu.unpack/arbitrary-short-idw1", **FIN_ARB)
def finished_unpack_arbitrary_1(data: Bytes):
    id_width_code_in(data, 0, 2)
    finished_unpack_arbitrary_short(data)


@obligation(["C06", "C09", "C10", "C04"], "FinishedPdu.unpack/arbitrary-short-idw2", **FIN_ARB)
def finished_unpack_arbitrary_2(data: Bytes):
    id_width_code_in(data, 1, 4)
    finished_unpack_arbitrary_short(data)


@obligation(["C06", "C09", "C10", "C04"], "FinishedPdu.unpack/arbitrary-short-idw4", **FIN_ARB)
def finished_unpack_arbitrary_4(data: Bytes):
    id_width_code_in(data, 3, 5)
    finished_unpack_arbitrary_short(data)


@obligation(["C06", "C09", "C10", "C04"], "FinishedPdu.unpack/arbitrary-short-idw8", **FIN_ARB)
def finished_unpack_arbitrary_8(data: Bytes):
    id_width_code_in(data, 7, 6)
    finished_unpack_arbitrary_short(data)


@obligation(["C06", "C09", "C10", "C04"], "FinishedPdu.unpack/arbitrary-tlvs",
            bounded="valid fixed header with 2-octet entity IDs and 1-octet sequence number; declared TLV area <= 6 octets",
            verifies=[FIN + "FinishedPdu.unpack", FIN + "FinishedPdu._unpack_tlvs"], max_paths=4000, branch_timeout_ms=120)
def finished_unpack_arbitrary_tlvs(direction: EnumOf(Direction), mode: EnumOf(TransmissionMode), crc: EnumOf(CrcFlag),
                                   large: EnumOf(LargeFileFlag), src: Int, seq: Int, dst: Int, area: IntRange(0, 6), rest: Bytes):
    """a well-formed fixed header (any flags; arbitrary headers are the subject of C05 and of arbitrary-short-*) that declares a TLV
    area of 0..6 octets, followed by ANY octets.  A PDU with several entity-ID TLVs is accepted by the library (the last one is kept,
    the reported length then differs from the declared one) - the statement does not speak about such input, so only raises-only,
    the CRC gate and the independence of the octets behind the declared PDU are demanded"""
    we = 2
    ws = 1
    requires(ids_in_range(we, ws, src, seq, dst))
    hl = 4 + 2 * we + ws
    n = hl + 2 + area + crc_len(crc)
    data = pdu_header_octets(0, direction, mode, crc, large, 2 + area + crc_len(crc), 0, 0, we, ws, src, seq, dst) + rest
    o = outcome(FinishedPdu.unpack, data)
    ensures("raises-only", o.ok or o.raised(ValueError, InvalidCrc, UnsupportedCfdpVersion))
    if o.ok:
        g = o.value
        ensures("inside-buffer", n <= len(data))
        ensures("crc-gate", implies(crc == 1, crc16(data[0:n]) == 0))
        ensures("codes", both(g.condition_code == bits(data[hl + 1], 7, 4), g.delivery_code == bits(data[hl + 1], 2, 2),
                              g.file_status == bits(data[hl + 1], 1, 0)))
        o2 = outcome(FinishedPdu.unpack, data[0:n])
        ensures("prefix-only", both(o2.ok, same_state(g, o2.value)))


def fin_setter_clauses(pdu, fresh, conf, snap):
    ensures("caller-config-untouched", same_state(conf, snap))
    ensures("lengths-as-fresh", both(pdu.packet_len == fresh.packet_len,
                                     pdu.pdu_header.pdu_data_field_len == fresh.pdu_header.pdu_data_field_len))
    ensures("equal-to-fresh", both(pdu == fresh, fresh == pdu))
    raw = pdu.pack()
    ensures("octets-as-fresh", raw == fresh.pack())
    ensures("packet_len", pdu.packet_len == len(raw))
    ensures("data-field-len", pdu.pdu_header.pdu_data_field_len == len(raw) - pdu.pdu_header.header_len)
    ensures("pack-twice", pdu.pack() == raw)
    ensures("still-equal", pdu == fresh)


FIN_START = Choice((ConditionCode.NO_ERROR, None), (ConditionCode.NO_ERROR, 2), (ConditionCode.FILESTORE_REJECTION, None),
                   (ConditionCode.FILESTORE_REJECTION, 2))


@obligation(["C11", "C06"], "FinishedPdu/setters", bounded="list length <= 1, file names and filestore message <= 80 octets each",
            verifies=[FIN + "FinishedPdu.file_store_responses", FIN + "FinishedPdu.fault_location",
                      FIN + "FinishedPdu._calculate_directive_field_len", FIN + "FinishedPdu.file_store_responses_len",
                      FIN + "FinishedPdu.fault_location_len"])
def finished_setters(mode: EnumOf(TransmissionMode), crc: EnumOf(CrcFlag), large: EnumOf(LargeFileFlag), src: Int, seq: Int, dst: Int,
                     start: FIN_START, dc: EnumOf(DeliveryCode), fs: EnumOf(FileStatus), fv0: Int, items0: ListOf(FS_ITEM, 1),
                     fw1: OptionalOf(Choice(4)), fv1: Int, items1: OptionalOf(ListOf(FS_ITEM, 1))):
    """fault_location and file_store_responses setters (any condition code: the length must also be right when the fault location is
    not transmitted) == freshly built PDU with the final values; reported length == packed length"""
    we = 1
    ws = 2
    (cc, fw0) = start
    requires(ids_in_range(we, ws, src, seq, dst))
    conf = mk_conf(we, ws, src, seq, dst, mode, crc, large, Direction.TOWARDS_SENDER, SegmentationControl.NO_RECORD_BOUNDARIES_PRESERVATION)
    snap = snapshot(conf)
    pdu = FinishedPdu(conf, FinishedParams(cc, dc, fs, mk_responses(items0), mk_fault_location(fw0, fv0)))
    fault1 = mk_fault_location(fw1, fv1)
    pdu.fault_location = fault1
    final = []
    if items1 is None:
        pdu.file_store_responses = None
    else:
        final = mk_responses(items1)
        pdu.file_store_responses = final
    ensures("accessors", both(is_same(pdu.fault_location, fault1), pdu.file_store_responses == final))
    fresh = FinishedPdu(conf, FinishedParams(cc, dc, fs, final, fault1))
    fin_setter_clauses(pdu, fresh, conf, snap)


@obligation(["C11", "C06"], "FinishedPdu/setters-list2", bounded="list length == 2, file names and filestore message <= 80 octets each",
            verifies=[FIN + "FinishedPdu.file_store_responses", FIN + "FinishedPdu.fault_location",
                      FIN + "FinishedPdu._calculate_directive_field_len", FIN + "FinishedPdu.file_store_responses_len"])
def finished_setters_list2(mode: EnumOf(TransmissionMode), crc: EnumOf(CrcFlag), large: EnumOf(LargeFileFlag), src: Int, seq: Int, dst: Int,
                           dc: EnumOf(DeliveryCode), fs: EnumOf(FileStatus), fv: Int, item0: FS_ITEM, item1: FS_ITEM, fault_first: Bool):
    """two responses set on a PDU that had a fault location only; the two setters in either order"""
    we = 1
    ws = 2
    cc = ConditionCode.FILESTORE_REJECTION
    requires(ids_in_range(we, ws, src, seq, dst))
    conf = mk_conf(we, ws, src, seq, dst, mode, crc, large, Direction.TOWARDS_SENDER, SegmentationControl.NO_RECORD_BOUNDARIES_PRESERVATION)
    snap = snapshot(conf)
    pdu = FinishedPdu(conf, FinishedParams(cc, dc, fs, [], mk_fault_location(2, fv)))
    final = mk_responses([item0, item1])
    if fault_first:
        pdu.fault_location = None
        pdu.file_store_responses = final
    else:
        pdu.file_store_responses = final
        pdu.fault_location = None
    fresh = FinishedPdu(conf, FinishedParams(cc, dc, fs, final, None))
    fin_setter_clauses(pdu, fresh, conf, snap)


# ------------------------------------------------------------------------------------------------------------------
# Metadata
# ------------------------------------------------------------------------------------------------------------------
# file names of at most 80 octets in the list-free harnesses (z3 does not build models with long sequences in reasonable time)
NAME = StrLen(80)


def name_octets(name):
    """an absent file name is the empty LV"""
    if name is None:
        return b""
    return name.encode("utf-8")


def name_accessor_ok(got, name):
    """the accessor reports None for the empty name (absent and empty are the same wire value)"""
    if name is None:
        return got is None
    if len(name.encode("utf-8")) == 0:
        return got is None
    return got == name


@obligation(["C06", "C11", "C04"], "MetadataPdu.pack/scalar",
            verifies=[MD + "MetadataPdu.__init__", MD + "MetadataPdu.pack", MD + "MetadataPdu._calculate_directive_field_len"])
def metadata_pack_scalar(direction: EnumOf(Direction), mode: EnumOf(TransmissionMode), crc: EnumOf(CrcFlag), large: EnumOf(LargeFileFlag),
                         segctrl: EnumOf(SegmentationControl), we: W, ws: W, src: Int, seq: Int, dst: Int,
                         cl: IntRange(0, 1), cksum: EnumOf(ChecksumType), size: Int, sname: NAME, dname: NAME):
    """no options: every header configuration, every file size that fits the file-size field (others: MetadataPdu.pack/file-size)"""
    requires(ids_in_range(we, ws, src, seq, dst))
    closure = cl == 1     # a symbolic bool: no case split
    requires(fss_fits(large, size))
    conf = mk_conf(we, ws, src, seq, dst, mode, crc, large, direction, segctrl)
    params = MetadataParams(closure, cksum, size, sname, dname)
    snap = snapshot(conf)
    psnap = snapshot(params)
    pdu = MetadataPdu(conf, params)
    ensures("caller-config-untouched", same_state(conf, snap))
    o = outcome(pdu.pack)
    fits = fss_fits(large, size)
    ensures("not-fitting-refused", implies(not fits, o.raised(ValueError, struct.error)))
    ensures("fitting-accepted", implies(fits, o.ok))
    if o.ok:
        raw = o.value
        ensures("packet_len", pdu.packet_len == len(raw))
        ensures("data-field-len", pdu.pdu_header.pdu_data_field_len == len(raw) - (4 + 2 * we + ws))
        layout_clauses(raw, crc, directive_body(TOWARDS_RECEIVER, mode, crc, large, segctrl, we, ws, src, seq, dst,
                                                metadata_params(cl, cksum, large, size, name_octets(sname), name_octets(dname), b"")))
        ensures("accessors", both(pdu.closure_requested == closure, pdu.checksum_type == cksum, pdu.file_size == size,
                                  pdu.options is None, pdu.crc_flag == crc, pdu.file_flag == large,
                                  pdu.direction == Direction.TOWARDS_RECEIVER, pdu.directive_type == 7))
        ensures("pack-twice", pdu.pack() == raw)
    ensures("caller-objects-untouched", both(same_state(conf, snap), same_state(params, psnap)))


@obligation(["C06"], "MetadataPdu.pack/file-size", verifies=[MD + "MetadataPdu.pack"])
def metadata_pack_file_size(crc: EnumOf(CrcFlag), large: EnumOf(LargeFileFlag), closure: Bool, cksum: EnumOf(ChecksumType), size: Int,
                            sname: NAME, dname: NAME):
    """file size over all integers: packing succeeds iff it fits the 32 / 64 bit field, and never truncates"""
    conf = mk_conf(1, 1, 1, 2, 3, TransmissionMode.ACKNOWLEDGED, crc, large, Direction.TOWARDS_RECEIVER,
                   SegmentationControl.NO_RECORD_BOUNDARIES_PRESERVATION)
    pdu = MetadataPdu(conf, MetadataParams(closure, cksum, size, sname, dname))
    o = outcome(pdu.pack)
    fits = fss_fits(large, size)
    ensures("not-fitting-refused", implies(not fits, o.raised(ValueError, struct.error)))
    ensures("fitting-accepted", implies(fits, o.ok))
    if o.ok:
        ensures("file-size-field", o.value[9:9 + fss_len(large)] == fss(large, size))


@obligation(["C06", "C11"], "MetadataPdu.pack/names", verifies=[MD + "MetadataPdu.__init__", MD + "MetadataPdu.pack",
                                                                 MD + "MetadataPdu.source_file_name", MD + "MetadataPdu.dest_file_name"])
def metadata_pack_names(mode: EnumOf(TransmissionMode), crc: EnumOf(CrcFlag), large: EnumOf(LargeFileFlag), src: Int, seq: Int, dst: Int,
                        closure: Bool, cksum: EnumOf(ChecksumType), size: Int, sname: OptionalOf(NAME), dname: OptionalOf(NAME)):
    """absent (None) and empty file names are the empty LV; the name accessors report None for both (one width pair)"""
    we = 4
    ws = 1
    requires(ids_in_range(we, ws, src, seq, dst))
    requires(fss_fits(large, size))
    conf = mk_conf(we, ws, src, seq, dst, mode, crc, large, Direction.TOWARDS_RECEIVER, SegmentationControl.NO_RECORD_BOUNDARIES_PRESERVATION)
    params = MetadataParams(closure, cksum, size, sname, dname)
    psnap = snapshot(params)
    pdu = MetadataPdu(conf, params)
    raw = pdu.pack()
    ensures("packet_len", pdu.packet_len == len(raw))
    cl = 0
    if closure:
        cl = 1
    layout_clauses(raw, crc, directive_body(TOWARDS_RECEIVER, mode, crc, large, 0, we, ws, src, seq, dst,
                                            metadata_params(cl, cksum, large, size, name_octets(sname), name_octets(dname), b"")))
    ensures("name-accessors", both(name_accessor_ok(pdu.source_file_name, sname), name_accessor_ok(pdu.dest_file_name, dname)))
    ensures("caller-params-untouched", same_state(params, psnap))


# options: generic TLVs (any of the six TLV types, value of at most 80 octets)
OPT_ITEM = TupleOf(EnumOf(TlvType), BytesLen(0, 80))
OPTIONS = ListOf(OPT_ITEM, 2)
OPT_BOUND = "list length <= 2, TLV values <= 80 octets, file names <= 80 octets"


def mk_options(items):
    return [CfdpTlv(t, v) for (t, v) in items]


def options_octets(items):
    r = b""
    for (t, v) in items:
        r = r + tlv(t, v)
    return r


def closure_bit(closure):
    if closure:
        return 1
    return 0


@obligation(["C06", "C11", "C04"], "MetadataPdu.pack/list", bounded=OPT_BOUND,
            verifies=[MD + "MetadataPdu.__init__", MD + "MetadataPdu.pack", MD + "MetadataPdu._calculate_directive_field_len"])
def metadata_pack_list(mode: EnumOf(TransmissionMode), crc: EnumOf(CrcFlag), large: EnumOf(LargeFileFlag), src: Int, seq: Int,
                       dst: Int, closure: Bool, cksum: EnumOf(ChecksumType), size: Int, sname: NAME, dname: NAME, items: OPTIONS):
    """options of any type and value (one width pair, all pairs in MetadataPdu.pack/scalar)"""
    we = 8
    ws = 1
    requires(ids_in_range(we, ws, src, seq, dst))
    requires(fss_fits(large, size))
    conf = mk_conf(we, ws, src, seq, dst, mode, crc, large, Direction.TOWARDS_RECEIVER, SegmentationControl.NO_RECORD_BOUNDARIES_PRESERVATION)
    options = mk_options(items)
    pdu = MetadataPdu(conf, MetadataParams(closure, cksum, size, sname, dname), options)
    raw = pdu.pack()
    ensures("packet_len", pdu.packet_len == len(raw))
    ensures("data-field-len", pdu.pdu_header.pdu_data_field_len == len(raw) - (4 + 2 * we + ws))
    layout_clauses(raw, crc, directive_body(TOWARDS_RECEIVER, mode, crc, large, 0, we, ws, src, seq, dst,
                                            metadata_params(closure_bit(closure), cksum, large, size, name_octets(sname), name_octets(dname),
                                                            options_octets(items))))
    ensures("accessors", is_same(pdu.options, options))
    ensures("pack-twice", pdu.pack() == raw)


def md_rt_clauses(pdu, raw, suffix, conf, closure, cksum, size, sname, dname, items):
    o = outcome(MetadataPdu.unpack, raw + suffix)
    ensures("decoded-or-refused", o.ok or o.raised(ValueError, InvalidCrc))
    ensures("exact-pdu-accepted", implies(len(suffix) == 0, o.ok))
    if o.ok:
        g = o.value
        ensures("rt-params", both(g.closure_requested == closure, g.checksum_type == cksum, g.file_size == size))
        ensures("rt-names", both(name_accessor_ok(g.source_file_name, sname), name_accessor_ok(g.dest_file_name, dname)))
        if len(items) == 0:
            ensures("rt-options", either(g.options is None, g.options == []))
        else:
            ensures("rt-option-count", both(g.options is not None, len(g.options) == len(items)))
            if g.options is not None and len(g.options) == len(items):
                for (x, (t, v)) in zip(g.options, items):
                    ensures("rt-option", both(x.tlv_type == t, x.value == v, x.packet_len == 2 + len(v), x.pack() == tlv(t, v)))
        ensures("rt-header", both(g.pdu_header.pdu_conf == conf, g.direction == Direction.TOWARDS_RECEIVER, g.file_flag == conf.file_flag,
                                  g.crc_flag == conf.crc_flag, g.transmission_mode == conf.trans_mode, g.directive_type == 7))
        ensures("rt-lengths", both(g.packet_len == len(raw), g.pdu_header.pdu_data_field_len == pdu.pdu_header.pdu_data_field_len))
        ensures("rt-equal", both(g == pdu, pdu == g))
        ensures("rt-repack", g.pack() == raw)


@obligation(["C06", "C09", "C04"], "MetadataPdu/roundtrip-scalar", verifies=[MD + "MetadataPdu.unpack", MD + "MetadataPdu.__eq__"],
            max_paths=4000, branch_timeout_ms=120)
def metadata_roundtrip_scalar(mode: EnumOf(TransmissionMode), crc: EnumOf(CrcFlag), large: EnumOf(LargeFileFlag),
                              segctrl: EnumOf(SegmentationControl), we: W, ws: W, src: Int, seq: Int, dst: Int,
                              closure: Bool, cksum: EnumOf(ChecksumType), size: Int, sname: NAME, dname: NAME, suffix: Bytes):
    """no options (options=None), non-empty file names: every header configuration"""
    requires(ids_in_range(we, ws, src, seq, dst))
    requires(fss_fits(large, size))
    requires(both(len(sname.encode("utf-8")) > 0, len(dname.encode("utf-8")) > 0))
    conf = mk_conf(we, ws, src, seq, dst, mode, crc, large, Direction.TOWARDS_RECEIVER, segctrl)
    pdu = MetadataPdu(conf, MetadataParams(closure, cksum, size, sname, dname))
    raw = pdu.pack()
    md_rt_clauses(pdu, raw, suffix, conf, closure, cksum, size, sname, dname, [])


@obligation(["C06", "C09", "C04"], "MetadataPdu/roundtrip-names", verifies=[MD + "MetadataPdu.unpack", MD + "MetadataPdu.__eq__"],
            max_paths=4000, branch_timeout_ms=120)
def metadata_roundtrip_names(mode: EnumOf(TransmissionMode), crc: EnumOf(CrcFlag), large: EnumOf(LargeFileFlag), src: Int, seq: Int, dst: Int,
                             closure: Bool, cksum: EnumOf(ChecksumType), size: Int, sname: OptionalOf(NAME), dname: OptionalOf(NAME),
                             no_options: Choice(None, ()), suffix: Bytes):
    """absent, empty and non-empty file names; options None or the empty list (one width pair)"""
    we = 1
    ws = 4
    requires(ids_in_range(we, ws, src, seq, dst))
    requires(fss_fits(large, size))
    conf = mk_conf(we, ws, src, seq, dst, mode, crc, large, Direction.TOWARDS_RECEIVER, SegmentationControl.NO_RECORD_BOUNDARIES_PRESERVATION)
    options = None
    if no_options is not None:
        options = []
    pdu = MetadataPdu(conf, MetadataParams(closure, cksum, size, sname, dname), options)
    raw = pdu.pack()
    md_rt_clauses(pdu, raw, suffix, conf, closure, cksum, size, sname, dname, [])


@obligation(["C06", "C09", "C04"], "MetadataPdu/roundtrip-list", bounded=OPT_BOUND, verifies=[MD + "MetadataPdu.unpack", MD + "MetadataPdu._parse_options",
                                                                                             MD + "MetadataPdu.__eq__"],
            max_paths=4000, branch_timeout_ms=120)
def metadata_roundtrip_list(mode: EnumOf(TransmissionMode), crc: EnumOf(CrcFlag), large: EnumOf(LargeFileFlag), src: Int, seq: Int, dst: Int,
                            closure: Bool, cksum: EnumOf(ChecksumType), size: Int, sname: NAME, dname: NAME, items: OPTIONS, suffix: Bytes):
    """options of any type and value (one width pair; a bytes buffer - the list-free harnesses decode bytearrays)"""
    we = 2
    ws = 2
    requires(ids_in_range(we, ws, src, seq, dst))
    requires(fss_fits(large, size))
    conf = mk_conf(we, ws, src, seq, dst, mode, crc, large, Direction.TOWARDS_RECEIVER, SegmentationControl.NO_RECORD_BOUNDARIES_PRESERVATION)
    pdu = MetadataPdu(conf, MetadataParams(closure, cksum, size, sname, dname), mk_options(items))
    raw = bytes(pdu.pack())
    md_rt_clauses(pdu, raw, suffix, conf, closure, cksum, size, sname, dname, items)


def md_arbitrary_clauses(data):
    o = outcome(MetadataPdu.unpack, data)
    ensures("raises-only", o.ok or o.raised(ValueError, InvalidCrc, UnsupportedCfdpVersion))
    if o.ok:
        g = o.value
        n = hdr_len_of(data) + data[1] * 256 + data[2]
        hl = hdr_len_of(data)
        f = 4 + 4 * bits(data[0], 0, 0)
        ensures("inside-buffer", n <= len(data))
        ensures("crc-gate", implies(bits(data[0], 1, 1) == 1, crc16(data[0:n]) == 0))
        ensures("params-inside-pdu", hl + 2 + f + 2 + 2 * bits(data[0], 1, 1) <= n)
        ensures("params", both(g.closure_requested == (bits(data[hl + 1], 6, 6) == 1), g.checksum_type == bits(data[hl + 1], 3, 0),
                               g.file_size == from_be(data[hl + 2:hl + 2 + f])))
        o2 = outcome(MetadataPdu.unpack, data[0:n])
        ensures("prefix-only", both(o2.ok, same_state(g, o2.value)))


def metadata_unpack_arbitrary_short(data):
    """ANY octet string whose declared data-field length is below that of the smallest Metadata PDU (two empty names, no options):
    every header, every buffer length"""
    if len(data) >= 3:
        requires(data[1] * 256 + data[2] < 2 + (4 + 4 * bits(data[0], 0, 0)) + 2 + 2 * bits(data[0], 1, 1))
    md_arbitrary_clauses(data)


MD_ARB = dict(bounded="declared data field shorter than the smallest Metadata PDU", verifies=[MD + "MetadataPdu.unpack"], max_paths=4000,
              branch_timeout_ms=120)


@obligation(["C06", "C09", "C10", "C04"], "MetadataPdu.unpack/arbitrary-short-idw1", **MD_ARB)
def metadata_unpack_arbitrary_1(data: Bytes):
    id_width_code_in(data, 0, 2)
    metadata_unpack_arbitrary_short(data)


@obligation(["C06", "C09", "C10", "C04"], "MetadataPdu.unpack/arbitrary-short-idw2", **MD_ARB)
def metadata_unpack_arbitrary_2(data: Bytes):
    id_width_code_in(data, 1, 4)
    metadata_unpack_arbitrary_short(data)


@obligation(["C06", "C09", "C10", "C04"], "MetadataPdu.unpack/arbitrary-short-idw4", **MD_ARB)
def metadata_unpack_arbitrary_4(data: Bytes):
    id_width_code_in(data, 3, 5)
    metadata_unpack_arbitrary_short(data)


@obligation(["C06", "C09", "C10", "C04"], "MetadataPdu.unpack/arbitrary-short-idw8", **MD_ARB)
def metadata_unpack_arbitrary_8(data: Bytes):
    id_width_code_in(data, 7, 6)
    metadata_unpack_arbitrary_short(data)


@obligation(["C06", "C09", "C10", "C04"], "MetadataPdu.unpack/arbitrary-params",
            bounded="valid fixed header with 1-octet entity IDs and 2-octet sequence number; declared area behind the file size <= 6 octets",
            verifies=[MD + "MetadataPdu.unpack", MD + "MetadataPdu._parse_options"], max_paths=4000, branch_timeout_ms=120)
def metadata_unpack_arbitrary_params(direction: EnumOf(Direction), mode: EnumOf(TransmissionMode), crc: EnumOf(CrcFlag),
                                     large: EnumOf(LargeFileFlag), src: Int, seq: Int, dst: Int, area: IntRange(0, 6), rest: Bytes):
    """a well-formed fixed header (any flags; arbitrary headers: C05 and arbitrary-short-*) that declares 0..6 octets (0, 1: too short) behind the
    file-size field (file name LVs and option TLVs), followed by ANY octets"""
    we = 1
    ws = 2
    requires(ids_in_range(we, ws, src, seq, dst))
    data = pdu_header_octets(0, direction, mode, crc, large, 2 + fss_len(large) + area + crc_len(crc), 0, 0, we, ws, src, seq, dst) + rest
    md_arbitrary_clauses(data)


@obligation(["C11", "C06"], "MetadataPdu/setters", bounded=OPT_BOUND,
            verifies=[MD + "MetadataPdu.options", MD + "MetadataPdu.source_file_name", MD + "MetadataPdu.dest_file_name",
                      MD + "MetadataPdu._calculate_directive_field_len"])
def metadata_setters(mode: EnumOf(TransmissionMode), crc: EnumOf(CrcFlag), large: EnumOf(LargeFileFlag), src: Int, seq: Int, dst: Int,
                     closure: Bool, cksum: EnumOf(ChecksumType), size: Int, sname0: NAME, dname0: NAME, item0: OPT_ITEM,
                     sname1: OptionalOf(NAME), dname1: NAME, items1: OptionalOf(OPTIONS), options_first: Bool):
    """options, source_file_name and dest_file_name setters == freshly built PDU with the final values; reported length == packed
    length.  (The caller's MetadataParams object keeps the names it was built with - the setters only change the PDU.)"""
    we = 2
    ws = 8
    requires(ids_in_range(we, ws, src, seq, dst))
    requires(fss_fits(large, size))
    conf = mk_conf(we, ws, src, seq, dst, mode, crc, large, Direction.TOWARDS_RECEIVER, SegmentationControl.NO_RECORD_BOUNDARIES_PRESERVATION)
    params = MetadataParams(closure, cksum, size, sname0, dname0)
    snap = snapshot(conf)
    psnap = snapshot(params)
    pdu = MetadataPdu(conf, params, mk_options([item0]))
    final = None
    if items1 is not None:
        final = mk_options(items1)
    if options_first:
        pdu.options = final
        pdu.source_file_name = sname1
        pdu.dest_file_name = dname1
    else:
        pdu.dest_file_name = dname1
        pdu.source_file_name = sname1
        pdu.options = final
    ensures("caller-objects-untouched", both(same_state(conf, snap), same_state(params, psnap)))
    ensures("accessors", both(name_accessor_ok(pdu.source_file_name, sname1), name_accessor_ok(pdu.dest_file_name, dname1),
                              is_same(pdu.options, final)))
    fresh = MetadataPdu(conf, MetadataParams(closure, cksum, size, sname1, dname1), final)
    ensures("lengths-as-fresh", both(pdu.packet_len == fresh.packet_len,
                                     pdu.pdu_header.pdu_data_field_len == fresh.pdu_header.pdu_data_field_len))
    ensures("equal-to-fresh", both(pdu == fresh, fresh == pdu))
    raw = pdu.pack()
    ensures("octets-as-fresh", raw == fresh.pack())
    ensures("packet_len", pdu.packet_len == len(raw))
    ensures("data-field-len", pdu.pdu_header.pdu_data_field_len == len(raw) - pdu.pdu_header.header_len)
    ensures("pack-twice", pdu.pack() == raw)
    ensures("still-equal", pdu == fresh)
