"""C01 - Space Packet primary header (CCSDS 133.0-B-2 4.1.3).  Contracts on
spacepackets/ccsds/spacepacket.py: PacketSeqCtrl, PacketId, SpacePacketHeader, SpacePacket and the
module-level helper encoders."""
from pyvc_spec import *
from spec_ccsds import sph_octets
from spacepackets.ccsds.spacepacket import (
    SpacePacketHeader, PacketType, SequenceFlags, PacketId, PacketSeqCtrl, SpacePacket,
    get_space_packet_id_bytes, get_sp_packet_id_raw, get_sp_psc_raw, get_apid_from_raw_space_packet,
    get_total_space_packet_len_from_len_field,
)

M = "spacepackets.ccsds.spacepacket:"


@obligation(["C01"], "SpacePacketHeader.pack", verifies=M + "SpacePacketHeader.pack")
def sph_pack(ver: IntRange(0, 7), ptype: EnumOf(PacketType), shf: Bool, apid: IntRange(0, 2047),
             flags: EnumOf(SequenceFlags), count: IntRange(0, 16383), dlen: IntRange(0, 65535)):
    h = SpacePacketHeader(ptype, apid, count, dlen, shf, flags, ver)
    r = h.pack()
    ensures("layout", r == sph_octets(ver, ptype, shf, apid, flags, count, dlen))
    ensures("packet_len", h.packet_len == dlen + 7)
    ensures("header_len", h.header_len == 6)
    ensures("accessors", both(h.ccsds_version == ver, h.packet_type == ptype, h.sec_header_flag == shf, h.apid == apid,
                              h.seq_flags == flags, h.seq_count == count, h.data_len == dlen))
    ensures("pack-pure", h.pack() == r)


@obligation(["C01"], "SpacePacketHeader.__init__/refusal", verifies=M + "SpacePacketHeader.__init__")
def sph_init_refusal(ptype: EnumOf(PacketType), shf: Bool, apid: Int, flags: EnumOf(SequenceFlags), count: Int, dlen: Int):
    """out-of-range APID, sequence count or data length are refused with ValueError - for all integers"""
    o = outcome(SpacePacketHeader, ptype, apid, count, dlen, shf, flags)
    bad = either(apid < 0, apid > 2047, count < 0, count > 16383, dlen < 0, dlen > 65535)
    ensures("valueerror-iff", o.raised(ValueError) == bad)
    ensures("raises-only", o.ok or o.raised(ValueError))
    o2 = outcome(PacketId, ptype, shf, apid)
    ensures("packet-id-iff", o2.raised(ValueError) == either(apid < 0, apid > 2047))
    o3 = outcome(PacketSeqCtrl, flags, count)
    ensures("psc-iff", o3.raised(ValueError) == either(count < 0, count > 16383))
    o4 = outcome(SpacePacketHeader.from_composite_fields, PacketId(ptype, shf, 0), PacketSeqCtrl(flags, 0), dlen)
    ensures("composite-iff", o4.raised(ValueError) == either(dlen < 0, dlen > 65535))


@obligation(["C01", "C09", "C10"], "SpacePacketHeader.unpack", verifies=M + "SpacePacketHeader.unpack")
def sph_unpack(data: Bytes):
    o = outcome(SpacePacketHeader.unpack, data)
    ensures("too-short-iff", o.raised(ValueError) == (len(data) < 6))
    ensures("raises-only", o.ok or o.raised(ValueError))
    if o.ok:
        h = o.value
        w0 = data[0] * 256 + data[1]
        w1 = data[2] * 256 + data[3]
        ensures("version", h.ccsds_version == bits(w0, 15, 13))
        ensures("type", h.packet_type == bits(w0, 12, 12))
        ensures("shf", h.sec_header_flag == (bits(w0, 11, 11) == 1))
        ensures("apid", h.apid == bits(w0, 10, 0))
        ensures("flags", h.seq_flags == bits(w1, 15, 14))
        ensures("count", h.seq_count == bits(w1, 13, 0))
        ensures("data_len", h.data_len == data[4] * 256 + data[5])
        ensures("packet_len", h.packet_len == data[4] * 256 + data[5] + 7)
        ensures("repack", h.pack() == data[0:6])
        ensures("prefix-only", same_state(h, SpacePacketHeader.unpack(data[0:6])))


@obligation(["C01", "C09"], "SpacePacketHeader/roundtrip")
def sph_roundtrip(ver: IntRange(0, 7), ptype: EnumOf(PacketType), shf: Bool, apid: IntRange(0, 2047),
                  flags: EnumOf(SequenceFlags), count: IntRange(0, 16383), dlen: IntRange(0, 65535), suffix: Bytes):
    """decode(encode(h) ++ anything) = h"""
    h = SpacePacketHeader(ptype, apid, count, dlen, shf, flags, ver)
    g = SpacePacketHeader.unpack(h.pack() + suffix)
    ensures("equal", g == h)
    ensures("state", same_state(g, h))
    ensures("fields", both(g.ccsds_version == ver, g.packet_type == ptype, g.sec_header_flag == shf, g.apid == apid,
                           g.seq_flags == flags, g.seq_count == count, g.data_len == dlen, g.packet_len == dlen + 7))
    h2 = SpacePacketHeader.from_composite_fields(PacketId(ptype, shf, apid), PacketSeqCtrl(flags, count), dlen, ver)
    ensures("composite", same_state(h2, h))


@obligation(["C01"], "PacketId/raw", verifies=[M + "PacketId.raw", M + "PacketId.from_raw"])
def packet_id_raw(ptype: EnumOf(PacketType), shf: Bool, apid: IntRange(0, 2047), raw: IntRange(0, 8191)):
    p = PacketId(ptype, shf, apid)
    ensures("raw", p.raw() == ptype * 4096 + shf * 2048 + apid)
    q = PacketId.from_raw(p.raw())
    ensures("from-raw-inverse", both(q.ptype == ptype, q.sec_header_flag == shf, q.apid == apid, q == p))
    r = PacketId.from_raw(raw)
    ensures("from-raw-bits", both(r.ptype == bits(raw, 12, 12), r.sec_header_flag == (bits(raw, 11, 11) == 1), r.apid == bits(raw, 10, 0)))
    ensures("raw-inverse", r.raw() == raw)
    ensures("helper", get_sp_packet_id_raw(ptype, shf, apid) == p.raw())
    ensures("eq-iff", (PacketId(ptype, shf, apid) == r) == (p.raw() == raw))


@obligation(["C01"], "PacketSeqCtrl/raw", verifies=[M + "PacketSeqCtrl.raw", M + "PacketSeqCtrl.from_raw"])
def psc_raw(flags: EnumOf(SequenceFlags), count: IntRange(0, 16383), raw: IntRange(0, 65535)):
    p = PacketSeqCtrl(flags, count)
    ensures("raw", p.raw() == flags * 16384 + count)
    q = PacketSeqCtrl.from_raw(p.raw())
    ensures("from-raw-inverse", both(q.seq_flags == flags, q.seq_count == count, q == p))
    r = PacketSeqCtrl.from_raw(raw)
    ensures("from-raw-bits", both(r.seq_flags == bits(raw, 15, 14), r.seq_count == bits(raw, 13, 0)))
    ensures("raw-inverse", r.raw() == raw)
    ensures("helper", get_sp_psc_raw(flags, count) == p.raw())
    ensures("eq-iff", (p == r) == (p.raw() == raw))


@obligation(["C01"], "helpers", verifies=[M + "get_space_packet_id_bytes", M + "get_apid_from_raw_space_packet",
                                          M + "get_total_space_packet_len_from_len_field"])
def helpers(ver: IntRange(0, 7), ptype: EnumOf(PacketType), shf: Bool, apid: IntRange(0, 2047), data: Bytes, dlen: IntRange(0, 65535)):
    b = get_space_packet_id_bytes(ptype, shf, apid, ver)
    word = be(2, ver * 8192 + ptype * 4096 + shf * 2048 + apid)
    ensures("id-bytes", both(b[0] == word[0], b[1] == word[1]))
    o = outcome(get_apid_from_raw_space_packet, data)
    ensures("apid-short-iff", o.raised(ValueError) == (len(data) < 6))
    ensures("apid-raises-only", o.ok or o.raised(ValueError))
    if o.ok:
        ensures("apid", o.value == bits(data[0] * 256 + data[1], 10, 0))
    ensures("total-len", get_total_space_packet_len_from_len_field(dlen) == dlen + 7)


@obligation(["C01"], "SpacePacket.pack", verifies=M + "SpacePacket.pack")
def space_packet_pack(ptype: EnumOf(PacketType), shf: Bool, apid: IntRange(0, 2047), count: IntRange(0, 16383),
                      dlen: IntRange(0, 65535), sec: OptionalOf(Bytes), user: OptionalOf(Bytes)):
    h = SpacePacketHeader(ptype, apid, count, dlen, shf)
    sp = SpacePacket(h, sec, user)
    o = outcome(sp.pack)
    missing = either(both(shf, sec is None), both(not shf, user is None))
    ensures("valueerror-iff", o.raised(ValueError) == missing)
    ensures("raises-only", o.ok or o.raised(ValueError))
    if o.ok:
        expect = h.pack()
        if shf:
            expect = expect + sec
        if user is not None:
            expect = expect + user
        ensures("layout", o.value == expect)


@obligation(["C01"], "helpers/refusal", verifies=[M + "get_sp_psc_raw", M + "get_sp_packet_id_raw", M + "get_space_packet_id_bytes"])
def helper_refusals(ptype: EnumOf(PacketType), shf: Bool, flags: EnumOf(SequenceFlags), apid: Int, count: Int):
    """the module-level encoders refuse out-of-range APIDs / sequence counts exactly like the classes (all integers), and encode
    in-range values to the same words"""
    o = outcome(get_sp_psc_raw, flags, count)
    ensures("psc-valueerror-iff", o.raised(ValueError) == either(count < 0, count > 16383))
    ensures("psc-raises-only", o.ok or o.raised(ValueError))
    if o.ok:
        ensures("psc-word", o.value == flags * 16384 + count)
    o2 = outcome(get_sp_packet_id_raw, ptype, shf, apid)
    ensures("id-valueerror-iff", o2.raised(ValueError) == either(apid < 0, apid > 2047))
    ensures("id-raises-only", o2.ok or o2.raised(ValueError))
    if o2.ok:
        ensures("id-word", o2.value == ptype * 4096 + shf * 2048 + apid)
    o3 = outcome(get_space_packet_id_bytes, ptype, shf, apid)
    if o3.ok and 0 <= apid and apid <= 2047:
        ensures("id-bytes-word", o3.value[0] * 256 + o3.value[1] == ptype * 4096 + shf * 2048 + apid)
