from pyvc_spec import *
from spec_ccsds import sph_octets
from spacepackets.ccsds.spacepacket import SpacePacketHeader, PacketType, SequenceFlags, PacketId, PacketSeqCtrl

SPH = "spacepackets.ccsds.spacepacket:SpacePacketHeader"


@obligation("C01", "SpacePacketHeader.pack", verifies=SPH + ".pack")
def sph_pack(ver: IntRange(0, 7), ptype: EnumOf(PacketType), shf: Bool, apid: IntRange(0, 2047),
             flags: EnumOf(SequenceFlags), count: IntRange(0, 16383), dlen: IntRange(0, 65535)):
    h = SpacePacketHeader(ptype, apid, count, dlen, shf, flags, ver)
    r = h.pack()
    ensures("layout", r == sph_octets(ver, ptype, shf, apid, flags, count, dlen))
    ensures("packet_len", h.packet_len == dlen + 7)


@obligation("C01", "SpacePacketHeader.unpack", verifies=SPH + ".unpack")
def sph_unpack(data: Bytes):
    o = outcome(SpacePacketHeader.unpack, data)
    ensures("too-short-iff", o.raised(ValueError) == (len(data) < 6))
    ensures("raises-only", o.ok or o.raised(ValueError))
    if o.ok:
        h = o.value
        w0 = data[0] * 256 + data[1]
        w1 = data[2] * 256 + data[3]
        ensures("version", h.ccsds_version == bits(w0, 15, 13))
        ensures("type", h.packet_type == bits(w0, 12, 12))
        ensures("shf", h.sec_header_flag == (bits(w0, 11, 11) == 1))
        ensures("apid", h.apid == bits(w0, 10, 0))
        ensures("flags", h.seq_flags == bits(w1, 15, 14))
        ensures("count", h.seq_count == bits(w1, 13, 0))
        ensures("data_len", h.data_len == data[4] * 256 + data[5])
        ensures("packet_len", h.packet_len == data[4] * 256 + data[5] + 7)
        ensures("repack", h.pack() == data[0:6])
