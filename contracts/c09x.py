"""Independence of decoded objects (C09 and the round-trip properties): decoding a second buffer must not change what an
earlier decode returned - no state may be shared between decoded objects (cached templates, mutable default arguments, shared
configuration objects).  Written after several independently seeded changes of exactly this kind; each harness decodes two
different valid packets of one kind and then looks at the first result again."""
from pyvc_spec import *
from cfdp_common import mk_conf
from spacepackets.ccsds.spacepacket import SpacePacketHeader, PacketType
from spacepackets.ccsds.time import CdsShortTimestamp
from spacepackets.ecss.tc import PusTc
from spacepackets.ecss.tm import PusTm
from spacepackets.ecss.pus_17_test import Service17Tm
from spacepackets.ecss.req_id import RequestId
from spacepackets.cfdp.defs import (Direction, TransmissionMode, CrcFlag, LargeFileFlag, SegmentationControl, ConditionCode,
                                    DeliveryCode, FileStatus, ChecksumType)
from spacepackets.cfdp.pdu import (EofPdu, AckPdu, PromptPdu, KeepAlivePdu, NakPdu, FinishedPdu, MetadataPdu, FileDataPdu,
                                   DirectiveType, TransactionStatus)
from spacepackets.cfdp.pdu.finished import FinishedParams
from spacepackets.cfdp.pdu.metadata import MetadataParams
from spacepackets.cfdp.pdu.file_data import FileDataParams
from spacepackets.cfdp.pdu.prompt import ResponseRequired
from spacepackets.cfdp.tlv import CfdpTlv, EntityIdTlv, FlowLabelTlv, FaultHandlerOverrideTlv, FileStoreRequestTlv, MessageToUserTlv
from spacepackets.cfdp.tlv.defs import TlvType, FilestoreActionCode
from spacepackets.cfdp.defs import FaultHandlerCode
from spacepackets.cfdp.lv import CfdpLv
from spacepackets.uslp.header import PrimaryHeader, TruncatedPrimaryHeader, SourceOrDestField, BypassSequenceControlFlag, ProtocolCommandFlag

NO_SEG = SegmentationControl.NO_RECORD_BOUNDARIES_PRESERVATION


def earlier_result_survives(unpack, raw1, raw2, whole_packet=True):
    """decode raw1, remember everything about the result, decode raw2, look at the first result again"""
    r1 = unpack(raw1)
    octets1 = r1.pack()          # (packing first: some classes cache their generic TLV form when packed)
    snap = snapshot(r1)
    r2 = unpack(raw2)
    ensures("earlier-result-unchanged", same_state(r1, snap, ignore=("_crc16",)))
    ensures("earlier-result-repacks", r1.pack() == octets1)
    if whole_packet and hasattr(r1, "packet_len"):     # (a header's packet_len is that of the packet it announces, not its own)
        ensures("earlier-result-length", r1.packet_len == len(octets1))
    ensures("results-are-distinct-objects", not is_same(r1, r2))
    ensures("second-result-own-octets", r2.pack() == unpack(raw2).pack())


def conf_of(crc, large, i):
    return mk_conf(1, 2, 10 + i, 20 + i, 30 + i, TransmissionMode.ACKNOWLEDGED, crc, large, Direction.TOWARDS_RECEIVER, NO_SEG)


@obligation(["C09", "C02"], "independence/PusTc")
def ind_tc(s1: IntRange(0, 255), s2: IntRange(0, 255), a1: IntRange(0, 2047), a2: IntRange(0, 2047), d1: BytesLen(0, 12), d2: BytesLen(0, 12),
           src1: IntRange(0, 65535), src2: IntRange(0, 65535)):
    earlier_result_survives(PusTc.unpack, PusTc(s1, 1, a1, d1, 5, src1).pack(), PusTc(s2, 2, a2, d2, 6, src2).pack())


@obligation(["C09", "C03"], "independence/PusTm")
def ind_tm(s1: IntRange(0, 255), s2: IntRange(0, 255), a1: IntRange(0, 2047), a2: IntRange(0, 2047), d1: BytesLen(0, 12), d2: BytesLen(0, 12),
           ts1: BytesLen(7, 7), ts2: BytesLen(7, 7), m1: IntRange(0, 65535), m2: IntRange(0, 65535)):
    def dec(raw):
        return PusTm.unpack(raw, 7)
    earlier_result_survives(dec, PusTm(s1, 1, ts1, d1, a1, 3, m1, 0, 9).pack(), PusTm(s2, 2, ts2, d2, a2, 4, m2, 1, 10).pack())


@obligation(["C09", "C03"], "independence/Service17Tm")
def ind_tm17(a1: IntRange(0, 2047), a2: IntRange(0, 2047), ts1: BytesLen(7, 7), ts2: BytesLen(7, 7), dst1: IntRange(0, 65535), dst2: IntRange(0, 65535)):
    def dec(raw):
        return Service17Tm.unpack(raw, 7)
    earlier_result_survives(dec, Service17Tm(a1, 1, ts1, destination_id=dst1).pack(), Service17Tm(a2, 2, ts2, destination_id=dst2).pack())


@obligation(["C09", "C14", "C15", "C01"], "independence/small-units")
def ind_small(u1: IntRange(0, 4294967295), u2: IntRange(0, 4294967295), day1: IntRange(0, 65535), day2: IntRange(0, 65535),
              ms1: IntRange(0, 86399999), ms2: IntRange(0, 86399999), h1: BytesLen(6, 6), h2: BytesLen(6, 6)):
    earlier_result_survives(RequestId.unpack, be(4, u1), be(4, u2))
    earlier_result_survives(CdsShortTimestamp.unpack, CdsShortTimestamp(day1, ms1).pack(), CdsShortTimestamp(day2, ms2).pack())
    earlier_result_survives(SpacePacketHeader.unpack, h1, h2, whole_packet=False)


@obligation(["C09", "C06", "C11", "C05"], "independence/scalar-directives")
def ind_directives(crc1: EnumOf(CrcFlag), crc2: EnumOf(CrcFlag), large1: EnumOf(LargeFileFlag), large2: EnumOf(LargeFileFlag),
                   size1: IntRange(0, 4294967295), size2: IntRange(0, 4294967295), cc1: Choice(0, 4, 15), cc2: Choice(0, 7)):
    c1 = conf_of(crc1, large1, 1)
    c2 = conf_of(crc2, large2, 2)
    earlier_result_survives(EofPdu.unpack, EofPdu(c1, be(4, 1), size1, None, ConditionCode(cc1)).pack(),
                            EofPdu(c2, be(4, 2), size2, EntityIdTlv(be(2, 7)), ConditionCode(cc2)).pack())
    earlier_result_survives(AckPdu.unpack, AckPdu(c1, DirectiveType.EOF_PDU, ConditionCode(cc1), TransactionStatus.ACTIVE).pack(),
                            AckPdu(c2, DirectiveType.FINISHED_PDU, ConditionCode(cc2), TransactionStatus.TERMINATED).pack())
    earlier_result_survives(PromptPdu.unpack, PromptPdu(c1, ResponseRequired.NAK).pack(), PromptPdu(c2, ResponseRequired.KEEP_ALIVE).pack())
    earlier_result_survives(KeepAlivePdu.unpack, KeepAlivePdu(c1, size1).pack(), KeepAlivePdu(c2, size2).pack())


@obligation(["C09", "C06", "C07", "C11"], "independence/list-directives-and-file-data")
def ind_lists(crc1: EnumOf(CrcFlag), crc2: EnumOf(CrcFlag), large: EnumOf(LargeFileFlag), a: IntRange(0, 4294967295), b: IntRange(0, 4294967295),
              data1: BytesLen(0, 8), data2: BytesLen(0, 8)):
    c1 = conf_of(crc1, large, 1)
    c2 = conf_of(crc2, large, 2)
    earlier_result_survives(NakPdu.unpack, NakPdu(c1, 0, a, [(0, 1), (2, b)]).pack(), NakPdu(c2, 1, b, [(3, a)]).pack())
    earlier_result_survives(FinishedPdu.unpack,
                            FinishedPdu(c1, FinishedParams(ConditionCode.FILE_SIZE_ERROR, DeliveryCode.DATA_COMPLETE, FileStatus.FILE_RETAINED, [], EntityIdTlv(be(1, 5)))).pack(),
                            FinishedPdu(c2, FinishedParams(ConditionCode.NO_ERROR, DeliveryCode.DATA_INCOMPLETE, FileStatus.DISCARDED_DELIBERATELY, [], None)).pack())
    earlier_result_survives(MetadataPdu.unpack,
                            MetadataPdu(c1, MetadataParams(True, ChecksumType.CRC_32, a, "a.txt", "b.txt"), [FlowLabelTlv(be(1, 1))]).pack(),
                            MetadataPdu(c2, MetadataParams(False, ChecksumType.MODULAR, b, None, "c"), None).pack())
    earlier_result_survives(FileDataPdu.unpack, FileDataPdu(c1, FileDataParams(data1, a)).pack(), FileDataPdu(c2, FileDataParams(data2, b)).pack())


@obligation(["C09", "C08"], "independence/tlvs")
def ind_tlvs(t1: EnumOf(TlvType), t2: EnumOf(TlvType), v1: BytesLen(0, 6), v2: BytesLen(0, 6), w: Choice(1, 2, 4, 8)):
    earlier_result_survives(CfdpTlv.unpack, CfdpTlv(t1, v1).pack(), CfdpTlv(t2, v2).pack())
    earlier_result_survives(CfdpLv.unpack, CfdpLv(v1).pack(), CfdpLv(v2).pack())
    earlier_result_survives(EntityIdTlv.unpack, EntityIdTlv(be(w, 3)).pack(), EntityIdTlv(be(1, 9)).pack())
    earlier_result_survives(FlowLabelTlv.unpack, FlowLabelTlv(v1).pack(), FlowLabelTlv(v2).pack())
    earlier_result_survives(MessageToUserTlv.unpack, MessageToUserTlv(v1).pack(), MessageToUserTlv(v2).pack())
    earlier_result_survives(FaultHandlerOverrideTlv.unpack,
                            FaultHandlerOverrideTlv(ConditionCode.FILE_SIZE_ERROR, FaultHandlerCode.IGNORE_ERROR).pack(),
                            FaultHandlerOverrideTlv(ConditionCode.NAK_LIMIT_REACHED, FaultHandlerCode.ABANDON_TRANSACTION).pack())
    earlier_result_survives(FileStoreRequestTlv.unpack, FileStoreRequestTlv(FilestoreActionCode.CREATE_FILE_SNM, "a").pack(),
                            FileStoreRequestTlv(FilestoreActionCode.RENAME_FILE_SNP, "b", "c").pack())


@obligation(["C09", "C17"], "independence/uslp-headers")
def ind_uslp(scid1: IntRange(0, 65535), scid2: IntRange(0, 65535), vcid1: IntRange(0, 63), vcid2: IntRange(0, 63), n1: Choice(0, 3), n2: Choice(1, 7),
             fl1: IntRange(0, 65535), fl2: IntRange(0, 65535)):
    earlier_result_survives(PrimaryHeader.unpack,
                            PrimaryHeader(scid1, SourceOrDestField.SOURCE, vcid1, 1, fl1, BypassSequenceControlFlag.SEQ_CTRLD_QOS, ProtocolCommandFlag.USER_DATA, False, n1, 0).pack(),
                            PrimaryHeader(scid2, SourceOrDestField.DEST, vcid2, 2, fl2, BypassSequenceControlFlag.EXPEDITED_QOS, ProtocolCommandFlag.PROTOCOL_INFORMATION, True, n2, 1).pack())
    earlier_result_survives(TruncatedPrimaryHeader.unpack, TruncatedPrimaryHeader(scid1, SourceOrDestField.SOURCE, vcid1, 1).pack(),
                            TruncatedPrimaryHeader(scid2, SourceOrDestField.DEST, vcid2, 2).pack())
