"""C08 - CFDP TLV and LV items (spacepackets/cfdp/lv.py, cfdp/tlv/tlv.py, base.py, holder.py, msg_to_user.py)."""
from pyvc_spec import *
from spec_cfdp import (tlv, lv, fs_second_name, fs_request_octets, fs_response_octets, fault_handler_octets, flow_label_octets,
                       entity_id_octets, msg_to_user_octets, tlv_type_known, fs_action_known)
from spacepackets.exceptions import BytesTooShortError
from spacepackets.cfdp.exceptions import TlvTypeMissmatch
from spacepackets.cfdp.defs import ConditionCode, FaultHandlerCode
from spacepackets.cfdp.lv import CfdpLv
from spacepackets.cfdp.tlv.defs import TlvType, FilestoreActionCode, FilestoreResponseStatusCode
from spacepackets.cfdp.tlv.tlv import (CfdpTlv, EntityIdTlv, FlowLabelTlv, FaultHandlerOverrideTlv, FileStoreRequestTlv,
                                       FileStoreResponseTlv, map_enum_status_code_to_int, map_int_status_code_to_enum,
                                       map_enum_status_code_to_action_status_code)
from spacepackets.cfdp.tlv.msg_to_user import MessageToUserTlv
from spacepackets.cfdp.tlv.holder import TlvHolder

L = "spacepackets.cfdp.lv:"
T = "spacepackets.cfdp.tlv.tlv:"
B = "spacepackets.cfdp.tlv.base:"
U = "spacepackets.cfdp.tlv.msg_to_user:"
H = "spacepackets.cfdp.tlv.holder:"


# ------------------------------------------------------------------------------------------------ LV

@obligation(["C08"], "CfdpLv.pack", verifies=[L + "CfdpLv.__init__", L + "CfdpLv.pack", L + "CfdpLv.packet_len"])
def lv_pack(value: Bytes):
    o = outcome(CfdpLv, value)
    ensures("valueerror-iff", o.raised(ValueError) == (len(value) > 255))
    ensures("raises-only", o.ok or o.raised(ValueError))
    if o.ok:
        r = o.value.pack()
        ensures("layout", r == lv(value))
        ensures("packet_len", both(o.value.packet_len == len(r), o.value.packet_len == len(value) + 1))
        ensures("value", both(o.value.value == value, o.value.value_len == len(value)))
        ensures("pack-twice", o.value.pack() == r)


@obligation(["C08", "C09", "C10"], "CfdpLv.unpack", verifies=[L + "CfdpLv.unpack"])
def lv_unpack(data: Bytes):
    o = outcome(CfdpLv.unpack, data)
    ensures("raises-only", o.ok or o.raised(ValueError))
    if len(data) == 0:
        ensures("empty-refused", o.raised(ValueError))
    else:
        n = data[0]
        ensures("ok-iff-complete", o.ok == (len(data) >= n + 1))
        if o.ok:
            ensures("value", o.value.value == data[1:1 + n])
            ensures("packet_len", o.value.packet_len == n + 1)
            ensures("repack", o.value.pack() == data[0:1 + n])
            ensures("prefix-only", same_state(o.value, CfdpLv.unpack(data[0:1 + n])))


@obligation(["C08", "C09", "C10"], "CfdpLv/roundtrip", verifies=[L + "CfdpLv.unpack", L + "CfdpLv.__eq__"])
def lv_roundtrip(value: BytesLen(0, 255), suffix: Bytes, cut: Int):
    a = CfdpLv(value)
    raw = a.pack()
    o = outcome(CfdpLv.unpack, raw + suffix)
    ensures("accepted", o.ok)
    if o.ok:
        ensures("equal", both(o.value == a, o.value.value == value))
        ensures("consumes-length-plus-1", o.value.packet_len == len(value) + 1)
        ensures("repack", o.value.pack() == raw)
    requires(0 <= cut)
    requires(cut < len(raw))
    p = outcome(CfdpLv.unpack, raw[0:cut])
    ensures("strict-prefix-refused", p.raised(ValueError))


@obligation(["C08"], "CfdpLv.from_str", verifies=[L + "CfdpLv.from_str"])
def lv_from_str(name: Str):
    o = outcome(CfdpLv.from_str, name)
    ensures("valueerror-iff", o.raised(ValueError) == (len(name.encode()) > 255))
    if o.ok:
        ensures("layout", o.value.pack() == lv(name.encode()))
        ensures("packet_len", o.value.packet_len == len(name.encode()) + 1)


# ------------------------------------------------------------------------------------------------ generic TLV

@obligation(["C08"], "CfdpTlv.pack", verifies=[T + "CfdpTlv.__init__", T + "CfdpTlv.pack", T + "CfdpTlv.packet_len"])
def tlv_pack(t: EnumOf(TlvType), value: Bytes):
    o = outcome(CfdpTlv, t, value)
    ensures("valueerror-iff", o.raised(ValueError) == (len(value) > 255))
    ensures("raises-only", o.ok or o.raised(ValueError))
    if o.ok:
        r = o.value.pack()
        ensures("layout", r == tlv(t, value))
        ensures("packet_len", both(o.value.packet_len == len(r), o.value.packet_len == len(value) + 2))
        ensures("views", both(o.value.tlv_type == t, o.value.value == value))
        ensures("pack-twice", o.value.pack() == r)


@obligation(["C08", "C09", "C10"], "CfdpTlv.unpack", verifies=[T + "CfdpTlv.unpack"])
def tlv_unpack(data: Bytes):
    o = outcome(CfdpTlv.unpack, data)
    ensures("raises-only", o.ok or o.raised(ValueError))
    if len(data) < 2:
        ensures("short-refused", o.raised(BytesTooShortError))
    else:
        n = data[1]
        ensures("ok-iff", o.ok == both(tlv_type_known(data[0]), len(data) >= n + 2))
        ensures("incomplete-refused", implies(len(data) < n + 2, o.raised(ValueError)))
        if o.ok:
            ensures("type", o.value.tlv_type == data[0])
            ensures("value", o.value.value == data[2:2 + n])
            ensures("packet_len", o.value.packet_len == n + 2)
            ensures("repack", o.value.pack() == data[0:2 + n])
            ensures("prefix-only", same_state(o.value, CfdpTlv.unpack(data[0:2 + n])))


@obligation(["C08", "C09", "C10"], "CfdpTlv/roundtrip", verifies=[T + "CfdpTlv.unpack", B + "AbstractTlvBase.__eq__"])
def tlv_roundtrip(t: EnumOf(TlvType), value: BytesLen(0, 255), suffix: Bytes, cut: Int):
    a = CfdpTlv(t, value)
    raw = a.pack()
    o = outcome(CfdpTlv.unpack, raw + suffix)
    ensures("accepted", o.ok)
    if o.ok:
        ensures("equal", both(o.value == a, o.value.tlv_type == t, o.value.value == value))
        ensures("consumes-length-plus-2", o.value.packet_len == len(value) + 2)
        ensures("repack", o.value.pack() == raw)
    requires(0 <= cut)
    requires(cut < len(raw))
    p = outcome(CfdpTlv.unpack, raw[0:cut])
    ensures("strict-prefix-refused", p.raised(ValueError))


@obligation(["C08", "C09"], "CfdpTlv/back-to-back", verifies=[T + "CfdpTlv.unpack", T + "CfdpTlv.packet_len"])
def tlv_back_to_back(t1: EnumOf(TlvType), v1: BytesLen(0, 255), t2: EnumOf(TlvType), v2: BytesLen(0, 255), suffix: Bytes):
    """TLVs packed back to back are split purely by the reported lengths"""
    buf = CfdpTlv(t1, v1).pack() + CfdpTlv(t2, v2).pack() + suffix
    a = CfdpTlv.unpack(buf)
    b = CfdpTlv.unpack(buf[a.packet_len:len(buf)])
    ensures("first", both(a.tlv_type == t1, a.value == v1))
    ensures("second", both(b.tlv_type == t2, b.value == v2))
    ensures("rest", buf[a.packet_len + b.packet_len:len(buf)] == suffix)


@obligation(["C08", "C09"], "CfdpLv/back-to-back", verifies=[L + "CfdpLv.unpack", L + "CfdpLv.packet_len"])
def lv_back_to_back(v1: BytesLen(0, 255), v2: BytesLen(0, 255), suffix: Bytes):
    buf = CfdpLv(v1).pack() + CfdpLv(v2).pack() + suffix
    a = CfdpLv.unpack(buf)
    b = CfdpLv.unpack(buf[a.packet_len:len(buf)])
    ensures("first", a.value == v1)
    ensures("second", b.value == v2)
    ensures("rest", buf[a.packet_len + b.packet_len:len(buf)] == suffix)


# ------------------------------------------------------------------------------------------------ octet-valued concrete TLVs
# entity ID (06), flow label (05), message to user (02): value = the caller's octets

@obligation(["C08"], "EntityIdTlv.pack", verifies=[T + "EntityIdTlv.__init__", T + "EntityIdTlv.pack", T + "EntityIdTlv.packet_len"])
def entity_id_pack(v: Bytes):
    o = outcome(EntityIdTlv, v)
    ensures("valueerror-iff", o.raised(ValueError) == (len(v) > 255))
    ensures("raises-only", o.ok or o.raised(ValueError))
    if o.ok:
        r = o.value.pack()
        ensures("layout", r == entity_id_octets(v))
        ensures("packet_len", o.value.packet_len == len(r))
        ensures("views", both(o.value.tlv_type == TlvType.ENTITY_ID, o.value.value == v))
        ensures("pack-twice", o.value.pack() == r)


@obligation(["C08"], "FlowLabelTlv.pack", verifies=[T + "FlowLabelTlv.__init__", T + "FlowLabelTlv.pack", T + "FlowLabelTlv.packet_len"])
def flow_label_pack(v: Bytes):
    o = outcome(FlowLabelTlv, v)
    ensures("valueerror-iff", o.raised(ValueError) == (len(v) > 255))
    ensures("raises-only", o.ok or o.raised(ValueError))
    if o.ok:
        r = o.value.pack()
        ensures("layout", r == flow_label_octets(v))
        ensures("packet_len", o.value.packet_len == len(r))
        ensures("views", both(o.value.tlv_type == TlvType.FLOW_LABEL, o.value.value == v))
        ensures("pack-twice", o.value.pack() == r)


@obligation(["C08"], "MessageToUserTlv.pack", verifies=[U + "MessageToUserTlv.__init__", U + "MessageToUserTlv.pack",
                                                         U + "MessageToUserTlv.packet_len"])
def msg_to_user_pack(v: Bytes):
    o = outcome(MessageToUserTlv, v)
    ensures("valueerror-iff", o.raised(ValueError) == (len(v) > 255))
    ensures("raises-only", o.ok or o.raised(ValueError))
    if o.ok:
        r = o.value.pack()
        ensures("layout", r == msg_to_user_octets(v))
        ensures("packet_len", o.value.packet_len == len(r))
        ensures("views", both(o.value.tlv_type == TlvType.MESSAGE_TO_USER, o.value.value == v))
        ensures("pack-twice", o.value.pack() == r)


def octet_tlv_unpack_clauses(o, data, t):
    """post-condition of K.unpack(data) for the three classes whose value is passed through; t = type code of K"""
    ensures("raises-only", o.ok or o.raised(ValueError, TlvTypeMissmatch))
    if len(data) < 2:
        ensures("short-refused", o.raised(BytesTooShortError))
    else:
        n = data[1]
        ensures("ok-iff", o.ok == both(data[0] == t, len(data) >= n + 2))
        ensures("incomplete-refused", implies(len(data) < n + 2, o.raised(ValueError)))
        ensures("foreign-type-refused", implies(both(tlv_type_known(data[0]), data[0] != t, len(data) >= n + 2),
                                                o.raised(TlvTypeMissmatch)))
        if o.ok:
            ensures("type", o.value.tlv_type == t)
            ensures("value", o.value.value == data[2:2 + n])
            ensures("packet_len", o.value.packet_len == n + 2)
            ensures("repack", o.value.pack() == data[0:2 + n])


@obligation(["C08", "C09", "C10"], "EntityIdTlv.unpack", verifies=[T + "EntityIdTlv.unpack", B + "AbstractTlvBase.check_type"])
def entity_id_unpack(data: Bytes):
    o = outcome(EntityIdTlv.unpack, data)
    octet_tlv_unpack_clauses(o, data, 6)
    if o.ok:
        ensures("prefix-only", same_state(o.value, EntityIdTlv.unpack(data[0:2 + data[1]])))


@obligation(["C08", "C09", "C10"], "FlowLabelTlv.unpack", verifies=[T + "FlowLabelTlv.unpack"])
def flow_label_unpack(data: Bytes):
    o = outcome(FlowLabelTlv.unpack, data)
    octet_tlv_unpack_clauses(o, data, 5)
    if o.ok:
        ensures("prefix-only", same_state(o.value, FlowLabelTlv.unpack(data[0:2 + data[1]])))


@obligation(["C08", "C09", "C10"], "MessageToUserTlv.unpack", verifies=[U + "MessageToUserTlv.unpack", B + "AbstractTlvBase.check_type"])
def msg_to_user_unpack(data: Bytes):
    o = outcome(MessageToUserTlv.unpack, data)
    octet_tlv_unpack_clauses(o, data, 2)
    if o.ok:
        ensures("prefix-only", same_state(o.value, MessageToUserTlv.unpack(data[0:2 + data[1]])))


@obligation(["C08", "C09", "C10"], "EntityIdTlv/roundtrip", verifies=[T + "EntityIdTlv.unpack", T + "EntityIdTlv.from_tlv", T + "EntityIdTlv.__eq__"])
def entity_id_roundtrip(v: BytesLen(0, 255), suffix: Bytes, cut: Int):
    a = EntityIdTlv(v)
    raw = a.pack()
    o = outcome(EntityIdTlv.unpack, raw + suffix)
    ensures("accepted", o.ok)
    if o.ok:
        ensures("same-parameters", both(o.value.value == v, o.value.tlv_type == TlvType.ENTITY_ID, o.value.packet_len == len(raw)))
        ensures("repack", o.value.pack() == raw)
        if either(len(v) == 1, len(v) == 2, len(v) == 4, len(v) == 8):
            ensures("equal", o.value == a)
    c = EntityIdTlv.from_tlv(CfdpTlv.unpack(raw + suffix))
    ensures("from_tlv", both(c.value == v, c.pack() == raw, c.packet_len == len(raw)))
    requires(0 <= cut)
    requires(cut < len(raw))
    ensures("strict-prefix-refused", outcome(EntityIdTlv.unpack, raw[0:cut]).raised(ValueError))


@obligation(["C08", "C09", "C10"], "FlowLabelTlv/roundtrip", verifies=[T + "FlowLabelTlv.unpack", T + "FlowLabelTlv.from_tlv"])
def flow_label_roundtrip(v: BytesLen(0, 255), suffix: Bytes, cut: Int):
    a = FlowLabelTlv(v)
    raw = a.pack()
    o = outcome(FlowLabelTlv.unpack, raw + suffix)
    ensures("accepted", o.ok)
    if o.ok:
        ensures("same-parameters", both(o.value.value == v, o.value.tlv_type == TlvType.FLOW_LABEL, o.value.packet_len == len(raw)))
        ensures("repack", o.value.pack() == raw)
        ensures("equal", o.value == a)
    c = FlowLabelTlv.from_tlv(CfdpTlv.unpack(raw + suffix))
    ensures("from_tlv", both(c.value == v, c.pack() == raw, c.packet_len == len(raw), c == a))
    requires(0 <= cut)
    requires(cut < len(raw))
    ensures("strict-prefix-refused", outcome(FlowLabelTlv.unpack, raw[0:cut]).raised(ValueError))


@obligation(["C08", "C09", "C10"], "MessageToUserTlv/roundtrip", verifies=[U + "MessageToUserTlv.unpack", U + "MessageToUserTlv.from_tlv"])
def msg_to_user_roundtrip(v: BytesLen(0, 255), suffix: Bytes, cut: Int):
    a = MessageToUserTlv(v)
    raw = a.pack()
    o = outcome(MessageToUserTlv.unpack, raw + suffix)
    ensures("accepted", o.ok)
    if o.ok:
        ensures("same-parameters", both(o.value.value == v, o.value.tlv_type == TlvType.MESSAGE_TO_USER, o.value.packet_len == len(raw)))
        ensures("repack", o.value.pack() == raw)
        ensures("equal", o.value == a)
    c = MessageToUserTlv.from_tlv(CfdpTlv.unpack(raw + suffix))
    ensures("from_tlv", both(c.value == v, c.pack() == raw, c.packet_len == len(raw), c == a))
    requires(0 <= cut)
    requires(cut < len(raw))
    ensures("strict-prefix-refused", outcome(MessageToUserTlv.unpack, raw[0:cut]).raised(ValueError))


# ------------------------------------------------------------------------------------------------ fault handler override (04)

@obligation(["C08"], "FaultHandlerOverrideTlv.pack", verifies=[T + "FaultHandlerOverrideTlv.__init__", T + "FaultHandlerOverrideTlv.pack",
                                                                T + "FaultHandlerOverrideTlv.packet_len"])
def fault_handler_pack(cc: EnumOf(ConditionCode), hc: EnumOf(FaultHandlerCode)):
    o = outcome(FaultHandlerOverrideTlv, cc, hc)
    # the condition code field has 4 bits; NO_CONDITION_FIELD (-1) is the library's marker for "no such field"
    ensures("valueerror-iff", o.raised(ValueError) == (cc == ConditionCode.NO_CONDITION_FIELD))
    ensures("raises-only", o.ok or o.raised(ValueError))
    if o.ok:
        r = o.value.pack()
        ensures("layout", r == fault_handler_octets(cc, hc))
        ensures("packet_len", both(o.value.packet_len == len(r), o.value.packet_len == 3))
        ensures("views", both(o.value.tlv_type == TlvType.FAULT_HANDLER, o.value.value == be(1, cc * 16 + hc),
                              o.value.condition_code == cc, o.value.handler_code == hc))
        ensures("pack-twice", o.value.pack() == r)


@obligation(["C08", "C09", "C10"], "FaultHandlerOverrideTlv.unpack", verifies=[T + "FaultHandlerOverrideTlv.unpack", B + "AbstractTlvBase.check_type"])
def fault_handler_unpack(data: Bytes):
    o = outcome(FaultHandlerOverrideTlv.unpack, data)
    ensures("raises-only", o.ok or o.raised(ValueError, TlvTypeMissmatch))
    if len(data) < 2:
        ensures("short-refused", o.raised(BytesTooShortError))
    else:
        n = data[1]
        ensures("incomplete-refused", implies(len(data) < n + 2, o.raised(ValueError)))
        ensures("foreign-type-refused", implies(both(tlv_type_known(data[0]), data[0] != 4, len(data) >= n + 2),
                                                o.raised(TlvTypeMissmatch)))
        ensures("empty-value-refused", implies(n == 0, not o.ok))
        ensures("accepted", implies(both(data[0] == 4, n == 1, len(data) >= 3), o.ok))
        if o.ok:
            ensures("type", both(data[0] == 4, o.value.tlv_type == TlvType.FAULT_HANDLER))
            ensures("fields", both(o.value.condition_code == bits(data[2], 7, 4), o.value.handler_code == bits(data[2], 3, 0)))
            ensures("value", o.value.value == data[2:2 + n])
            ensures("packet_len", o.value.packet_len == n + 2)
            ensures("repack", o.value.pack() == data[0:2 + n])
            ensures("prefix-only", same_state(o.value, FaultHandlerOverrideTlv.unpack(data[0:2 + n])))


@obligation(["C08", "C10"], "FaultHandlerOverrideTlv.from_tlv/any", verifies=[T + "FaultHandlerOverrideTlv.from_tlv"])
def fault_handler_from_tlv_any(t: EnumOf(TlvType), v: BytesLen(0, 255)):
    o = outcome(FaultHandlerOverrideTlv.from_tlv, CfdpTlv(t, v))
    ensures("raises-only", o.ok or o.raised(ValueError, TlvTypeMissmatch))
    ensures("mismatch-iff", o.raised(TlvTypeMissmatch) == (t != TlvType.FAULT_HANDLER))
    ensures("accepted", implies(both(t == TlvType.FAULT_HANDLER, len(v) == 1), o.ok))
    if o.ok:
        ensures("fields", both(o.value.condition_code == bits(v[0], 7, 4), o.value.handler_code == bits(v[0], 3, 0),
                               o.value.value == v, o.value.tlv_type == TlvType.FAULT_HANDLER))


@obligation(["C08", "C09", "C10"], "FaultHandlerOverrideTlv/roundtrip", verifies=[T + "FaultHandlerOverrideTlv.unpack", T + "FaultHandlerOverrideTlv.from_tlv"])
def fault_handler_roundtrip(cc: EnumOf(ConditionCode), hc: EnumOf(FaultHandlerCode), suffix: Bytes, cut: IntRange(0, 2)):
    requires(cc != ConditionCode.NO_CONDITION_FIELD)
    a = FaultHandlerOverrideTlv(cc, hc)
    raw = a.pack()
    o = outcome(FaultHandlerOverrideTlv.unpack, raw + suffix)
    ensures("accepted", o.ok)
    if o.ok:
        ensures("same-parameters", both(o.value.condition_code == cc, o.value.handler_code == hc, o.value.packet_len == 3))
        ensures("repack", o.value.pack() == raw)
        ensures("equal", o.value == a)
    c = FaultHandlerOverrideTlv.from_tlv(CfdpTlv.unpack(raw + suffix))
    ensures("from_tlv", both(c.condition_code == cc, c.handler_code == hc, c.pack() == raw, c.packet_len == 3, c == a))
    ensures("strict-prefix-refused", outcome(FaultHandlerOverrideTlv.unpack, raw[0:cut]).raised(ValueError))


# ------------------------------------------------------------------------------------------------ filestore request (00) / response (01)
# File names are abstract strings: a name *is* its UTF-8 octets, len(name) is an uninterpreted character count.

def fs_value_len(action, b1, b2):
    """octets of the request value field: action octet + LV(s)"""
    if fs_second_name(action):
        return 1 + 1 + len(b1) + 1 + len(b2)
    return 1 + 1 + len(b1)


@obligation(["C08"], "FileStoreRequestTlv.pack", verifies=[T + "FileStoreRequestTlv.__init__", T + "FileStoreRequestTlv.pack",
                                                            T + "FileStoreRequestTlv.packet_len", T + "FileStoreRequestBase._common_packer",
                                                            T + "FileStoreRequestBase.common_packet_len", T + "FileStoreRequestTlv._build_tlv"])
def fs_request_pack(action: EnumOf(FilestoreActionCode), n1: StrLen(255), n2: StrLen(255)):
    a = FileStoreRequestTlv(action, n1, n2)
    b1 = n1.encode()
    b2 = n2.encode()
    requires(fs_value_len(action, b1, b2) <= 255)
    o = outcome(a.pack)
    ensures("accepted", o.ok)
    if o.ok:
        r = o.value
        ensures("layout", r == fs_request_octets(action, b1, b2))
        ensures("packet_len-octets", a.packet_len == len(r))
        ensures("views", both(a.tlv_type == TlvType.FILESTORE_REQUEST, a.value == r[2:len(r)]))
        ensures("pack-twice", a.pack() == r)


@obligation(["C08"], "FileStoreRequestTlv.pack/too-long", verifies=[T + "FileStoreRequestTlv.pack"])
def fs_request_too_long(action: EnumOf(FilestoreActionCode), n1: Str, n2: Str):
    """values longer than 255 octets are refused (the value field is the action octet and the name LVs)"""
    a = FileStoreRequestTlv(action, n1, n2)
    requires(fs_value_len(action, n1.encode(), n2.encode()) > 255)
    o = outcome(a.pack)
    ensures("refused", o.raised(ValueError))


@obligation(["C08"], "FileStoreResponseTlv.pack", verifies=[T + "FileStoreResponseTlv.__init__", T + "FileStoreResponseTlv.pack",
                                                             T + "FileStoreResponseTlv.packet_len", T + "FileStoreRequestBase._common_packer",
                                                             T + "FileStoreRequestBase.common_packet_len", T + "FileStoreResponseTlv._build_tlv",
                                                             T + "map_enum_status_code_to_int"])
def fs_response_pack(action: EnumOf(FilestoreActionCode), status: EnumOf(FilestoreResponseStatusCode), n1: StrLen(255), n2: StrLen(255),
                     msg: BytesLen(0, 255)):
    requires(status != FilestoreResponseStatusCode.INVALID)
    requires(status // 16 == action)      # "every action code with the matching status codes"
    a = FileStoreResponseTlv(action, status, n1, n2, CfdpLv(msg))
    b1 = n1.encode()
    b2 = n2.encode()
    requires(fs_value_len(action, b1, b2) + 1 + len(msg) <= 255)
    o = outcome(a.pack)
    ensures("accepted", o.ok)
    if o.ok:
        r = o.value
        ensures("layout", r == fs_response_octets(action, status % 16, b1, b2, msg))
        ensures("packet_len-octets", a.packet_len == len(r))
        ensures("views", both(a.tlv_type == TlvType.FILESTORE_RESPONSE, a.value == r[2:len(r)]))
        ensures("pack-twice", a.pack() == r)


@obligation(["C08"], "FileStoreResponseTlv.pack/too-long", verifies=[T + "FileStoreResponseTlv.pack"])
def fs_response_too_long(action: EnumOf(FilestoreActionCode), status: EnumOf(FilestoreResponseStatusCode), n1: Str, n2: Str,
                         msg: BytesLen(0, 255)):
    requires(status != FilestoreResponseStatusCode.INVALID)
    requires(status // 16 == action)
    a = FileStoreResponseTlv(action, status, n1, n2, CfdpLv(msg))
    requires(fs_value_len(action, n1.encode(), n2.encode()) + 1 + len(msg) > 255)
    o = outcome(a.pack)
    ensures("refused", o.raised(ValueError))


@obligation(["C08"], "FileStoreResponseTlv.pack/default-msg", verifies=[T + "FileStoreResponseTlv.__init__"])
def fs_response_pack_default_msg(action: EnumOf(FilestoreActionCode), status: EnumOf(FilestoreResponseStatusCode), n1: StrLen(100), n2: StrLen(100)):
    requires(status != FilestoreResponseStatusCode.INVALID)
    requires(status // 16 == action)
    a = FileStoreResponseTlv(action, status, n1, n2)
    r = a.pack()
    ensures("layout", r == fs_response_octets(action, status % 16, n1.encode(), n2.encode(), bytes()))
    ensures("packet_len-octets", a.packet_len == len(r))


@obligation(["C08", "C09", "C10"], "FileStoreRequestTlv.unpack", verifies=[T + "FileStoreRequestTlv.unpack", T + "FileStoreRequestTlv._set_fields",
                                                                           T + "FileStoreRequestBase._common_unpacker",
                                                                           T + "FileStoreRequestBase._check_raw_tlv_field"])
def fs_request_unpack(data: Bytes):
    o = outcome(FileStoreRequestTlv.unpack, data)
    ensures("raises-only", o.ok or o.raised(ValueError, TlvTypeMissmatch))
    ensures("short-refused", implies(len(data) < 4, not o.ok))
    if len(data) >= 2:
        n = data[1]
        ensures("incomplete-refused", implies(len(data) < n + 2, not o.ok))
        ensures("foreign-type-refused", implies(both(tlv_type_known(data[0]), data[0] != 0), o.raised(TlvTypeMissmatch)))
        if o.ok:
            g = o.value
            ensures("type", both(data[0] == 0, g.tlv_type == TlvType.FILESTORE_REQUEST))
            ensures("action", both(g.action_code == bits(data[2], 7, 4), fs_action_known(bits(data[2], 7, 4))))
            k = data[3]
            ensures("first-name-inside-value", 2 + k <= n)
            ensures("first-name", g.first_file_name.encode() == data[4:4 + k])
            p = outcome(FileStoreRequestTlv.unpack, data[0:2 + n])
            ensures("prefix-only", p.ok)
            if p.ok:
                ensures("prefix-only-same", same_state(g, p.value))
            r = g.pack()    # canonical re-encoding: spare bits zero, octets behind the last LV dropped
            ensures("repack-is-value-prefix", both(len(r) <= n + 2, r[0] == 0, r[1] == len(r) - 2, r[2] == bits(data[2], 7, 4) * 16,
                                                   r[3:len(r)] == data[3:len(r)]))
            ensures("packet_len", g.packet_len == len(r))


@obligation(["C08", "C09", "C10"], "FileStoreResponseTlv.unpack", verifies=[T + "FileStoreResponseTlv.unpack", T + "FileStoreResponseTlv._set_fields",
                                                                            T + "FileStoreRequestBase._common_unpacker",
                                                                            T + "FileStoreRequestBase._check_raw_tlv_field"])
def fs_response_unpack(data: Bytes):
    o = outcome(FileStoreResponseTlv.unpack, data)
    ensures("raises-only", o.ok or o.raised(ValueError, TlvTypeMissmatch))
    ensures("short-refused", implies(len(data) < 5, not o.ok))
    if len(data) >= 2:
        n = data[1]
        ensures("incomplete-refused", implies(len(data) < n + 2, not o.ok))
        ensures("foreign-type-refused", implies(both(tlv_type_known(data[0]), data[0] != 1), o.raised(TlvTypeMissmatch)))
        if o.ok:
            g = o.value
            ensures("type", both(data[0] == 1, g.tlv_type == TlvType.FILESTORE_RESPONSE))
            ensures("action", both(g.action_code == bits(data[2], 7, 4), fs_action_known(bits(data[2], 7, 4))))
            ensures("status", both(g.status_code == data[2], kind_of(g.status_code) == "FilestoreResponseStatusCode"))
            k = data[3]
            ensures("first-name-inside-value", 3 + k <= n)
            ensures("first-name", g.first_file_name.encode() == data[4:4 + k])
            p = outcome(FileStoreResponseTlv.unpack, data[0:2 + n])
            ensures("prefix-only", p.ok)
            if p.ok:
                ensures("prefix-only-same", same_state(g, p.value))
            r = g.pack()    # canonical re-encoding: octets behind the filestore message LV dropped
            ensures("repack-is-value-prefix", both(len(r) <= n + 2, r[0] == 1, r[1] == len(r) - 2, r[2:len(r)] == data[2:len(r)]))
            ensures("packet_len", g.packet_len == len(r))


@obligation(["C08", "C10"], "FileStoreRequestTlv.from_tlv/any", verifies=[T + "FileStoreRequestTlv.from_tlv", T + "FileStoreRequestTlv._set_fields",
                                                                    T + "FileStoreRequestBase._common_unpacker"])
def fs_request_from_tlv_any(t: EnumOf(TlvType), v: BytesLen(0, 255)):
    """conversion of a generic TLV with arbitrary value: documented errors only, and the same answer as decoding its octets"""
    o = outcome(FileStoreRequestTlv.from_tlv, CfdpTlv(t, v))
    ensures("raises-only", o.ok or o.raised(ValueError, TlvTypeMissmatch))
    ensures("mismatch-iff", o.raised(TlvTypeMissmatch) == (t != TlvType.FILESTORE_REQUEST))
    if t == TlvType.FILESTORE_REQUEST:
        u = outcome(FileStoreRequestTlv.unpack, tlv(0, v))
        ensures("agrees-with-unpack", o.ok == u.ok)
        if o.ok and u.ok:
            ensures("agrees-with-unpack-state", same_state(o.value, u.value))


@obligation(["C08", "C10"], "FileStoreResponseTlv.from_tlv/any", verifies=[T + "FileStoreResponseTlv.from_tlv", T + "FileStoreResponseTlv._set_fields",
                                                                     T + "FileStoreRequestBase._common_unpacker"])
def fs_response_from_tlv_any(t: EnumOf(TlvType), v: BytesLen(0, 255)):
    o = outcome(FileStoreResponseTlv.from_tlv, CfdpTlv(t, v))
    ensures("raises-only", o.ok or o.raised(ValueError, TlvTypeMissmatch))
    ensures("mismatch-iff", o.raised(TlvTypeMissmatch) == (t != TlvType.FILESTORE_RESPONSE))
    if t == TlvType.FILESTORE_RESPONSE:
        u = outcome(FileStoreResponseTlv.unpack, tlv(1, v))
        ensures("agrees-with-unpack", o.ok == u.ok)
        if o.ok and u.ok:
            ensures("agrees-with-unpack-state", same_state(o.value, u.value))


@obligation(["C08", "C09", "C10"], "FileStoreRequestTlv/roundtrip", verifies=[T + "FileStoreRequestTlv.unpack", T + "FileStoreRequestTlv.from_tlv"])
def fs_request_roundtrip(action: EnumOf(FilestoreActionCode), n1: StrLen(255), n2: StrLen(255), suffix: Bytes, cut: Int):
    a = FileStoreRequestTlv(action, n1, n2)
    requires(fs_value_len(action, n1.encode(), n2.encode()) <= 255)
    raw = a.pack()
    o = outcome(FileStoreRequestTlv.unpack, raw + suffix)
    ensures("accepted", o.ok)
    if o.ok:
        g = o.value
        ensures("same-parameters", both(g.action_code == action, g.first_file_name == n1,
                                        implies(fs_second_name(action), g.second_file_name == n2)))
        ensures("kind", kind_of(g.action_code) == "FilestoreActionCode")
        ensures("consumes-length-plus-2", g.packet_len == len(raw))
        ensures("repack", g.pack() == raw)
        ensures("equal", g == a)
    c = outcome(FileStoreRequestTlv.from_tlv, CfdpTlv.unpack(raw + suffix))
    ensures("from_tlv-accepted", c.ok)
    if c.ok:
        ensures("from_tlv", both(c.value.action_code == action, c.value.first_file_name == n1,
                                 implies(fs_second_name(action), c.value.second_file_name == n2), c.value.pack() == raw,
                                 c.value.packet_len == len(raw)))
    requires(0 <= cut)
    requires(cut < len(raw))
    ensures("strict-prefix-refused", outcome(FileStoreRequestTlv.unpack, raw[0:cut]).raised(ValueError))


@obligation(["C08", "C09", "C10"], "FileStoreResponseTlv/roundtrip", verifies=[T + "FileStoreResponseTlv.unpack", T + "FileStoreResponseTlv.from_tlv"])
def fs_response_roundtrip(action: EnumOf(FilestoreActionCode), status: EnumOf(FilestoreResponseStatusCode), n1: StrLen(255), n2: StrLen(255),
                          msg: BytesLen(0, 255), suffix: Bytes, cut: Int):
    requires(status != FilestoreResponseStatusCode.INVALID)
    requires(status // 16 == action)
    a = FileStoreResponseTlv(action, status, n1, n2, CfdpLv(msg))
    requires(fs_value_len(action, n1.encode(), n2.encode()) + 1 + len(msg) <= 255)
    raw = a.pack()
    o = outcome(FileStoreResponseTlv.unpack, raw + suffix)
    ensures("accepted", o.ok)
    if o.ok:
        g = o.value
        ensures("same-parameters", both(g.action_code == action, g.status_code == status, g.first_file_name == n1,
                                        implies(fs_second_name(action), g.second_file_name == n2), g.filestore_msg.value == msg))
        ensures("kind", both(kind_of(g.action_code) == "FilestoreActionCode", kind_of(g.status_code) == "FilestoreResponseStatusCode"))
        ensures("consumes-length-plus-2", g.packet_len == len(raw))
        ensures("repack", g.pack() == raw)
        ensures("equal", g == a)
    c = outcome(FileStoreResponseTlv.from_tlv, CfdpTlv.unpack(raw + suffix))
    ensures("from_tlv-accepted", c.ok)
    if c.ok:
        ensures("from_tlv", both(c.value.action_code == action, c.value.status_code == status, c.value.first_file_name == n1,
                                 implies(fs_second_name(action), c.value.second_file_name == n2), c.value.filestore_msg.value == msg,
                                 c.value.pack() == raw, c.value.packet_len == len(raw)))
    requires(0 <= cut)
    requires(cut < len(raw))
    ensures("strict-prefix-refused", outcome(FileStoreResponseTlv.unpack, raw[0:cut]).raised(ValueError))


# ------------------------------------------------------------------------------------------------ type-safety matrix
# each concrete class K, each TLV type t != type(K), every value v: K.unpack(tlv(t, v) ++ suffix), K.from_tlv(CfdpTlv(t, v)) and
# TlvHolder(CfdpTlv(t, v)).to_K() fail with the type-mismatch error (holder: or TypeError); nothing of kind K is returned

def type_safety_clauses(o_unpack, o_from_tlv, o_holder):
    ensures("unpack-mismatch", o_unpack.raised(TlvTypeMissmatch))
    ensures("from_tlv-mismatch", o_from_tlv.raised(TlvTypeMissmatch))
    ensures("holder-mismatch", o_holder.raised(TlvTypeMissmatch, TypeError))


@obligation(["C08"], "type-safety/EntityIdTlv", verifies=[T + "EntityIdTlv.unpack", T + "EntityIdTlv.from_tlv", H + "TlvHolder.to_entity_id",
                                                          B + "AbstractTlvBase.check_type"])
def types_entity_id(t: EnumOf(TlvType), v: BytesLen(0, 255), suffix: Bytes):
    requires(t != TlvType.ENTITY_ID)
    type_safety_clauses(outcome(EntityIdTlv.unpack, tlv(t, v) + suffix), outcome(EntityIdTlv.from_tlv, CfdpTlv(t, v)),
                        outcome(TlvHolder(CfdpTlv(t, v)).to_entity_id))


@obligation(["C08"], "type-safety/FlowLabelTlv", verifies=[T + "FlowLabelTlv.unpack", T + "FlowLabelTlv.from_tlv", H + "TlvHolder.to_flow_label"])
def types_flow_label(t: EnumOf(TlvType), v: BytesLen(0, 255), suffix: Bytes):
    requires(t != TlvType.FLOW_LABEL)
    type_safety_clauses(outcome(FlowLabelTlv.unpack, tlv(t, v) + suffix), outcome(FlowLabelTlv.from_tlv, CfdpTlv(t, v)),
                        outcome(TlvHolder(CfdpTlv(t, v)).to_flow_label))


@obligation(["C08"], "type-safety/MessageToUserTlv", verifies=[U + "MessageToUserTlv.unpack", U + "MessageToUserTlv.from_tlv",
                                                               H + "TlvHolder.to_msg_to_user", B + "AbstractTlvBase.check_type"])
def types_msg_to_user(t: EnumOf(TlvType), v: BytesLen(0, 255), suffix: Bytes):
    requires(t != TlvType.MESSAGE_TO_USER)
    type_safety_clauses(outcome(MessageToUserTlv.unpack, tlv(t, v) + suffix), outcome(MessageToUserTlv.from_tlv, CfdpTlv(t, v)),
                        outcome(TlvHolder(CfdpTlv(t, v)).to_msg_to_user))


@obligation(["C08"], "type-safety/FaultHandlerOverrideTlv", verifies=[T + "FaultHandlerOverrideTlv.unpack", T + "FaultHandlerOverrideTlv.from_tlv",
                                                                      H + "TlvHolder.to_fault_handler_override", B + "AbstractTlvBase.check_type"])
def types_fault_handler(t: EnumOf(TlvType), v: BytesLen(0, 255), suffix: Bytes):
    requires(t != TlvType.FAULT_HANDLER)
    type_safety_clauses(outcome(FaultHandlerOverrideTlv.unpack, tlv(t, v) + suffix), outcome(FaultHandlerOverrideTlv.from_tlv, CfdpTlv(t, v)),
                        outcome(TlvHolder(CfdpTlv(t, v)).to_fault_handler_override))


@obligation(["C08"], "type-safety/FileStoreRequestTlv", verifies=[T + "FileStoreRequestTlv.unpack", T + "FileStoreRequestTlv.from_tlv",
                                                                  H + "TlvHolder.to_fs_request", T + "FileStoreRequestBase._check_raw_tlv_field"])
def types_fs_request(t: EnumOf(TlvType), v: BytesLen(0, 255), suffix: Bytes):
    requires(t != TlvType.FILESTORE_REQUEST)
    type_safety_clauses(outcome(FileStoreRequestTlv.unpack, tlv(t, v) + suffix), outcome(FileStoreRequestTlv.from_tlv, CfdpTlv(t, v)),
                        outcome(TlvHolder(CfdpTlv(t, v)).to_fs_request))


@obligation(["C08"], "type-safety/FileStoreResponseTlv", verifies=[T + "FileStoreResponseTlv.unpack", T + "FileStoreResponseTlv.from_tlv",
                                                                   H + "TlvHolder.to_fs_response", T + "FileStoreRequestBase._check_raw_tlv_field"])
def types_fs_response(t: EnumOf(TlvType), v: BytesLen(0, 255), suffix: Bytes):
    requires(t != TlvType.FILESTORE_RESPONSE)
    type_safety_clauses(outcome(FileStoreResponseTlv.unpack, tlv(t, v) + suffix), outcome(FileStoreResponseTlv.from_tlv, CfdpTlv(t, v)),
                        outcome(TlvHolder(CfdpTlv(t, v)).to_fs_response))


# ------------------------------------------------------------------------------------------------ TlvHolder

def concrete_tlv(k, v, name):
    """an instance of the concrete class with type code k (built with the public constructors)"""
    if k == 0:
        return FileStoreRequestTlv(FilestoreActionCode.RENAME_FILE_SNP, name, name)
    if k == 1:
        return FileStoreResponseTlv(FilestoreActionCode.DELETE_FILE_SNN, FilestoreResponseStatusCode.DELETE_SUCCESS, name)
    if k == 2:
        return MessageToUserTlv(v)
    if k == 4:
        return FaultHandlerOverrideTlv(ConditionCode.FILE_SIZE_ERROR, FaultHandlerCode.ABANDON_TRANSACTION)
    if k == 5:
        return FlowLabelTlv(v)
    return EntityIdTlv(v)


def holder_cast_clauses(label, o, inst, same_kind):
    """a holder of a concrete TLV object hands out that very object for its own kind and refuses every other kind"""
    if same_kind:
        ensures(label + "-own-kind", o.ok)
        if o.ok:
            ensures(label + "-same-object", is_same(o.value, inst))
    else:
        ensures(label + "-other-kind-refused", o.raised(TypeError, TlvTypeMissmatch))


@obligation(["C08"], "TlvHolder/concrete", verifies=[H + "TlvHolder.to_fs_request", H + "TlvHolder.to_fs_response", H + "TlvHolder.to_msg_to_user",
                                                     H + "TlvHolder.to_fault_handler_override", H + "TlvHolder.to_flow_label",
                                                     H + "TlvHolder.to_entity_id", H + "TlvHolder.tlv_type"])
def holder_concrete(k: Choice(0, 1, 2, 4, 5, 6), v: BytesLen(0, 255), name: StrLen(100)):
    inst = concrete_tlv(k, v, name)
    h = TlvHolder(inst)
    ensures("tlv_type", h.tlv_type == k)
    holder_cast_clauses("fs_request", outcome(h.to_fs_request), inst, k == 0)
    holder_cast_clauses("fs_response", outcome(h.to_fs_response), inst, k == 1)
    holder_cast_clauses("msg_to_user", outcome(h.to_msg_to_user), inst, k == 2)
    holder_cast_clauses("fault_handler", outcome(h.to_fault_handler_override), inst, k == 4)
    holder_cast_clauses("flow_label", outcome(h.to_flow_label), inst, k == 5)
    holder_cast_clauses("entity_id", outcome(h.to_entity_id), inst, k == 6)


@obligation(["C08"], "TlvHolder/generic", verifies=[H + "TlvHolder.to_fs_request", H + "TlvHolder.to_fs_response", H + "TlvHolder.to_msg_to_user",
                                                    H + "TlvHolder.to_fault_handler_override", H + "TlvHolder.to_flow_label",
                                                    H + "TlvHolder.to_entity_id"])
def holder_generic(k: Choice(0, 1, 2, 4, 5, 6), v: BytesLen(0, 255), name: StrLen(100)):
    """a holder of the generic TLV decoded from the octets of a concrete TLV converts to an equal concrete TLV"""
    inst = concrete_tlv(k, v, name)
    raw = inst.pack()
    h = TlvHolder(CfdpTlv.unpack(raw))
    ensures("tlv_type", h.tlv_type == k)
    if k == 0:
        o = outcome(h.to_fs_request)
    elif k == 1:
        o = outcome(h.to_fs_response)
    elif k == 2:
        o = outcome(h.to_msg_to_user)
    elif k == 4:
        o = outcome(h.to_fault_handler_override)
    elif k == 5:
        o = outcome(h.to_flow_label)
    else:
        o = outcome(h.to_entity_id)
    ensures("converted", o.ok)
    if o.ok:
        ensures("kind", kind_of(o.value) == kind_of(inst))
        ensures("same-octets", both(o.value.pack() == raw, o.value.value == inst.value, o.value.tlv_type == k, o.value.packet_len == len(raw)))
    # the same holder, AFTER it has converted once: every other kind is still refused and the own kind converts again
    convs = [(0, h.to_fs_request), (1, h.to_fs_response), (2, h.to_msg_to_user), (4, h.to_fault_handler_override), (5, h.to_flow_label),
             (6, h.to_entity_id)]
    for kk, conv in convs:
        o2 = outcome(conv)
        if kk == k:
            ensures("converts-again", o2.ok)
            if o2.ok:
                ensures("converts-again-same", both(kind_of(o2.value) == kind_of(inst), o2.value.pack() == raw))
        else:
            ensures("other-kind-refused-after-use", o2.raised(TypeError, TlvTypeMissmatch))


# ------------------------------------------------------------------------------------------------ status-code helpers

@obligation(["C08"], "map_int_status_code_to_enum", verifies=[T + "map_int_status_code_to_enum"])
def status_int_to_enum(action: EnumOf(FilestoreActionCode), status: IntRange(0, 15)):
    """total over every (action code, 4-bit status) pair: the member with that octet value, else INVALID"""
    o = outcome(map_int_status_code_to_enum, action, status)
    ensures("total", o.ok)
    if o.ok:
        m = outcome(FilestoreResponseStatusCode, action * 16 + status)
        ensures("kind", kind_of(o.value) == "FilestoreResponseStatusCode")
        ensures("member-iff-defined", (o.value == action * 16 + status) == m.ok)
        ensures("else-invalid", implies(not m.ok, o.value == FilestoreResponseStatusCode.INVALID))


@obligation(["C08"], "map_enum_status_code", verifies=[T + "map_enum_status_code_to_int", T + "map_enum_status_code_to_action_status_code"])
def status_enum_to_int(code: EnumOf(FilestoreResponseStatusCode)):
    o = outcome(map_enum_status_code_to_action_status_code, code)
    ensures("raises-only", o.ok or o.raised(ValueError))
    ensures("ok-iff-action-defined", o.ok == both(code >= 0, fs_action_known(code // 16)))
    if code >= 0:
        ensures("low-nibble", map_enum_status_code_to_int(code) == code % 16)
    if o.ok:
        ensures("pair", both(o.value[0] == code // 16, o.value[1] == code % 16, kind_of(o.value[0]) == "FilestoreActionCode"))
        ensures("inverse", map_int_status_code_to_enum(o.value[0], o.value[1]) == code)
