"""C08 - CFDP TLV and LV items (spacepackets/cfdp/lv.py, cfdp/tlv/tlv.py, base.py, holder.py, msg_to_user.py)."""
from pyvc_spec import *
from spec_cfdp import (tlv, lv, fs_second_name, fs_request_octets, fs_response_octets, fault_handler_octets, flow_label_octets,
                       entity_id_octets, msg_to_user_octets, tlv_type_known, fs_action_known)
from spacepackets.exceptions import BytesTooShortError
from spacepackets.cfdp.exceptions import TlvTypeMissmatch
from spacepackets.cfdp.defs import ConditionCode, FaultHandlerCode
from spacepackets.cfdp.lv import CfdpLv
from spacepackets.cfdp.tlv.defs import TlvType, FilestoreActionCode, FilestoreResponseStatusCode
from spacepackets.cfdp.tlv.tlv import (CfdpTlv, EntityIdTlv, FlowLabelTlv, FaultHandlerOverrideTlv, FileStoreRequestTlv,
                                       FileStoreResponseTlv, map_enum_status_code_to_int, map_int_status_code_to_enum,
                                       map_enum_status_code_to_action_status_code)
from spacepackets.cfdp.tlv.msg_to_user import MessageToUserTlv
from spacepackets.cfdp.tlv.holder import TlvHolder

L = "spacepackets.cfdp.lv:"
T = "spacepackets.cfdp.tlv.tlv:"
B = "spacepackets.cfdp.tlv.base:"
U = "spacepackets.cfdp.tlv.msg_to_user:"
H = "spacepackets.cfdp.tlv.holder:"


# ------------------------------------------------------------------------------------------------ LV

@obligation(["C08"], "CfdpLv.pack", verifies=[L + "CfdpLv.__init__", L + "CfdpLv.pack", L + "CfdpLv.packet_len"])
def lv_pack(value: Bytes):
    o = outcome(CfdpLv, value)
    ensures("valueerror-iff", o.raised(ValueError) == (len(value) > 255))
    ensures("raises-only", o.ok or o.raised(ValueError))
    if o.ok:
        r = o.value.pack()
        ensures("layout", r == lv(value))
        ensures("packet_len", both(o.value.packet_len == len(r), o.value.packet_len == len(value) + 1))
        ensures("value", both(o.value.value == value, o.value.value_len == len(value)))
        ensures("pack-twice", o.value.pack() == r)


@obligation(["C08", "C09", "C10"], "CfdpLv.unpack", verifies=[L + "CfdpLv.unpack"])
def lv_unpack(data: Bytes):
    o = outcome(CfdpLv.unpack, data)
    ensures("raises-only", o.ok or o.raised(ValueError))
    if len(data) == 0:
        ensures("empty-refused", o.raised(ValueError))
    else:
        n = data[0]
        ensures("ok-iff-complete", o.ok == (len(data) >= n + 1))
        if o.ok:
            ensures("value", o.value.value == data[1:1 + n])
            ensures("packet_len", o.value.packet_len == n + 1)
            ensures("repack", o.value.pack() == data[0:1 + n])
            ensures("prefix-only", same_state(o.value, CfdpLv.unpack(data[0:1 + n])))


@obligation(["C08", "C09", "C10"], "CfdpLv/roundtrip", verifies=[L + "CfdpLv.unpack", L + "CfdpLv.__eq__"])
def lv_roundtrip(value: BytesLen(0, 255), suffix: Bytes, cut: Int):
    a = CfdpLv(value)
    raw = a.pack()
    o = outcome(CfdpLv.unpack, raw + suffix)
    ensures("accepted", o.ok)
    if o.ok:
        ensures("equal", both(o.value == a, o.value.value == value))
        ensures("consumes-length-plus-1", o.value.packet_len == len(value) + 1)
        ensures("repack", o.value.pack() == raw)
    requires(0 <= cut)
    requires(cut < len(raw))
    p = outcome(CfdpLv.unpack, raw[0:cut])
    ensures("strict-prefix-refused", p.raised(ValueError))


@obligation(["C08"], "CfdpLv.from_str", verifies=[L + "CfdpLv.from_str"])
def lv_from_str(name: Str):
    o = outcome(CfdpLv.from_str, name)
    ensures("valueerror-iff", o.raised(ValueError) == (len(name.encode()) > 255))
    if o.ok:
        ensures("layout", o.value.pack() == lv(name.encode()))
        ensures("packet_len", o.value.packet_len == len(name.encode()) + 1)


# ------------------------------------------------------------------------------------------------ generic TLV

@obligation(["C08"], "CfdpTlv.pack", verifies=[T + "CfdpTlv.__init__", T + "CfdpTlv.pack", T + "CfdpTlv.packet_len"])
def tlv_pack(t: EnumOf(TlvType), value: Bytes):
    o = outcome(CfdpTlv, t, value)
    ensures("valueerror-iff", o.raised(ValueError) == (len(value) > 255))
    ensures("raises-only", o.ok or o.raised(ValueError))
    if o.ok:
        r = o.value.pack()
        ensures("layout", r == tlv(t, value))
        ensures("packet_len", both(o.value.packet_len == len(r), o.value.packet_len == len(value) + 2))
        ensures("views", both(o.value.tlv_type == t, o.value.value == value))
        ensures("pack-twice", o.value.pack() == r)


@obligation(["C08", "C09", "C10"], "CfdpTlv.unpack", verifies=[T + "CfdpTlv.unpack"])
def tlv_unpack(data: Bytes):
    o = outcome(CfdpTlv.unpack, data)
    ensures("raises-only", o.ok or o.raised(ValueError))
    if len(data) < 2:
        ensures("short-refused", o.raised(BytesTooShortError))
    else:
        n = data[1]
        ensures("ok-iff", o.ok == both(tlv_type_known(data[0]), len(data) >= n + 2))
        ensures("incomplete-refused", implies(len(data) < n + 2, o.raised(ValueError)))
        if o.ok:
            ensures("type", o.value.tlv_type == data[0])
            ensures("value", o.value.value == data[2:2 + n])
            ensures("packet_len", o.value.packet_len == n + 2)
            ensures("repack", o.value.pack() == data[0:2 + n])
            ensures("prefix-only", same_state(o.value, CfdpTlv.unpack(data[0:2 + n])))


@obligation(["C08", "C09", "C10"], "CfdpTlv/roundtrip", verifies=[T + "CfdpTlv.unpack", B + "AbstractTlvBase.__eq__"])
def tlv_roundtrip(t: EnumOf(TlvType), value: BytesLen(0, 255), suffix: Bytes, cut: Int):
    a = CfdpTlv(t, value)
    raw = a.pack()
    o = outcome(CfdpTlv.unpack, raw + suffix)
    ensures("accepted", o.ok)
    if o.ok:
        ensures("equal", both(o.value == a, o.value.tlv_type == t, o.value.value == value))
        ensures("consumes-length-plus-2", o.value.packet_len == len(value) + 2)
        ensures("repack", o.value.pack() == raw)
    requires(0 <= cut)
    requires(cut < len(raw))
    p = outcome(CfdpTlv.unpack, raw[0:cut])
    ensures("strict-prefix-refused", p.raised(ValueError))


# ------------------------------------------------------------------------------------------------ octet-valued concrete TLVs
# entity ID (06), flow label (05), message to user (02): value = the caller's octets

@obligation(["C08"], "EntityIdTlv.pack", verifies=[T + "EntityIdTlv.__init__", T + "EntityIdTlv.pack", T + "EntityIdTlv.packet_len"])
def entity_id_pack(v: Bytes):
    o = outcome(EntityIdTlv, v)
    ensures("valueerror-iff", o.raised(ValueError) == (len(v) > 255))
    ensures("raises-only", o.ok or o.raised(ValueError))
    if o.ok:
        r = o.value.pack()
        ensures("layout", r == entity_id_octets(v))
        ensures("packet_len", o.value.packet_len == len(r))
        ensures("views", both(o.value.tlv_type == TlvType.ENTITY_ID, o.value.value == v))
        ensures("pack-twice", o.value.pack() == r)


@obligation(["C08"], "FlowLabelTlv.pack", verifies=[T + "FlowLabelTlv.__init__", T + "FlowLabelTlv.pack", T + "FlowLabelTlv.packet_len"])
def flow_label_pack(v: Bytes):
    o = outcome(FlowLabelTlv, v)
    ensures("valueerror-iff", o.raised(ValueError) == (len(v) > 255))
    ensures("raises-only", o.ok or o.raised(ValueError))
    if o.ok:
        r = o.value.pack()
        ensures("layout", r == flow_label_octets(v))
        ensures("packet_len", o.value.packet_len == len(r))
        ensures("views", both(o.value.tlv_type == TlvType.FLOW_LABEL, o.value.value == v))
        ensures("pack-twice", o.value.pack() == r)


@obligation(["C08"], "MessageToUserTlv.pack", verifies=[U + "MessageToUserTlv.__init__", U + "MessageToUserTlv.pack",
                                                         U + "MessageToUserTlv.packet_len"])
def msg_to_user_pack(v: Bytes):
    o = outcome(MessageToUserTlv, v)
    ensures("valueerror-iff", o.raised(ValueError) == (len(v) > 255))
    ensures("raises-only", o.ok or o.raised(ValueError))
    if o.ok:
        r = o.value.pack()
        ensures("layout", r == msg_to_user_octets(v))
        ensures("packet_len", o.value.packet_len == len(r))
        ensures("views", both(o.value.tlv_type == TlvType.MESSAGE_TO_USER, o.value.value == v))
        ensures("pack-twice", o.value.pack() == r)


def octet_tlv_unpack_clauses(o, data, t):
    """post-condition of K.unpack(data) for the three classes whose value is passed through; t = type code of K"""
    ensures("raises-only", o.ok or o.raised(ValueError, TlvTypeMissmatch))
    if len(data) < 2:
        ensures("short-refused", o.raised(BytesTooShortError))
    else:
        n = data[1]
        ensures("ok-iff", o.ok == both(data[0] == t, len(data) >= n + 2))
        ensures("incomplete-refused", implies(len(data) < n + 2, o.raised(ValueError)))
        ensures("foreign-type-refused", implies(both(tlv_type_known(data[0]), data[0] != t, len(data) >= n + 2),
                                                o.raised(TlvTypeMissmatch)))
        if o.ok:
            ensures("type", o.value.tlv_type == t)
            ensures("value", o.value.value == data[2:2 + n])
            ensures("packet_len", o.value.packet_len == n + 2)
            ensures("repack", o.value.pack() == data[0:2 + n])


@obligation(["C08", "C09", "C10"], "EntityIdTlv.unpack", verifies=[T + "EntityIdTlv.unpack", B + "AbstractTlvBase.check_type"])
def entity_id_unpack(data: Bytes):
    o = outcome(EntityIdTlv.unpack, data)
    octet_tlv_unpack_clauses(o, data, 6)
    if o.ok:
        ensures("prefix-only", same_state(o.value, EntityIdTlv.unpack(data[0:2 + data[1]])))


@obligation(["C08", "C09", "C10"], "FlowLabelTlv.unpack", verifies=[T + "FlowLabelTlv.unpack"])
def flow_label_unpack(data: Bytes):
    o = outcome(FlowLabelTlv.unpack, data)
    octet_tlv_unpack_clauses(o, data, 5)
    if o.ok:
        ensures("prefix-only", same_state(o.value, FlowLabelTlv.unpack(data[0:2 + data[1]])))


@obligation(["C08", "C09", "C10"], "MessageToUserTlv.unpack", verifies=[U + "MessageToUserTlv.unpack", B + "AbstractTlvBase.check_type"])
def msg_to_user_unpack(data: Bytes):
    o = outcome(MessageToUserTlv.unpack, data)
    octet_tlv_unpack_clauses(o, data, 2)
    if o.ok:
        ensures("prefix-only", same_state(o.value, MessageToUserTlv.unpack(data[0:2 + data[1]])))


@obligation(["C08", "C09", "C10"], "EntityIdTlv/roundtrip", verifies=[T + "EntityIdTlv.unpack", T + "EntityIdTlv.from_tlv", T + "EntityIdTlv.__eq__"])
def entity_id_roundtrip(v: BytesLen(0, 255), suffix: Bytes, cut: Int):
    a = EntityIdTlv(v)
    raw = a.pack()
    o = outcome(EntityIdTlv.unpack, raw + suffix)
    ensures("accepted", o.ok)
    if o.ok:
        ensures("same-parameters", both(o.value.value == v, o.value.tlv_type == TlvType.ENTITY_ID, o.value.packet_len == len(raw)))
        ensures("repack", o.value.pack() == raw)
        if either(len(v) == 1, len(v) == 2, len(v) == 4, len(v) == 8):
            ensures("equal", o.value == a)
    c = EntityIdTlv.from_tlv(CfdpTlv.unpack(raw + suffix))
    ensures("from_tlv", both(c.value == v, c.pack() == raw, c.packet_len == len(raw)))
    requires(0 <= cut)
    requires(cut < len(raw))
    ensures("strict-prefix-refused", outcome(EntityIdTlv.unpack, raw[0:cut]).raised(ValueError))


@obligation(["C08", "C09", "C10"], "FlowLabelTlv/roundtrip", verifies=[T + "FlowLabelTlv.unpack", T + "FlowLabelTlv.from_tlv"])
def flow_label_roundtrip(v: BytesLen(0, 255), suffix: Bytes, cut: Int):
    a = FlowLabelTlv(v)
    raw = a.pack()
    o = outcome(FlowLabelTlv.unpack, raw + suffix)
    ensures("accepted", o.ok)
    if o.ok:
        ensures("same-parameters", both(o.value.value == v, o.value.tlv_type == TlvType.FLOW_LABEL, o.value.packet_len == len(raw)))
        ensures("repack", o.value.pack() == raw)
        ensures("equal", o.value == a)
    c = FlowLabelTlv.from_tlv(CfdpTlv.unpack(raw + suffix))
    ensures("from_tlv", both(c.value == v, c.pack() == raw, c.packet_len == len(raw), c == a))
    requires(0 <= cut)
    requires(cut < len(raw))
    ensures("strict-prefix-refused", outcome(FlowLabelTlv.unpack, raw[0:cut]).raised(ValueError))


@obligation(["C08", "C09", "C10"], "MessageToUserTlv/roundtrip", verifies=[U + "MessageToUserTlv.unpack", U + "MessageToUserTlv.from_tlv"])
def msg_to_user_roundtrip(v: BytesLen(0, 255), suffix: Bytes, cut: Int):
    a = MessageToUserTlv(v)
    raw = a.pack()
    o = outcome(MessageToUserTlv.unpack, raw + suffix)
    ensures("accepted", o.ok)
    if o.ok:
        ensures("same-parameters", both(o.value.value == v, o.value.tlv_type == TlvType.MESSAGE_TO_USER, o.value.packet_len == len(raw)))
        ensures("repack", o.value.pack() == raw)
        ensures("equal", o.value == a)
    c = MessageToUserTlv.from_tlv(CfdpTlv.unpack(raw + suffix))
    ensures("from_tlv", both(c.value == v, c.pack() == raw, c.packet_len == len(raw), c == a))
    requires(0 <= cut)
    requires(cut < len(raw))
    ensures("strict-prefix-refused", outcome(MessageToUserTlv.unpack, raw[0:cut]).raised(ValueError))


# ------------------------------------------------------------------------------------------------ fault handler override (04)

@obligation(["C08"], "FaultHandlerOverrideTlv.pack", verifies=[T + "FaultHandlerOverrideTlv.__init__", T + "FaultHandlerOverrideTlv.pack",
                                                                T + "FaultHandlerOverrideTlv.packet_len"])
def fault_handler_pack(cc: EnumOf(ConditionCode), hc: EnumOf(FaultHandlerCode)):
    o = outcome(FaultHandlerOverrideTlv, cc, hc)
    # the condition code field has 4 bits; NO_CONDITION_FIELD (-1) is the library's marker for "no such field"
    ensures("valueerror-iff", o.raised(ValueError) == (cc == ConditionCode.NO_CONDITION_FIELD))
    ensures("raises-only", o.ok or o.raised(ValueError))
    if o.ok:
        r = o.value.pack()
        ensures("layout", r == fault_handler_octets(cc, hc))
        ensures("packet_len", both(o.value.packet_len == len(r), o.value.packet_len == 3))
        ensures("views", both(o.value.tlv_type == TlvType.FAULT_HANDLER, o.value.value == be(1, cc * 16 + hc),
                              o.value.condition_code == cc, o.value.handler_code == hc))
        ensures("pack-twice", o.value.pack() == r)


@obligation(["C08", "C09", "C10"], "FaultHandlerOverrideTlv.unpack", verifies=[T + "FaultHandlerOverrideTlv.unpack", B + "AbstractTlvBase.check_type"])
def fault_handler_unpack(data: Bytes):
    o = outcome(FaultHandlerOverrideTlv.unpack, data)
    ensures("raises-only", o.ok or o.raised(ValueError, TlvTypeMissmatch))
    if len(data) < 2:
        ensures("short-refused", o.raised(BytesTooShortError))
    else:
        n = data[1]
        ensures("incomplete-refused", implies(len(data) < n + 2, o.raised(ValueError)))
        ensures("foreign-type-refused", implies(both(tlv_type_known(data[0]), data[0] != 4, len(data) >= n + 2),
                                                o.raised(TlvTypeMissmatch)))
        ensures("empty-value-refused", implies(n == 0, not o.ok))
        ensures("accepted", implies(both(data[0] == 4, n == 1, len(data) >= 3), o.ok))
        if o.ok:
            ensures("type", both(data[0] == 4, o.value.tlv_type == TlvType.FAULT_HANDLER))
            ensures("fields", both(o.value.condition_code == bits(data[2], 7, 4), o.value.handler_code == bits(data[2], 3, 0)))
            ensures("value", o.value.value == data[2:2 + n])
            ensures("packet_len", o.value.packet_len == n + 2)
            ensures("repack", o.value.pack() == data[0:2 + n])
            ensures("prefix-only", same_state(o.value, FaultHandlerOverrideTlv.unpack(data[0:2 + n])))


@obligation(["C08", "C10"], "FaultHandlerOverrideTlv.from_tlv/any", verifies=[T + "FaultHandlerOverrideTlv.from_tlv"])
def fault_handler_from_tlv_any(t: EnumOf(TlvType), v: BytesLen(0, 255)):
    o = outcome(FaultHandlerOverrideTlv.from_tlv, CfdpTlv(t, v))
    ensures("raises-only", o.ok or o.raised(ValueError, TlvTypeMissmatch))
    ensures("mismatch-iff", o.raised(TlvTypeMissmatch) == (t != TlvType.FAULT_HANDLER))
    ensures("accepted", implies(both(t == TlvType.FAULT_HANDLER, len(v) == 1), o.ok))
    if o.ok:
        ensures("fields", both(o.value.condition_code == bits(v[0], 7, 4), o.value.handler_code == bits(v[0], 3, 0),
                               o.value.value == v, o.value.tlv_type == TlvType.FAULT_HANDLER))


@obligation(["C08", "C09", "C10"], "FaultHandlerOverrideTlv/roundtrip", verifies=[T + "FaultHandlerOverrideTlv.unpack", T + "FaultHandlerOverrideTlv.from_tlv"])
def fault_handler_roundtrip(cc: EnumOf(ConditionCode), hc: EnumOf(FaultHandlerCode), suffix: Bytes, cut: IntRange(0, 2)):
    requires(cc != ConditionCode.NO_CONDITION_FIELD)
    a = FaultHandlerOverrideTlv(cc, hc)
    raw = a.pack()
    o = outcome(FaultHandlerOverrideTlv.unpack, raw + suffix)
    ensures("accepted", o.ok)
    if o.ok:
        ensures("same-parameters", both(o.value.condition_code == cc, o.value.handler_code == hc, o.value.packet_len == 3))
        ensures("repack", o.value.pack() == raw)
        ensures("equal", o.value == a)
    c = FaultHandlerOverrideTlv.from_tlv(CfdpTlv.unpack(raw + suffix))
    ensures("from_tlv", both(c.condition_code == cc, c.handler_code == hc, c.pack() == raw, c.packet_len == 3, c == a))
    ensures("strict-prefix-refused", outcome(FaultHandlerOverrideTlv.unpack, raw[0:cut]).raised(ValueError))
