"""C12 - PDU factory and holder (spacepackets/cfdp/pdu/helper.py)."""
from pyvc_spec import *
from spec_cfdp import pdu_header_octets
from spec_cfdp_dir_a import (raw_header_len, fss_max, DC_EOF, DC_FINISHED, DC_ACK, DC_METADATA, DC_NAK, DC_PROMPT, DC_KEEP_ALIVE)
from cfdp_common import mk_conf, ids_in_range, W
from spacepackets.exceptions import BytesTooShortError
from spacepackets.cfdp.defs import (PduType, Direction, TransmissionMode, CrcFlag, LargeFileFlag, SegmentationControl,
                                    UnsupportedCfdpVersion, ConditionCode, ChecksumType)
from spacepackets.cfdp.exceptions import InvalidCrc, TlvTypeMissmatch
from spacepackets.cfdp.tlv.tlv import EntityIdTlv
from spacepackets.cfdp.pdu.header import AbstractPduBase
from spacepackets.cfdp.pdu.file_directive import DirectiveType
from spacepackets.cfdp.pdu.eof import EofPdu
from spacepackets.cfdp.pdu.ack import AckPdu, TransactionStatus
from spacepackets.cfdp.pdu.prompt import PromptPdu, ResponseRequired
from spacepackets.cfdp.pdu.keep_alive import KeepAlivePdu
from spacepackets.cfdp.pdu.finished import FinishedPdu, FinishedParams, DeliveryCode, FileStatus
from spacepackets.cfdp.pdu.metadata import MetadataPdu, MetadataParams
from spacepackets.cfdp.pdu.nak import NakPdu
from spacepackets.cfdp.pdu.file_data import FileDataPdu, FileDataParams
from spacepackets.cfdp.pdu.helper import PduFactory, PduHolder

P = "spacepackets.cfdp.pdu."
H = P + "helper:"
UNPACKS = [P + "eof:EofPdu.unpack", P + "finished:FinishedPdu.unpack", P + "ack:AckPdu.unpack", P + "metadata:MetadataPdu.unpack",
           P + "nak:NakPdu.unpack", P + "prompt:PromptPdu.unpack", P + "keep_alive:KeepAlivePdu.unpack",
           P + "file_data:FileDataPdu.unpack"]
FACTORY = [H + "PduFactory.from_raw", H + "PduFactory.from_raw_to_holder", H + "PduFactory.pdu_type", H + "PduFactory.is_file_directive",
           H + "PduFactory.pdu_directive_type", P + "header:AbstractPduBase.header_len_from_raw"]


# ------------------------------------------------------------------------------------------------------------------
# Abstraction of the eight decoders for the dispatch obligation: K.unpack(d) is *some* deterministic function of (K, d),
# either a result or a refusal.  Only the dispatch harness runs with these summaries; every other harness of this file
# names the real decoders in `verifies`, which switches the summaries off.  (Native replay always runs the real decoders.)
# ------------------------------------------------------------------------------------------------------------------
class Decoded:
    def __init__(self, kind, data):
        self.kind = kind
        self.data = data


def abstract_unpack(kind, tag, data):
    # an uninterpreted, deterministic verdict "this decoder refuses this octet string"
    if crc16(be(1, tag) + data) >= 32768:
        raise ValueError("refused by the decoder")
    return Decoded(kind, data)


@summary(P + "eof:EofPdu.unpack")
def eof_unpack_abs(cls, data):
    return abstract_unpack("EofPdu", 4, data)


@summary(P + "finished:FinishedPdu.unpack")
def finished_unpack_abs(cls, data):
    return abstract_unpack("FinishedPdu", 5, data)


@summary(P + "ack:AckPdu.unpack")
def ack_unpack_abs(cls, data):
    return abstract_unpack("AckPdu", 6, data)


@summary(P + "metadata:MetadataPdu.unpack")
def metadata_unpack_abs(cls, data):
    return abstract_unpack("MetadataPdu", 7, data)


@summary(P + "nak:NakPdu.unpack")
def nak_unpack_abs(cls, data):
    return abstract_unpack("NakPdu", 8, data)


@summary(P + "prompt:PromptPdu.unpack")
def prompt_unpack_abs(cls, data):
    return abstract_unpack("PromptPdu", 9, data)


@summary(P + "keep_alive:KeepAlivePdu.unpack")
def keep_alive_unpack_abs(cls, data):
    return abstract_unpack("KeepAlivePdu", 12, data)


@summary(P + "file_data:FileDataPdu.unpack")
def file_data_unpack_abs(cls, data):
    return abstract_unpack("FileDataPdu", 0, data)


# ------------------------------------------------------------------------------------------------------------------
# Raw-buffer inspectors
# ------------------------------------------------------------------------------------------------------------------
def valid_directive_code(c):
    return either(c == DC_EOF, c == DC_FINISHED, c == DC_ACK, c == DC_METADATA, c == DC_NAK, c == DC_PROMPT, c == DC_KEEP_ALIVE)


@obligation(["C12", "C10"], "PduFactory.inspectors/any", verifies=FACTORY)
def inspectors_any(data: Bytes):
    """PDU type = octet 0 bit 4 (0 file directive, 1 file data); directive code = the octet after the fixed header, whose
    length octet 3 declares; input too short to hold them is refused with a documented error"""
    t = outcome(PduFactory.pdu_type, data)
    f = outcome(PduFactory.is_file_directive, data)
    d = outcome(PduFactory.pdu_directive_type, data)
    hl = outcome(AbstractPduBase.header_len_from_raw, data)
    ensures("raises-only", both(t.ok or t.raised(ValueError), f.ok or f.raised(ValueError), d.ok or d.raised(ValueError),
                                hl.ok or hl.raised(ValueError)))
    ensures("header-len-iff", iff(hl.ok, len(data) >= 4))
    if hl.ok:
        ensures("header-len", hl.value == raw_header_len(data))
    ensures("type-iff", both(iff(t.ok, len(data) >= 1), iff(f.ok, len(data) >= 1)))
    if len(data) >= 1:
        if t.ok and f.ok:
            ensures("type", both(t.value == bits(data[0], 4, 4), f.value == (bits(data[0], 4, 4) == 0)))
        if bits(data[0], 4, 4) == 1:
            ensures("file-data-has-no-directive", d.ok)
            if d.ok:
                ensures("file-data-directive-none", d.value is None)
        elif len(data) < 4:
            ensures("directive-short-refused", not d.ok)
        else:
            n = raw_header_len(data)
            if len(data) <= n:
                ensures("directive-short-refused", not d.ok)
            else:
                ensures("directive-iff-known-code", iff(d.ok, either(valid_directive_code(data[n]), data[n] == 10)))
                if d.ok:
                    ensures("directive", d.value == data[n])
    else:
        ensures("directive-short-refused", not d.ok)


# ------------------------------------------------------------------------------------------------------------------
# Dispatch: from_raw(d) is exactly K.unpack(d) for the K that octet 0 bit 4 and the directive code select
# ------------------------------------------------------------------------------------------------------------------
def reference_decode(data, code):
    """the decoder the standard's type bit / directive code selects, applied to the same octets (None: no such decoder)"""
    if code == DC_EOF:
        return outcome(EofPdu.unpack, data)
    if code == DC_FINISHED:
        return outcome(FinishedPdu.unpack, data)
    if code == DC_ACK:
        return outcome(AckPdu.unpack, data)
    if code == DC_METADATA:
        return outcome(MetadataPdu.unpack, data)
    if code == DC_NAK:
        return outcome(NakPdu.unpack, data)
    if code == DC_PROMPT:
        return outcome(PromptPdu.unpack, data)
    if code == DC_KEEP_ALIVE:
        return outcome(KeepAlivePdu.unpack, data)
    return None


@obligation(["C12", "C10"], "PduFactory.from_raw/dispatch", verifies=FACTORY)
def from_raw_dispatch(data: Bytes):
    o = outcome(PduFactory.from_raw, data)
    oh = outcome(PduFactory.from_raw_to_holder, data)
    ensures("raises-only", o.ok or o.raised(ValueError, InvalidCrc, UnsupportedCfdpVersion, TlvTypeMissmatch))
    ensures("holder-same-verdict", both(iff(o.ok, oh.ok), exc_kind(o) == exc_kind(oh)))
    if o.ok and oh.ok:
        ensures("holder-holds-result", both(kind_of(oh.value) == "PduHolder", same_state(oh.value.pdu, o.value)))
    ref = None
    if len(data) < 1:
        ensures("short-refused", not o.ok)
    elif bits(data[0], 4, 4) == 1:
        ref = outcome(FileDataPdu.unpack, data)
    elif len(data) < 4:
        ensures("short-refused", not o.ok)
    else:
        n = raw_header_len(data)
        if len(data) <= n:
            ensures("short-refused", not o.ok)
        else:
            ref = reference_decode(data, data[n])
            if ref is None and o.ok:
                ensures("unknown-directive-code-yields-no-pdu", o.value is None)
    if ref is not None:
        ensures("same-verdict-as-selected-decoder", iff(o.ok, ref.ok))
        if o.ok and ref.ok:
            ensures("same-result-as-selected-decoder", both(kind_of(o.value) == kind_of(ref.value), same_state(o.value, ref.value)))
        if not o.ok and not ref.ok:
            ensures("same-error-as-selected-decoder", exc_kind(o) == exc_kind(ref))


# ------------------------------------------------------------------------------------------------------------------
# Factory round trip (real decoders): from_raw(pack(x)) is an instance of exactly x's kind, equal to x, re-packing identically;
# the inspectors report the type and directive code the packed octets carry
# ------------------------------------------------------------------------------------------------------------------
def factory_roundtrip(pdu, kind, ptype, code, we, ws):
    raw = pdu.pack()
    ensures("inspect-type", both(PduFactory.pdu_type(raw) == ptype, PduFactory.is_file_directive(raw) == (ptype == PduType.FILE_DIRECTIVE)))
    if ptype == PduType.FILE_DIRECTIVE:
        ensures("inspect-directive", both(PduFactory.pdu_directive_type(raw) == code, raw[4 + 2 * we + ws] == code))
    else:
        ensures("inspect-directive", PduFactory.pdu_directive_type(raw) is None)
    o = outcome(PduFactory.from_raw, raw)
    ensures("accepted", o.ok)
    if o.ok:
        g = o.value
        ensures("kind", kind_of(g) == kind)
        ensures("equal", both(g == pdu, pdu == g))
        ensures("repack", g.pack() == raw)
        ensures("packet_len", g.packet_len == len(raw))
        h = PduHolder(g)   # from_raw_to_holder(raw) holds exactly from_raw(raw): dispatch obligation
        ensures("holder", both(kind_of(h.pdu) == kind, h.pdu == pdu, h.packet_len == len(raw), h.pdu_type == ptype,
                               h.is_file_directive == (ptype == PduType.FILE_DIRECTIVE)))
        if ptype == PduType.FILE_DIRECTIVE:
            ensures("holder-directive", h.pdu_directive_type == code)
        else:
            ensures("holder-directive", h.pdu_directive_type is None)


@obligation(["C12"], "PduFactory/roundtrip[Prompt]", verifies=FACTORY + UNPACKS)
def factory_rt_prompt(direction: EnumOf(Direction), mode: EnumOf(TransmissionMode), crc: EnumOf(CrcFlag), large: EnumOf(LargeFileFlag),
                      segctrl: EnumOf(SegmentationControl), we: W, ws: W, src: Int, seq: Int, dst: Int, resp: EnumOf(ResponseRequired)):
    requires(ids_in_range(we, ws, src, seq, dst))
    conf = mk_conf(we, ws, src, seq, dst, mode, crc, large, direction, segctrl)
    factory_roundtrip(PromptPdu(conf, resp), "PromptPdu", PduType.FILE_DIRECTIVE, DirectiveType.PROMPT_PDU, we, ws)


@obligation(["C12"], "PduFactory/roundtrip[Ack]", verifies=FACTORY + UNPACKS)
def factory_rt_ack(direction: EnumOf(Direction), mode: EnumOf(TransmissionMode), crc: EnumOf(CrcFlag), large: EnumOf(LargeFileFlag),
                   segctrl: EnumOf(SegmentationControl), we: W, ws: W, src: Int, seq: Int, dst: Int,
                   acked: Choice(4, 5), cc: EnumOf(ConditionCode), status: EnumOf(TransactionStatus)):
    requires(ids_in_range(we, ws, src, seq, dst))
    requires(cc != ConditionCode.NO_CONDITION_FIELD)
    conf = mk_conf(we, ws, src, seq, dst, mode, crc, large, direction, segctrl)
    factory_roundtrip(AckPdu(conf, DirectiveType(acked), cc, status), "AckPdu", PduType.FILE_DIRECTIVE, DirectiveType.ACK_PDU, we, ws)


@obligation(["C12"], "PduFactory/roundtrip[KeepAlive]", verifies=FACTORY + UNPACKS)
def factory_rt_keep_alive(direction: EnumOf(Direction), mode: EnumOf(TransmissionMode), crc: EnumOf(CrcFlag), large: EnumOf(LargeFileFlag),
                          segctrl: EnumOf(SegmentationControl), we: W, ws: W, src: Int, seq: Int, dst: Int, progress: Int):
    requires(ids_in_range(we, ws, src, seq, dst))
    requires(both(0 <= progress, progress < fss_max(large)))
    conf = mk_conf(we, ws, src, seq, dst, mode, crc, large, direction, segctrl)
    factory_roundtrip(KeepAlivePdu(conf, progress), "KeepAlivePdu", PduType.FILE_DIRECTIVE, DirectiveType.KEEP_ALIVE_PDU, we, ws)


def factory_rt_eof_body(direction, mode, crc, large, segctrl, we, ws, src, seq, dst, cc, checksum, size, with_fault_location, fid):
    """all header widths (they decide where the directive code sits); the fault location, if any, is a 2-octet entity ID (every
    fault-location width is covered by C06 EofPdu/pack-roundtrip, and from_raw adds nothing to EofPdu.unpack: dispatch obligation)"""
    requires(ids_in_range(we, ws, src, seq, dst))
    requires(cc != ConditionCode.NO_CONDITION_FIELD)
    requires(both(0 <= size, size < fss_max(large)))
    conf = mk_conf(we, ws, src, seq, dst, mode, crc, large, direction, segctrl)
    loc = None
    if with_fault_location:
        loc = EntityIdTlv(be(2, fid))
    factory_roundtrip(EofPdu(conf, checksum, size, loc, cc), "EofPdu", PduType.FILE_DIRECTIVE, DirectiveType.EOF_PDU, we, ws)


@obligation(["C12"], "PduFactory/roundtrip[Eof,no-crc]", verifies=FACTORY + UNPACKS)
def factory_rt_eof_nocrc(direction: EnumOf(Direction), mode: EnumOf(TransmissionMode), large: EnumOf(LargeFileFlag),
                         segctrl: EnumOf(SegmentationControl), we: W, ws: W, src: Int, seq: Int, dst: Int,
                         cc: EnumOf(ConditionCode), checksum: BytesLen(4, 4), size: Int, with_fault_location: Bool, fid: IntRange(0, 65535)):
    factory_rt_eof_body(direction, mode, CrcFlag.NO_CRC, large, segctrl, we, ws, src, seq, dst, cc, checksum, size, with_fault_location, fid)


@obligation(["C12"], "PduFactory/roundtrip[Eof,crc]", verifies=FACTORY + UNPACKS)
def factory_rt_eof_crc(direction: EnumOf(Direction), mode: EnumOf(TransmissionMode), large: EnumOf(LargeFileFlag),
                       segctrl: EnumOf(SegmentationControl), we: W, ws: W, src: Int, seq: Int, dst: Int,
                       cc: EnumOf(ConditionCode), checksum: BytesLen(4, 4), size: Int, with_fault_location: Bool, fid: IntRange(0, 65535)):
    factory_rt_eof_body(direction, mode, CrcFlag.WITH_CRC, large, segctrl, we, ws, src, seq, dst, cc, checksum, size, with_fault_location, fid)


# The four kinds whose own contracts live elsewhere (C06 part B, C07): simple instances built with the public constructors, no
# TLV / segment-request lists.  from_raw adds nothing to K.unpack (dispatch obligation), so their full round trips are C06/C07's.
# On this branch their decoders still mis-handle the CRC trailer (defects owned and repaired by C06 part B / C07), so the CRC
# flag is held at NO_CRC here; once those repairs are merged, FOREIGN_CRC can become EnumOf(CrcFlag).
FOREIGN_CRC = Choice(0, 1)   # both CRC flag values (the decoders of the foreign kinds are repaired)


@obligation(["C12"], "PduFactory/roundtrip[Finished]", verifies=FACTORY + UNPACKS)
def factory_rt_finished(direction: EnumOf(Direction), mode: EnumOf(TransmissionMode), crc: FOREIGN_CRC, large: EnumOf(LargeFileFlag),
                        segctrl: EnumOf(SegmentationControl), we: W, ws: W, src: Int, seq: Int, dst: Int,
                        cc: EnumOf(ConditionCode), dc: EnumOf(DeliveryCode), fs: EnumOf(FileStatus)):
    requires(ids_in_range(we, ws, src, seq, dst))
    requires(cc != ConditionCode.NO_CONDITION_FIELD)
    conf = mk_conf(we, ws, src, seq, dst, mode, CrcFlag(crc), large, direction, segctrl)
    params = FinishedParams(condition_code=cc, delivery_code=dc, file_status=fs)
    factory_roundtrip(FinishedPdu(conf, params), "FinishedPdu", PduType.FILE_DIRECTIVE, DirectiveType.FINISHED_PDU, we, ws)


@obligation(["C12"], "PduFactory/roundtrip[Metadata]", verifies=FACTORY + UNPACKS)
def factory_rt_metadata(direction: EnumOf(Direction), mode: EnumOf(TransmissionMode), crc: FOREIGN_CRC, large: EnumOf(LargeFileFlag),
                        segctrl: EnumOf(SegmentationControl), we: W, ws: W, src: Int, seq: Int, dst: Int,
                        closure: Bool, cktype: EnumOf(ChecksumType), size: Int):
    requires(ids_in_range(we, ws, src, seq, dst))
    requires(both(0 <= size, size < fss_max(large)))
    conf = mk_conf(we, ws, src, seq, dst, mode, CrcFlag(crc), large, direction, segctrl)
    params = MetadataParams(closure_requested=closure, checksum_type=cktype, file_size=size, source_file_name=None, dest_file_name=None)
    factory_roundtrip(MetadataPdu(conf, params), "MetadataPdu", PduType.FILE_DIRECTIVE, DirectiveType.METADATA_PDU, we, ws)


@obligation(["C12"], "PduFactory/roundtrip[Nak]", verifies=FACTORY + UNPACKS)
def factory_rt_nak(direction: EnumOf(Direction), mode: EnumOf(TransmissionMode), crc: FOREIGN_CRC, large: EnumOf(LargeFileFlag),
                   segctrl: EnumOf(SegmentationControl), we: W, ws: W, src: Int, seq: Int, dst: Int, start: Int, end: Int):
    requires(ids_in_range(we, ws, src, seq, dst))
    requires(both(0 <= start, start < fss_max(large), 0 <= end, end < fss_max(large)))
    conf = mk_conf(we, ws, src, seq, dst, mode, CrcFlag(crc), large, direction, segctrl)
    factory_roundtrip(NakPdu(conf, start, end), "NakPdu", PduType.FILE_DIRECTIVE, DirectiveType.NAK_PDU, we, ws)


@obligation(["C12"], "PduFactory/roundtrip[FileData]", verifies=FACTORY + UNPACKS)
def factory_rt_file_data(direction: EnumOf(Direction), mode: EnumOf(TransmissionMode), crc: FOREIGN_CRC, large: EnumOf(LargeFileFlag),
                         segctrl: EnumOf(SegmentationControl), we: W, ws: W, src: Int, seq: Int, dst: Int,
                         offset: Int, payload: BytesLen(1, 4096)):
    requires(ids_in_range(we, ws, src, seq, dst))
    requires(both(0 <= offset, offset < fss_max(large)))
    conf = mk_conf(we, ws, src, seq, dst, mode, CrcFlag(crc), large, direction, segctrl)
    factory_roundtrip(FileDataPdu(conf, FileDataParams(file_data=payload, offset=offset)), "FileDataPdu", PduType.FILE_DATA, None, we, ws)


# ------------------------------------------------------------------------------------------------------------------
# Holder: 8 held kinds x 8 typed accessors
# ------------------------------------------------------------------------------------------------------------------
HOLDER = [H + "PduHolder.to_file_data_pdu", H + "PduHolder.to_eof_pdu", H + "PduHolder.to_finished_pdu", H + "PduHolder.to_ack_pdu",
          H + "PduHolder.to_metadata_pdu", H + "PduHolder.to_nak_pdu", H + "PduHolder.to_prompt_pdu", H + "PduHolder.to_keep_alive_pdu",
          H + "PduHolder._cast_to_concrete_file_directive", H + "PduHolder.pdu_type", H + "PduHolder.is_file_directive",
          H + "PduHolder.pdu_directive_type", H + "PduHolder.packet_len"]


def build_kind(kind, conf):
    """kind: 0 file data, else the directive code"""
    if kind == 0:
        return FileDataPdu(conf, FileDataParams(file_data=bytes([1, 2, 3]), offset=7))
    if kind == DC_EOF:
        return EofPdu(conf, bytes([1, 2, 3, 4]), 9)
    if kind == DC_FINISHED:
        return FinishedPdu(conf, FinishedParams.success_params())
    if kind == DC_ACK:
        return AckPdu(conf, DirectiveType.EOF_PDU, ConditionCode.NO_ERROR, TransactionStatus.ACTIVE)
    if kind == DC_METADATA:
        return MetadataPdu(conf, MetadataParams(closure_requested=False, checksum_type=ChecksumType.CRC_32, file_size=5,
                                                source_file_name=None, dest_file_name=None))
    if kind == DC_NAK:
        return NakPdu(conf, 0, 100)
    if kind == DC_PROMPT:
        return PromptPdu(conf, ResponseRequired.KEEP_ALIVE)
    return KeepAlivePdu(conf, 11)


def check_accessor(o, matching, pdu):
    if matching:
        ensures("matching-accessor-returns-held-object", o.ok)
        if o.ok:
            ensures("matching-accessor-identity", is_same(o.value, pdu))
    else:
        ensures("other-accessor-raises-TypeError", o.raised(TypeError))


def use_everything(h):
    """take every view of a holder once (whatever an implementation might cache gets filled)"""
    outcome(h.to_file_data_pdu), outcome(h.to_eof_pdu), outcome(h.to_finished_pdu), outcome(h.to_ack_pdu)
    outcome(h.to_metadata_pdu), outcome(h.to_nak_pdu), outcome(h.to_prompt_pdu), outcome(h.to_keep_alive_pdu)
    h.packet_len, h.pdu_type, h.is_file_directive, h.pdu_directive_type


@obligation(["C12"], "PduHolder/accessor-matrix", verifies=HOLDER)
def holder_matrix(held: Choice(0, 4, 5, 6, 7, 8, 9, 12), mode: EnumOf(TransmissionMode), crc: EnumOf(CrcFlag), large: EnumOf(LargeFileFlag),
                  wh: Choice(1, 8), held_before: Choice(None, 0, 4, 6, 12)):
    conf = mk_conf(wh, wh, 1, 2, 3, mode, crc, large, Direction.TOWARDS_RECEIVER, SegmentationControl.NO_RECORD_BOUNDARIES_PRESERVATION)
    pdu = build_kind(held, conf)
    if held_before is None:
        h = PduHolder(pdu)
    else:
        # a holder that is re-used: it held (and was asked about) another PDU before
        h = PduHolder(build_kind(held_before, conf))
        use_everything(h)
        h.pdu = pdu
    check_accessor(outcome(h.to_file_data_pdu), held == 0, pdu)
    check_accessor(outcome(h.to_eof_pdu), held == DC_EOF, pdu)
    check_accessor(outcome(h.to_finished_pdu), held == DC_FINISHED, pdu)
    check_accessor(outcome(h.to_ack_pdu), held == DC_ACK, pdu)
    check_accessor(outcome(h.to_metadata_pdu), held == DC_METADATA, pdu)
    check_accessor(outcome(h.to_nak_pdu), held == DC_NAK, pdu)
    check_accessor(outcome(h.to_prompt_pdu), held == DC_PROMPT, pdu)
    check_accessor(outcome(h.to_keep_alive_pdu), held == DC_KEEP_ALIVE, pdu)
    ensures("holder-packet_len", both(h.packet_len == pdu.packet_len, h.packet_len == len(pdu.pack())))
    if held == 0:
        ensures("holder-type", both(h.pdu_type == PduType.FILE_DATA, not h.is_file_directive, h.pdu_directive_type is None))
    else:
        ensures("holder-type", both(h.pdu_type == PduType.FILE_DIRECTIVE, h.is_file_directive, h.pdu_directive_type == held))


@obligation(["C12"], "PduHolder/empty", verifies=HOLDER)
def holder_empty():
    h = PduHolder(None)
    ensures("packet_len-zero", h.packet_len == 0)
    ensures("every-accessor-raises-TypeError",
            both(outcome(h.to_file_data_pdu).raised(TypeError), outcome(h.to_eof_pdu).raised(TypeError),
                 outcome(h.to_finished_pdu).raised(TypeError), outcome(h.to_ack_pdu).raised(TypeError),
                 outcome(h.to_metadata_pdu).raised(TypeError), outcome(h.to_nak_pdu).raised(TypeError),
                 outcome(h.to_prompt_pdu).raised(TypeError), outcome(h.to_keep_alive_pdu).raised(TypeError)))
