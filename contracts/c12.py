"""C12 - PDU factory and holder (spacepackets/cfdp/pdu/helper.py)."""
from pyvc_spec import *
from spec_cfdp import pdu_header_octets
from spec_cfdp_dir_a import (raw_header_len, fss_max, DC_EOF, DC_FINISHED, DC_ACK, DC_METADATA, DC_NAK, DC_PROMPT, DC_KEEP_ALIVE)
from cfdp_common import mk_conf, ids_in_range, W
from spacepackets.exceptions import BytesTooShortError
from spacepackets.cfdp.defs import (PduType, Direction, TransmissionMode, CrcFlag, LargeFileFlag, SegmentationControl,
                                    UnsupportedCfdpVersion, ConditionCode, ChecksumType)
from spacepackets.cfdp.exceptions import InvalidCrc, TlvTypeMissmatch
from spacepackets.cfdp.tlv.tlv import EntityIdTlv
from spacepackets.cfdp.pdu.header import AbstractPduBase
from spacepackets.cfdp.pdu.file_directive import DirectiveType
from spacepackets.cfdp.pdu.eof import EofPdu
from spacepackets.cfdp.pdu.ack import AckPdu, TransactionStatus
from spacepackets.cfdp.pdu.prompt import PromptPdu, ResponseRequired
from spacepackets.cfdp.pdu.keep_alive import KeepAlivePdu
from spacepackets.cfdp.pdu.finished import FinishedPdu, FinishedParams, DeliveryCode, FileStatus
from spacepackets.cfdp.pdu.metadata import MetadataPdu, MetadataParams
from spacepackets.cfdp.pdu.nak import NakPdu
from spacepackets.cfdp.pdu.file_data import FileDataPdu, FileDataParams
from spacepackets.cfdp.pdu.helper import PduFactory, PduHolder

P = "spacepackets.cfdp.pdu."
H = P + "helper:"
UNPACKS = [P + "eof:EofPdu.unpack", P + "finished:FinishedPdu.unpack", P + "ack:AckPdu.unpack", P + "metadata:MetadataPdu.unpack",
           P + "nak:NakPdu.unpack", P + "prompt:PromptPdu.unpack", P + "keep_alive:KeepAlivePdu.unpack",
           P + "file_data:FileDataPdu.unpack"]
FACTORY = [H + "PduFactory.from_raw", H + "PduFactory.from_raw_to_holder", H + "PduFactory.pdu_type", H + "PduFactory.is_file_directive",
           H + "PduFactory.pdu_directive_type", P + "header:AbstractPduBase.header_len_from_raw"]


# ------------------------------------------------------------------------------------------------------------------
# Abstraction of the eight decoders for the dispatch obligation: K.unpack(d) is *some* deterministic function of (K, d),
# either a result or a refusal.  Only the dispatch harness runs with these summaries; every other harness of this file
# names the real decoders in `verifies`, which switches the summaries off.  (Native replay always runs the real decoders.)
# ------------------------------------------------------------------------------------------------------------------
class Decoded:
    def __init__(self, kind, data):
        self.kind = kind
        self.data = data


def abstract_unpack(kind, tag, data):
    # an uninterpreted, deterministic verdict "this decoder refuses this octet string"
    if crc16(be(1, tag) + data) >= 32768:
        raise ValueError("refused by the decoder")
    return Decoded(kind, data)


@summary(P + "eof:EofPdu.unpack")
def eof_unpack_abs(cls, data):
    return abstract_unpack("EofPdu", 4, data)


@summary(P + "finished:FinishedPdu.unpack")
def finished_unpack_abs(cls, data):
    return abstract_unpack("FinishedPdu", 5, data)


@summary(P + "ack:AckPdu.unpack")
def ack_unpack_abs(cls, data):
    return abstract_unpack("AckPdu", 6, data)


@summary(P + "metadata:MetadataPdu.unpack")
def metadata_unpack_abs(cls, data):
    return abstract_unpack("MetadataPdu", 7, data)


@summary(P + "nak:NakPdu.unpack")
def nak_unpack_abs(cls, data):
    return abstract_unpack("NakPdu", 8, data)


@summary(P + "prompt:PromptPdu.unpack")
def prompt_unpack_abs(cls, data):
    return abstract_unpack("PromptPdu", 9, data)


@summary(P + "keep_alive:KeepAlivePdu.unpack")
def keep_alive_unpack_abs(cls, data):
    return abstract_unpack("KeepAlivePdu", 12, data)


@summary(P + "file_data:FileDataPdu.unpack")
def file_data_unpack_abs(cls, data):
    return abstract_unpack("FileDataPdu", 0, data)


# ------------------------------------------------------------------------------------------------------------------
# Raw-buffer inspectors
# ------------------------------------------------------------------------------------------------------------------
def valid_directive_code(c):
    return either(c == DC_EOF, c == DC_FINISHED, c == DC_ACK, c == DC_METADATA, c == DC_NAK, c == DC_PROMPT, c == DC_KEEP_ALIVE)


@obligation(["C12", "C10"], "PduFactory.inspectors/any", verifies=FACTORY)
def inspectors_any(data: Bytes):
    """PDU type = octet 0 bit 4 (0 file directive, 1 file data); directive code = the octet after the fixed header, whose
    length octet 3 declares; input too short to hold them is refused with a documented error"""
    t = outcome(PduFactory.pdu_type, data)
    f = outcome(PduFactory.is_file_directive, data)
    d = outcome(PduFactory.pdu_directive_type, data)
    hl = outcome(AbstractPduBase.header_len_from_raw, data)
    ensures("raises-only", both(t.ok or t.raised(ValueError), f.ok or f.raised(ValueError), d.ok or d.raised(ValueError),
                                hl.ok or hl.raised(ValueError)))
    ensures("header-len-iff", iff(hl.ok, len(data) >= 4))
    if hl.ok:
        ensures("header-len", hl.value == raw_header_len(data))
    ensures("type-iff", both(iff(t.ok, len(data) >= 1), iff(f.ok, len(data) >= 1)))
    if len(data) >= 1:
        if t.ok and f.ok:
            ensures("type", both(t.value == bits(data[0], 4, 4), f.value == (bits(data[0], 4, 4) == 0)))
        if bits(data[0], 4, 4) == 1:
            ensures("file-data-has-no-directive", d.ok)
            if d.ok:
                ensures("file-data-directive-none", d.value is None)
        elif len(data) < 4:
            ensures("directive-short-refused", not d.ok)
        else:
            n = raw_header_len(data)
            if len(data) <= n:
                ensures("directive-short-refused", not d.ok)
            else:
                ensures("directive-iff-known-code", iff(d.ok, either(valid_directive_code(data[n]), data[n] == 10)))
                if d.ok:
                    ensures("directive", d.value == data[n])
    else:
        ensures("directive-short-refused", not d.ok)


# ------------------------------------------------------------------------------------------------------------------
# Dispatch: from_raw(d) is exactly K.unpack(d) for the K that octet 0 bit 4 and the directive code select
# ------------------------------------------------------------------------------------------------------------------
def reference_decode(data, code):
    """the decoder the standard's type bit / directive code selects, applied to the same octets (None: no such decoder)"""
    if code == DC_EOF:
        return outcome(EofPdu.unpack, data)
    if code == DC_FINISHED:
        return outcome(FinishedPdu.unpack, data)
    if code == DC_ACK:
        return outcome(AckPdu.unpack, data)
    if code == DC_METADATA:
        return outcome(MetadataPdu.unpack, data)
    if code == DC_NAK:
        return outcome(NakPdu.unpack, data)
    if code == DC_PROMPT:
        return outcome(PromptPdu.unpack, data)
    if code == DC_KEEP_ALIVE:
        return outcome(KeepAlivePdu.unpack, data)
    return None


@obligation(["C12", "C10"], "PduFactory.from_raw/dispatch", verifies=FACTORY)
def from_raw_dispatch(data: Bytes):
    o = outcome(PduFactory.from_raw, data)
    oh = outcome(PduFactory.from_raw_to_holder, data)
    ensures("raises-only", o.ok or o.raised(ValueError, InvalidCrc, UnsupportedCfdpVersion, TlvTypeMissmatch))
    ensures("holder-same-verdict", both(iff(o.ok, oh.ok), exc_kind(o) == exc_kind(oh)))
    if o.ok and oh.ok:
        ensures("holder-holds-result", both(kind_of(oh.value) == "PduHolder", same_state(oh.value.pdu, o.value)))
    ref = None
    if len(data) < 1:
        ensures("short-refused", not o.ok)
    elif bits(data[0], 4, 4) == 1:
        ref = outcome(FileDataPdu.unpack, data)
    elif len(data) < 4:
        ensures("short-refused", not o.ok)
    else:
        n = raw_header_len(data)
        if len(data) <= n:
            ensures("short-refused", not o.ok)
        else:
            ref = reference_decode(data, data[n])
            if ref is None and o.ok:
                ensures("unknown-directive-code-yields-no-pdu", o.value is None)
    if ref is not None:
        ensures("same-verdict-as-selected-decoder", iff(o.ok, ref.ok))
        if o.ok and ref.ok:
            ensures("same-result-as-selected-decoder", both(kind_of(o.value) == kind_of(ref.value), same_state(o.value, ref.value)))
        if not o.ok and not ref.ok:
            ensures("same-error-as-selected-decoder", exc_kind(o) == exc_kind(ref))
