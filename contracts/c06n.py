"""C06 / C09 / C10 / C11 - NAK PDU segment requests for lists of ANY length.

The list-carrying harnesses of contracts/c06b.py bound the list (<= 2 requests).  Here the two loops of
spacepackets/cfdp/pdu/nak.py carry loop contracts, the encoding / decoding of a request list are ghost recursions
(`enc_reqs`, `dec_reqs`, structural recursion from the end of the list / of the octet region), and two spec-level lemmas
(length, decode-after-encode), proved as induction steps, connect them: pack layout, decode and round trip hold for every
number of segment requests."""
import struct
from pyvc_spec import *
from spec_cfdp import fss, fss_len, with_crc_trailer, pdu_header_octets
from spec_cfdp_dir_b import directive_pdu, directive_body, nak_params, fss_fits, crc_len, TOWARDS_RECEIVER, TOWARDS_SENDER
from cfdp_common import mk_conf, ids_in_range, W
from spacepackets.cfdp.defs import Direction, TransmissionMode, CrcFlag, LargeFileFlag, SegmentationControl, UnsupportedCfdpVersion
from spacepackets.cfdp.exceptions import InvalidCrc
from spacepackets.cfdp.pdu.nak import NakPdu

NAKQ = "spacepackets.cfdp.pdu.nak:"
NO_SEG = SegmentationControl.NO_RECORD_BOUNDARIES_PRESERVATION
# every width occurs; the list-free harnesses of c06b cover all 16 (entity ID, sequence number) width pairs
W2 = by_tier(Choice(1), Choice(1, 8))
W2B = by_tier(Choice(2), Choice(2, 4))


def wrap_fss(large, v):
    """total version of fss for the ghost definition: values outside the field range are reduced (never used for them)"""
    if large:
        return be(8, v % 18446744073709551616)
    return be(4, v % 4294967296)


@ghost_function(args=["pairlist", "bool"], result="bytes", measure=lambda reqs, large: len(reqs))
def enc_reqs(reqs, large):
    """octets of a segment-request list: fss(start) ++ fss(end) per request, in list order (727.0-B-5 table 5-10)"""
    if len(reqs) == 0:
        return b""
    last = reqs[-1]
    return enc_reqs(reqs[:-1], large) + wrap_fss(large, last[0]) + wrap_fss(large, last[1])


@ghost_function(args=["pairlist", "bool"], result="bool", measure=lambda reqs, large: len(reqs))
def fit_reqs(reqs, large):
    """every offset of the list fits the file-size-sensitive field"""
    if len(reqs) == 0:
        return True
    last = reqs[-1]
    return both(fit_reqs(reqs[:-1], large), fss_fits(large, last[0]), fss_fits(large, last[1]))


@ghost_function(args=["bytes", "bool"], result="pairlist", measure=lambda region, large: len(region))
def dec_reqs(region, large):
    """the request list an octet region encodes (whole requests only)"""
    w = fss_len(large)
    n = len(region)
    if n < 2 * w:
        return []
    return dec_reqs(region[0:n - 2 * w], large) + [(from_be(region[n - 2 * w:n - w]), from_be(region[n - w:n]))]


# ---------------------------------------------------------------------------------------------
# spec-level lemmas (induction steps; well-founded induction on the list length)
# ---------------------------------------------------------------------------------------------
@lemma(["C06"], "enc_reqs/length")
def enc_length_step(init: PairList, a: Int, b: Int, large: Bool):
    """|enc_reqs(L)| == 2 * fss_len * len(L)"""
    requires(len(enc_reqs(init, large)) == 2 * fss_len(large) * len(init))           # induction hypothesis
    L = init + [(a, b)]
    unfold(enc_reqs, L, large)
    ensures("step", len(enc_reqs(L, large)) == 2 * fss_len(large) * len(L))
    unfold(enc_reqs, [], large)
    ensures("base", len(enc_reqs([], large)) == 0)


@lemma(["C06", "C09"], "dec_reqs/inverse-of-enc")
def dec_enc_step(init: PairList, a: Int, b: Int, large: Bool):
    """fit_reqs(L) ==> dec_reqs(enc_reqs(L)) == L"""
    L = init + [(a, b)]
    unfold(fit_reqs, L, large)
    requires(fit_reqs(L, large))
    requires(implies(fit_reqs(init, large), dec_reqs(enc_reqs(init, large), large) == init))     # induction hypothesis
    unfold(enc_reqs, L, large)
    e = enc_reqs(L, large)
    unfold(dec_reqs, e, large)
    ensures("step", dec_reqs(e, large) == L)
    unfold(enc_reqs, [], large)
    unfold(dec_reqs, enc_reqs([], large), large)
    ensures("base", dec_reqs(enc_reqs([], large), large) == [])


@lemma(["C06"], "fit_reqs/member")
def fit_member_step(before: PairList, a: Int, b: Int, after_init: PairList, y0: Int, y1: Int, large: Bool):
    """fit_reqs(A ++ [x] ++ R) ==> x fits   (induction on |R|; the hypothesis is used for R without its last element)"""
    L0 = before + [(a, b)]
    unfold(fit_reqs, L0, large)
    ensures("base", implies(fit_reqs(L0, large), both(fss_fits(large, a), fss_fits(large, b))))
    shorter = before + [(a, b)] + after_init
    L = shorter + [(y0, y1)]
    requires(implies(fit_reqs(shorter, large), both(fss_fits(large, a), fss_fits(large, b))))        # induction hypothesis
    unfold(fit_reqs, L, large)
    ensures("step", implies(fit_reqs(L, large), both(fss_fits(large, a), fss_fits(large, b))))


@lemma(["C06"], "dec_reqs/length")
def dec_length_step(region: Bytes, large: Bool):
    """2 * fss_len * len(dec_reqs(R)) == |R| for a region holding whole requests (induction on |R|)"""
    w = fss_len(large)
    requires(len(region) % (2 * w) == 0)
    unfold(dec_reqs, region, large)
    if len(region) >= 2 * w:
        shorter = region[0:len(region) - 2 * w]
        requires(2 * w * len(dec_reqs(shorter, large)) == len(shorter))              # induction hypothesis
    ensures("step", 2 * w * len(dec_reqs(region, large)) == len(region))


# ---------------------------------------------------------------------------------------------
# loop contracts for the two loops of nak.py
# ---------------------------------------------------------------------------------------------
@loop_spec(NAKQ + "NakPdu.pack", 0, havoc={"nak_pdu": BytesArr()})
def pack_loop(self, nak_pdu, loop_seen, loop_item, entry):
    large = self.pdu_file_directive.pdu_header.large_file_flag_set
    if loop_item is not None:
        # the element about to be packed is a member of the list: if the whole list fits, so does this element
        use_lemma("fit_reqs/member", implies(fit_reqs(self._segment_requests, large),
                                             both(fss_fits(large, loop_item[0]), fss_fits(large, loop_item[1]))))
    unfold(enc_reqs, loop_seen, large)
    unfold(fit_reqs, loop_seen, large)
    invariant("octets", nak_pdu == entry.nak_pdu + enc_reqs(loop_seen, large))
    invariant("fits", fit_reqs(loop_seen, large))


@loop_spec(NAKQ + "NakPdu.unpack", 0, havoc={"current_idx": Int, "segment_requests": PairList})
def unpack_loop(data, current_idx, segment_requests, end_of_segment_reqs, struct_arg_tuple, nak_pdu):
    w = struct_arg_tuple[1]
    large = (w == 8)
    base = nak_pdu.pdu_file_directive.header_len + 2 * w
    invariant("range", both(base <= current_idx, current_idx <= end_of_segment_reqs, end_of_segment_reqs <= len(data)))
    invariant("aligned", both((current_idx - base) % (2 * w) == 0, (end_of_segment_reqs - base) % (2 * w) == 0))
    unfold(dec_reqs, data[base:current_idx], large)
    invariant("decoded", segment_requests == dec_reqs(data[base:current_idx], large))
    decreases(end_of_segment_reqs - current_idx)


def nak_conf(we, ws, src, seq, dst, mode, crc, large):
    return mk_conf(we, ws, src, seq, dst, mode, crc, large, Direction.TOWARDS_RECEIVER, NO_SEG)


@obligation(["C06", "C04", "C11"], "NakPdu.pack/any-list", verifies=[NAKQ + "NakPdu.pack", NAKQ + "NakPdu.__init__",
                                                                      NAKQ + "NakPdu._calculate_directive_field_len"])
def nak_pack_any(mode: EnumOf(TransmissionMode), crc: EnumOf(CrcFlag), large: EnumOf(LargeFileFlag), we: W2, ws: W2B,
                 src: Int, seq: Int, dst: Int, start: Int, end: Int, reqs: PairList):
    """pack for ANY number of segment requests: if it returns, every offset fitted the field width (never truncated) and
    the octets are header, directive code 8, scope, the requests in list order, CRC trailer iff flagged; lengths agree"""
    requires(ids_in_range(we, ws, src, seq, dst))
    conf = nak_conf(we, ws, src, seq, dst, mode, crc, large)
    snap = snapshot(conf)
    lg = (large == LargeFileFlag.LARGE)
    requires(1 + 2 * fss_len(lg) * (1 + len(reqs)) + crc_len(crc) <= 65535)     # the PDU data field length is a 16-bit field
    pdu = NakPdu(conf, start, end, reqs)
    use_lemma("enc_reqs/length", len(enc_reqs(reqs, lg)) == 2 * fss_len(lg) * len(reqs))
    o = outcome(pdu.pack)
    ensures("raises-only", o.ok or o.raised(ValueError, struct.error))
    if o.ok:
        raw = o.value
        ensures("scope-fits", both(fss_fits(lg, start), fss_fits(lg, end)))
        ensures("requests-fit", fit_reqs(reqs, lg))
        body = directive_body(TOWARDS_SENDER, mode, crc, large, 0, we, ws, src, seq, dst, nak_params(lg, start, end, enc_reqs(reqs, lg)))
        if crc == CrcFlag.WITH_CRC:      # lemma for the solver: everything before the trailer first, then the whole PDU
            ensures("layout-body", raw[0:len(raw) - 2] == body)
        ensures("layout", raw == with_crc_trailer(crc, body))
        ensures("lengths", both(pdu.packet_len == len(raw), pdu.pdu_file_directive.pdu_data_field_len == len(raw) - (4 + 2 * we + ws)))
        ensures("crc-residue", implies(crc == CrcFlag.WITH_CRC, crc16(raw) == 0))
        ensures("caller-config-untouched", same_state(conf, snap))


def hdr_len_of(data):
    """header length declared by octet 3 of a buffer (table 5-1)"""
    return 4 + 2 * (bits(data[3], 6, 4) + 1) + bits(data[3], 2, 0) + 1


def nak_unpack_any(data, c0, c1):
    """NakPdu.unpack on an ARBITRARY octet string (no bound on the declared length / number of requests)"""
    if c0 is not None and len(data) >= 4:
        requires(either(bits(data[3], 6, 4) == c0, bits(data[3], 6, 4) == c1))
    o = outcome(NakPdu.unpack, data)
    ensures("raises-only", o.ok or o.raised(ValueError, InvalidCrc, UnsupportedCfdpVersion))
    if o.ok:
        g = o.value
        hl = hdr_len_of(data)
        n = hl + data[1] * 256 + data[2]
        crc = bits(data[0], 1, 1)
        lg = bits(data[0], 0, 0) == 1
        f = fss_len(lg)
        ensures("declared-length", n == len(data))      # a NAK PDU followed by surplus octets is refused
        ensures("crc-gate", implies(crc == 1, crc16(data[0:n]) == 0))
        ensures("directive-code", data[hl] == 8)
        ensures("scope", both(g.start_of_scope == from_be(data[hl + 1:hl + 1 + f]), g.end_of_scope == from_be(data[hl + 1 + f:hl + 1 + 2 * f])))
        end = n - 2 * crc
        base = hl + 1 + 2 * f
        ensures("whole-requests", both(base <= end, (end - base) % (2 * f) == 0))
        unfold(dec_reqs, data[base:end], lg)
        ensures("requests", g.segment_requests == dec_reqs(data[base:end], lg))
        use_lemma("dec_reqs/length", 2 * f * len(dec_reqs(data[base:end], lg)) == end - base)
        ensures("reported-length", g.packet_len == n)


# the three fully arbitrary harnesses (any header octets) are expensive: thorough tier; the quick tier runs the same clauses on
# a well-formed fixed header of any configuration followed by ARBITRARY octets of any length (arbitrary headers with short
# declared lengths are covered by contracts/c06b.py and C05)
NAK_ANY = dict(verifies=[NAKQ + "NakPdu.unpack"], lia_branch=True, shards=8, shard_depth=10, tier="thorough")


@obligation(["C06", "C09", "C10", "C04"], "NakPdu.unpack/any-list/valid-header", verifies=[NAKQ + "NakPdu.unpack"], lia_branch=True,
            shards=4, shard_depth=6)
def nak_unpack_any_valid_header(direction: EnumOf(Direction), mode: EnumOf(TransmissionMode), crc: EnumOf(CrcFlag),
                                large: EnumOf(LargeFileFlag), we: W2, ws: W2B, src: Int, seq: Int, dst: Int,
                                dlen: IntRange(0, 65535), rest: Bytes):
    requires(ids_in_range(we, ws, src, seq, dst))
    data = pdu_header_octets(0, direction, mode, crc, large, dlen, 0, 0, we, ws, src, seq, dst) + rest
    nak_unpack_any(data, None, None)


@obligation(["C06", "C09", "C10", "C04"], "NakPdu.unpack/any-list/idw1-2", **NAK_ANY)
def nak_unpack_any_12(data: Bytes):
    nak_unpack_any(data, 0, 1)


@obligation(["C06", "C09", "C10", "C04"], "NakPdu.unpack/any-list/idw4-8", **NAK_ANY)
def nak_unpack_any_48(data: Bytes):
    nak_unpack_any(data, 3, 7)


@obligation(["C06", "C09", "C10", "C04"], "NakPdu.unpack/any-list/other-width-codes", **NAK_ANY)
def nak_unpack_any_other(data: Bytes):
    if len(data) >= 4:
        requires(not either(bits(data[3], 6, 4) == 0, bits(data[3], 6, 4) == 1, bits(data[3], 6, 4) == 3, bits(data[3], 6, 4) == 7))
    o = outcome(NakPdu.unpack, data)
    ensures("raises-only", o.ok or o.raised(ValueError, InvalidCrc, UnsupportedCfdpVersion))
    ensures("refused", not o.ok)


@obligation(["C06", "C09", "C04"], "NakPdu/roundtrip/any-list", verifies=[NAKQ + "NakPdu.unpack", NAKQ + "NakPdu.pack", NAKQ + "NakPdu.__eq__"],
            shards=8, shard_depth=8)
def nak_roundtrip_any(mode: EnumOf(TransmissionMode), crc: EnumOf(CrcFlag), large: EnumOf(LargeFileFlag), we: W2, ws: W2B,
                      src: Int, seq: Int, dst: Int, start: Int, end: Int, reqs: PairList):
    """decode(encode(x)) for ANY number of segment requests: same scope, same requests in the same order, equal PDU, same octets
    again.  Composition of the two loop contracts with the lemmas enc_reqs/length and dec_reqs/inverse-of-enc."""
    requires(ids_in_range(we, ws, src, seq, dst))
    lg = (large == LargeFileFlag.LARGE)
    requires(1 + 2 * fss_len(lg) * (1 + len(reqs)) + crc_len(crc) <= 65535)
    conf = nak_conf(we, ws, src, seq, dst, mode, crc, large)
    pdu = NakPdu(conf, start, end, reqs)
    use_lemma("enc_reqs/length", len(enc_reqs(reqs, lg)) == 2 * fss_len(lg) * len(reqs))
    use_lemma("dec_reqs/inverse-of-enc", implies(fit_reqs(reqs, lg), dec_reqs(enc_reqs(reqs, lg), lg) == reqs))
    requires(both(fss_fits(lg, start), fss_fits(lg, end), fit_reqs(reqs, lg)))
    p = outcome(pdu.pack)
    ensures("fitting-values-are-packed", p.ok)
    requires(p.ok)
    raw = p.value
    o = outcome(NakPdu.unpack, raw)
    ensures("accepted", o.ok)
    if o.ok:
        g = o.value
        ensures("scope", both(g.start_of_scope == start, g.end_of_scope == end))
        ensures("requests", g.segment_requests == reqs)
        ensures("equal", both(g == pdu, pdu == g))
        ensures("lengths", both(g.packet_len == len(raw), g.pdu_file_directive.pdu_data_field_len == pdu.pdu_file_directive.pdu_data_field_len))
        ensures("repack", g.pack() == raw)
