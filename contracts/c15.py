"""C15 - request IDs and service-1 verification reports (spacepackets/ecss/req_id.py, ecss/fields.py PacketFieldEnum,
ecss/pus_1_verification.py)."""
from pyvc_spec import *
from spec_pus import pus_tm_octets, pus_tc_octets, req_id_octets, srv1_source_data
from spec_ccsds import sph_octets
from spacepackets.ccsds.spacepacket import SpacePacketHeader, PacketType, SequenceFlags, PacketId, PacketSeqCtrl
from spacepackets.ecss.tc import PusTc
from spacepackets.ecss.tm import PusTm, InvalidTmCrc16
from spacepackets.ecss.req_id import RequestId
from spacepackets.ecss.fields import PacketFieldEnum, PacketFieldU8, PacketFieldU16, PacketFieldU32
from spacepackets.ecss.pus_1_verification import (
    Service1Tm, VerificationParams, FailureNotice, UnpackParams, InvalidVerifParams, Subservice,
    create_acceptance_success_tm, create_acceptance_failure_tm, create_start_success_tm, create_start_failure_tm,
    create_step_success_tm, create_step_failure_tm, create_completion_success_tm, create_completion_failure_tm,
)
from spacepackets.ecss.exceptions import TmSrcDataTooShortError
from spacepackets.exceptions import BytesTooShortError

MR = "spacepackets.ecss.req_id:"
MF = "spacepackets.ecss.fields:"
M1 = "spacepackets.ecss.pus_1_verification:"
W = Choice(1, 2, 4, 8)


# ------------------------------------------------------------------------------------------------ request ID

@obligation(["C15"], "RequestId.pack", verifies=[MR + "RequestId.__init__", MR + "RequestId.pack", MR + "RequestId.as_u32",
                                                 MR + "RequestId.from_sp_header", MR + "RequestId.from_pus_tc"])
def rid_pack(ver: IntRange(0, 7), ptype: EnumOf(PacketType), shf: Bool, apid: IntRange(0, 2047),
             flags: EnumOf(SequenceFlags), count: IntRange(0, 16383), dlen: IntRange(0, 65535)):
    r = RequestId(PacketId(ptype, shf, apid), PacketSeqCtrl(flags, count), ver)
    raw = r.pack()
    ensures("layout", raw == req_id_octets(ver, ptype, shf, apid, flags, count))
    ensures("as-u32", both(r.as_u32() == from_be(raw), 0 <= r.as_u32(), r.as_u32() < 4294967296))
    ensures("pack-twice", r.pack() == raw)
    h = SpacePacketHeader(ptype, apid, count, dlen, shf, flags, ver)
    rh = RequestId.from_sp_header(h)
    ensures("from-sp-header", both(rh.pack() == h.pack()[0:4], rh.pack() == sph_octets(ver, ptype, shf, apid, flags, count, dlen)[0:4],
                                   rh == r, rh.as_u32() == r.as_u32()))
    ensures("empty", both(RequestId.empty().pack() == be(4, 0), RequestId.empty().as_u32() == 0))


@obligation(["C15"], "RequestId.from_pus_tc", verifies=[MR + "RequestId.from_pus_tc", MR + "RequestId.from_sp_header"])
def rid_from_tc(service: IntRange(0, 255), subservice: IntRange(0, 255), apid: IntRange(0, 2047), count: IntRange(0, 16383),
                source_id: IntRange(0, 65535), ack: IntRange(0, 15), app: BytesLen(0, 65529)):
    tc = PusTc(service, subservice, apid, app, count, source_id, ack)
    r = RequestId.from_pus_tc(tc)
    ensures("first-four-octets", both(r.pack() == tc.pack()[0:4],
                                      r.pack() == pus_tc_octets(apid, count, service, subservice, source_id, ack, app)[0:4]))
    ensures("u32", r.as_u32() == from_be(tc.pack()[0:4]))
    r2 = RequestId(tc.packet_id, tc.packet_seq_control)
    ensures("from-ids", both(r2 == r, r2.pack() == r.pack()))


@obligation(["C15"], "RequestId/forms-agree-after-use", verifies=[MR + "RequestId.pack", MR + "RequestId.as_u32", MR + "RequestId.__eq__",
                                                                 MR + "RequestId.__hash__", MR + "RequestId.from_pus_tc"])
def rid_forms_after_use(u: IntRange(0, 4294967295), apid2: IntRange(0, 2047), count2: IntRange(0, 16383), flags2: EnumOf(SequenceFlags),
                        ver2: IntRange(0, 7), which: Choice(0, 1, 2, 3, 4), tc_count: IntRange(0, 16383), tc_count2: IntRange(0, 16383)):
    """the three forms keep agreeing when the object has been used (hashed, converted, packed, compared) and its public
    attributes - or the packet-ID / sequence-control objects it exposes and shares with the telecommand - change afterwards"""
    r = RequestId.unpack(be(4, u))
    before = (hash(r), r.as_u32(), r.pack(), r == RequestId.unpack(be(4, u)))
    if which == 0:
        r.tc_psc.seq_count = count2
    elif which == 1:
        r.tc_packet_id.apid = apid2
    elif which == 2:
        r.tc_psc.seq_flags = flags2
    elif which == 3:
        r.ccsds_version = ver2
    else:
        r.tc_psc = PacketSeqCtrl(flags2, count2)
    raw = r.pack()
    fresh = RequestId.unpack(raw)
    ensures("u32-is-packed-form", r.as_u32() == from_be(raw))
    ensures("decoded-form-equal", both(fresh == r, r == fresh, hash(fresh) == hash(r), fresh.as_u32() == r.as_u32()))
    ensures("packed-follows-attributes", raw == req_id_octets(r.ccsds_version, r.tc_packet_id.ptype, r.tc_packet_id.sec_header_flag,
                                                               r.tc_packet_id.apid, r.tc_psc.seq_flags, r.tc_psc.seq_count))
    # the request ID obtained from a telecommand and used, then the telecommand is re-sent with another sequence count
    tc = PusTc(17, 1, apid2, b"", tc_count)
    rt = RequestId.from_pus_tc(tc)
    used = (hash(rt), rt.as_u32(), rt.pack())
    tc.seq_count = tc_count2
    ensures("tc-derived-forms-agree", both(rt.as_u32() == from_be(rt.pack()), RequestId.unpack(rt.pack()) == rt,
                                           hash(RequestId.unpack(rt.pack())) == hash(rt)))


@obligation(["C15", "C09"], "RequestId/all-u32", verifies=[MR + "RequestId.unpack", MR + "RequestId.pack", MR + "RequestId.as_u32"])
def rid_all_u32(u: IntRange(0, 4294967295), suffix: Bytes):
    """packed form, 32-bit integer form and decoded form agree for all 2^32 values"""
    r = RequestId.unpack(be(4, u) + suffix)
    ensures("u32", r.as_u32() == u)
    ensures("repack", r.pack() == be(4, u))
    ensures("fields", both(r.ccsds_version == bits(u, 31, 29), r.tc_packet_id.ptype == bits(u, 28, 28),
                           r.tc_packet_id.sec_header_flag == (bits(u, 27, 27) == 1), r.tc_packet_id.apid == bits(u, 26, 16),
                           r.tc_psc.seq_flags == bits(u, 15, 14), r.tc_psc.seq_count == bits(u, 13, 0)))
    ensures("prefix-only", same_state(r, RequestId.unpack(be(4, u))))


@obligation(["C15"], "RequestId.__eq__", verifies=[MR + "RequestId.__eq__", MR + "RequestId.__hash__"])
def rid_eq(u1: IntRange(0, 4294967295), u2: IntRange(0, 4294967295)):
    r1 = RequestId.unpack(be(4, u1))
    r2 = RequestId.unpack(be(4, u2))
    ensures("eq-iff", (r1 == r2) == (u1 == u2))
    ensures("ne-iff", (r1 != r2) == (u1 != u2))
    ensures("hash-function-of-u32", both(hash(r1) == hash(u1), hash(r2) == hash(u2)))
    ensures("hash-eq", implies(u1 == u2, hash(r1) == hash(r2)))


@obligation(["C15", "C09", "C10"], "RequestId.unpack", verifies=[MR + "RequestId.unpack"])
def rid_unpack(data: Bytes):
    o = outcome(RequestId.unpack, data)
    ensures("short-iff", o.raised(BytesTooShortError) == (len(data) < 4))
    ensures("raises-only", o.ok or o.raised(ValueError))
    if o.ok:
        r = o.value
        ensures("u32", r.as_u32() == from_be(data[0:4]))
        ensures("repack", r.pack() == data[0:4])
        ensures("prefix-only", same_state(r, RequestId.unpack(data[0:4])))


# ------------------------------------------------------------------------------------------------ packet field enum

@obligation(["C15"], "PacketFieldEnum.pack", verifies=[MF + "PacketFieldEnum.__init__", MF + "PacketFieldEnum.with_byte_size",
                                                       MF + "PacketFieldEnum.pack", MF + "PacketFieldEnum.len",
                                                       MF + "PacketFieldEnum.check_pfc", MF + "PacketFieldEnum.__eq__",
                                                       MF + "PacketFieldEnum.unpack"])
def pfe_pack(w: W, val: Int, val2: Int, suffix: Bytes):
    requires(both(0 <= val, val < 256 ** w, 0 <= val2, val2 < 256 ** w))
    f = PacketFieldEnum.with_byte_size(w, val)
    raw = f.pack()
    ensures("layout", raw == be(w, val))
    ensures("width", both(f.len() == w, len(raw) == w, f.pfc == 8 * w, f.val == val, PacketFieldEnum.check_pfc(8 * w) == w))
    g = PacketFieldEnum(8 * w, val)
    ensures("ctor-same", both(g == f, g.pack() == raw, same_state(g, f)))
    d = PacketFieldEnum.unpack(raw + suffix, 8 * w)
    ensures("roundtrip", both(d == f, f == d, d.val == val, d.pfc == 8 * w, d.pack() == raw, same_state(d, f)))
    f2 = PacketFieldEnum.with_byte_size(w, val2)
    ensures("eq-iff", (f == f2) == (val == val2))


@obligation(["C15"], "PacketFieldEnum/fixed-width-classes", verifies=[MF + "PacketFieldU8.__init__", MF + "PacketFieldU16.__init__",
                                                                      MF + "PacketFieldU32.__init__"])
def pfe_fixed(v8: IntRange(0, 255), v16: IntRange(0, 65535), v32: IntRange(0, 4294967295)):
    ensures("u8", both(PacketFieldU8(v8).pack() == be(1, v8), PacketFieldU8(v8) == PacketFieldEnum(8, v8)))
    ensures("u16", both(PacketFieldU16(v16).pack() == be(2, v16), PacketFieldU16(v16) == PacketFieldEnum(16, v16)))
    ensures("u32", both(PacketFieldU32(v32).pack() == be(4, v32), PacketFieldU32(v32) == PacketFieldEnum(32, v32)))


@obligation(["C15"], "PacketFieldEnum/invalid-width", verifies=[MF + "PacketFieldEnum.check_pfc", MF + "PacketFieldEnum.__init__"])
def pfe_invalid_width(pfc: Choice(0, 4, 24, 40, 48, 56, 72, 80, 128), data: Bytes):
    """a width that is not 1, 2, 4 or 8 whole octets is refused with ValueError"""
    ensures("check-refuses", outcome(PacketFieldEnum.check_pfc, pfc).raised(ValueError))
    ensures("ctor-refuses", outcome(PacketFieldEnum, pfc, 0).raised(ValueError))
    ensures("unpack-refuses", outcome(PacketFieldEnum.unpack, data, pfc).raised(ValueError))


@obligation(["C15", "C09", "C10"], "PacketFieldEnum.unpack", verifies=[MF + "PacketFieldEnum.unpack"])
def pfe_unpack(data: Bytes, w: W):
    o = outcome(PacketFieldEnum.unpack, data, 8 * w)
    ensures("short-iff", o.raised(BytesTooShortError) == (len(data) < w))
    ensures("raises-only", o.ok or o.raised(ValueError))
    if o.ok:
        ensures("value", both(o.value.val == from_be(data[0:w]), o.value.pfc == 8 * w, o.value.len() == w))
        ensures("repack", o.value.pack() == data[0:w])
        ensures("prefix-only", same_state(o.value, PacketFieldEnum.unpack(data[0:w], 8 * w)))


# ------------------------------------------------------------------------------------------------ failure notice

@obligation(["C15", "C09"], "FailureNotice.pack", verifies=[M1 + "FailureNotice.__init__", M1 + "FailureNotice.pack", M1 + "FailureNotice.len",
                                                            M1 + "FailureNotice.unpack", M1 + "FailureNotice.__eq__"])
def fn_pack(we: W, code: Int, fdata: Bytes, suffix: Bytes):
    requires(both(0 <= code, code < 256 ** we))
    n = FailureNotice(PacketFieldEnum.with_byte_size(we, code), fdata)
    raw = n.pack()
    ensures("layout", raw == be(we, code) + fdata)
    ensures("len", both(n.len() == len(raw), n.len() == we + len(fdata)))
    ensures("pack-twice", n.pack() == raw)
    d = FailureNotice.unpack(raw, we)
    ensures("roundtrip", both(d.code == n.code, d.code.val == code, d.code.pfc == 8 * we, d.data == fdata, d.pack() == raw))
    ensures("equal", both(d == n, n == d))
    d2 = FailureNotice.unpack(raw + suffix, we, len(fdata))
    ensures("roundtrip-suffix", both(d2.code.val == code, d2.code.pfc == 8 * we, d2.data == fdata, d2.pack() == raw))
    ensures("equal-suffix", d2 == n)


@obligation(["C15"], "FailureNotice.__eq__", verifies=[M1 + "FailureNotice.__eq__"])
def fn_eq(we: W, we2: W, code: Int, code2: Int, fdata: Bytes, fdata2: Bytes):
    requires(both(0 <= code, code < 256 ** we, 0 <= code2, code2 < 256 ** we2))
    a = FailureNotice(PacketFieldEnum.with_byte_size(we, code), fdata)
    b = FailureNotice(PacketFieldEnum.with_byte_size(we2, code2), fdata2)
    ensures("eq-iff", (a == b) == both(we == we2, code == code2, fdata == fdata2))


@obligation(["C15", "C10"], "FailureNotice.unpack", verifies=[M1 + "FailureNotice.unpack"])
def fn_unpack(data: Bytes, we: W, n: OptionalOf(IntRange(0, None))):
    o = outcome(FailureNotice.unpack, data, we, n)
    ensures("short-iff", o.raised(BytesTooShortError) == (len(data) < we))
    ensures("raises-only", o.ok or o.raised(ValueError))
    if o.ok:
        ensures("code", both(o.value.code.val == from_be(data[0:we]), o.value.code.pfc == 8 * we))
        if n is None:
            ensures("data-rest", o.value.data == data[we:len(data)])
        else:
            ensures("data-bounded", o.value.data == data[we:we + n])


@obligation(["C15", "C10"], "FailureNotice.unpack/invalid-width", verifies=[M1 + "FailureNotice.unpack"])
def fn_unpack_bad_width(data: Bytes, we: Choice(-1, 0, 3, 5, 6, 7, 9, 16), n: OptionalOf(IntRange(0, None))):
    """a failure-code width other than 1, 2, 4, 8 octets is refused with ValueError, whatever the input"""
    ensures("refused", outcome(FailureNotice.unpack, data, we, n).raised(ValueError))


# ------------------------------------------------------------------------------------------------ verification params

@obligation(["C15", "C11"], "VerificationParams.pack", verifies=[M1 + "VerificationParams.pack", M1 + "VerificationParams.len"])
def vp_pack(u: IntRange(0, 4294967295), ws: W, step: OptionalOf(IntRange(0, None)), we: W, code: OptionalOf(IntRange(0, None)),
            fdata: Bytes):
    rid = RequestId.unpack(be(4, u))
    exp = be(4, u)
    sid = None
    if step is not None:
        requires(step < 256 ** ws)
        sid = PacketFieldEnum.with_byte_size(ws, step)
        exp = exp + be(ws, step)
    notice = None
    if code is not None:
        requires(code < 256 ** we)
        notice = FailureNotice(PacketFieldEnum.with_byte_size(we, code), fdata)
        exp = exp + be(we, code) + fdata
    p = VerificationParams(rid, sid, notice)
    before = snapshot(p)
    raw = p.pack()
    ensures("layout", raw == exp)
    ensures("len", p.len() == len(raw))
    ensures("pack-twice", p.pack() == raw)
    ensures("unchanged", same_state(p, before))


@obligation(["C15"], "VerificationParams.verify_against_subservice", verifies=[M1 + "VerificationParams.verify_against_subservice"])
def vp_verify(sub: IntRange(1, 8), has_step: Bool, has_notice: Bool):
    sid = None
    if has_step:
        sid = PacketFieldEnum.with_byte_size(1, 1)
    notice = None
    if has_notice:
        notice = FailureNotice(PacketFieldEnum.with_byte_size(1, 2), bytes())
    p = VerificationParams(RequestId.empty(), sid, notice)
    o = outcome(p.verify_against_subservice, sub)
    failure = either(sub == 2, sub == 4, sub == 6, sub == 8)
    step_report = either(sub == 5, sub == 6)
    ensures("refused-iff", o.raised(InvalidVerifParams) == either(has_notice != failure, has_step != step_report))
    ensures("raises-only", o.ok or o.raised(InvalidVerifParams))


# ------------------------------------------------------------------------------------------------ service-1 reports

MAX_VAR = 65536 - 7 - 2  # timestamp + source data that fit a space packet


def report_contract(sub, apid, count, ver, tref, dest, ts, u, ws, step, we, code, fdata, suffix):
    """Contract shared by the eight report kinds: layout of the packed report, then decode(pack + suffix)."""
    is_step = sub == 5 or sub == 6
    is_failure = sub % 2 == 0
    rid = RequestId.unpack(be(4, u))
    sid = None
    if is_step:
        sid = PacketFieldEnum.with_byte_size(ws, step)
    notice = None
    if is_failure:
        notice = FailureNotice(PacketFieldEnum.with_byte_size(we, code), fdata)
    params = VerificationParams(rid, sid, notice)
    before = snapshot(params)
    tm = Service1Tm(apid, sub, ts, params, count, ver, tref, dest)
    raw = tm.pack()
    src = srv1_source_data(be(4, u), sub, ws, step, we, code, fdata)
    ensures("source-data", both(tm.source_data == src, tm.source_data[0:4] == be(4, u), len(src) == params.len()))
    ensures("layout", raw == pus_tm_octets(ver, apid, count, 1, sub, 0, dest, tref, ts, src))
    ensures("length-field", both(tm.sp_header.data_len == len(raw) - 7, tm.pus_tm.packet_len == len(raw)))
    ensures("accessors", both(tm.service == 1, tm.subservice == sub, tm.timestamp == ts, tm.tc_req_id == rid,
                              tm.tc_req_id.as_u32() == u, tm.is_step_reply == is_step, tm.has_failure_notice == is_failure,
                              is_same(tm.step_id, sid), is_same(tm.failure_notice, notice), tm.ccsds_version == ver,
                              tm.sp_header.apid == apid, tm.sp_header.seq_count == count))
    ensures("crc-residue", crc16(raw) == 0)
    ensures("pack-twice", tm.pack() == raw)
    ensures("params-unchanged", same_state(params, before))
    up = UnpackParams(len(ts), ws, we)
    up0 = snapshot(up)
    o = outcome(Service1Tm.unpack, raw + suffix, up)
    ensures("accepted", o.ok)
    if o.ok:
        g = o.value
        ensures("req-id", both(g.tc_req_id == rid, g.tc_req_id.as_u32() == u, g.tc_req_id.pack() == be(4, u)))
        if is_step:
            ensures("step-id", both(g.step_id == sid, g.step_id.val == step, g.step_id.pfc == 8 * ws, g.is_step_reply))
        else:
            ensures("no-step-id", both(g.step_id is None, not g.is_step_reply))
        if is_failure:
            ensures("failure", both(g.error_code == notice.code, g.error_code.val == code, g.error_code.pfc == 8 * we,
                                    g.failure_notice.data == fdata, g.has_failure_notice))
        else:
            ensures("no-failure", both(g.error_code is None, g.failure_notice is None, not g.has_failure_notice))
        ensures("fields", both(g.service == 1, g.subservice == sub, g.timestamp == ts, g.source_data == src,
                               g.sp_header.apid == apid, g.sp_header.seq_count == count, g.ccsds_version == ver))
        ensures("equal", both(g == tm, tm == g))
        ensures("repack", g.pack() == raw)
        ensures("unpack-params-unchanged", same_state(up, up0))
        g2 = Service1Tm.from_tm(PusTm.unpack(raw + suffix, len(ts)), up)
        ensures("from-tm-equal", both(g2 == tm, g2.pack() == raw, same_state(g2, g)))


S1_FUNCS = [M1 + "Service1Tm.__init__", M1 + "Service1Tm.pack", M1 + "Service1Tm.unpack", M1 + "Service1Tm.from_tm",
            M1 + "Service1Tm._unpack_raw_tm", M1 + "Service1Tm._unpack_success_verification",
            M1 + "Service1Tm._unpack_failure_verification", M1 + "Service1Tm.__eq__", M1 + "FailureNotice.unpack",
            M1 + "FailureNotice.__eq__", M1 + "VerificationParams.pack", M1 + "VerificationParams.verify_against_subservice"]


# One obligation per (subservice, step-ID width, failure-code width): they run in parallel; every other input is symbolic.

def make_success(sub):
    def s1_success(apid: IntRange(0, 2047), count: IntRange(0, 16383), ver: IntRange(0, 7), tref: IntRange(0, 15),
                   dest: IntRange(0, 65535), ts: BytesLen(0, MAX_VAR - 4), u: IntRange(0, 4294967295), suffix: Bytes):
        report_contract(sub, apid, count, ver, tref, dest, ts, u, 1, 0, 1, 0, bytes(), suffix)
    return s1_success


def make_step_success(ws):
    def s1_step_success(apid: IntRange(0, 2047), count: IntRange(0, 16383), ver: IntRange(0, 7), tref: IntRange(0, 15),
                        dest: IntRange(0, 65535), ts: BytesLen(0, MAX_VAR - 12), u: IntRange(0, 4294967295),
                        step: IntRange(0, None), suffix: Bytes):
        requires(step < 256 ** ws)
        report_contract(5, apid, count, ver, tref, dest, ts, u, ws, step, 1, 0, bytes(), suffix)
    return s1_step_success


def make_failure(sub, we):
    def s1_failure(apid: IntRange(0, 2047), count: IntRange(0, 16383), ver: IntRange(0, 7), tref: IntRange(0, 15),
                   dest: IntRange(0, 65535), ts: Bytes, u: IntRange(0, 4294967295), code: IntRange(0, None), fdata: Bytes,
                   suffix: Bytes):
        requires(code < 256 ** we)
        requires(len(ts) + 4 + we + len(fdata) <= MAX_VAR)
        report_contract(sub, apid, count, ver, tref, dest, ts, u, 1, 0, we, code, fdata, suffix)
    return s1_failure


def make_step_failure(ws, we):
    def s1_step_failure(apid: IntRange(0, 2047), count: IntRange(0, 16383), ver: IntRange(0, 7), tref: IntRange(0, 15),
                        dest: IntRange(0, 65535), ts: Bytes, u: IntRange(0, 4294967295), step: IntRange(0, None),
                        code: IntRange(0, None), fdata: Bytes, suffix: Bytes):
        requires(both(step < 256 ** ws, code < 256 ** we))
        requires(len(ts) + 4 + ws + we + len(fdata) <= MAX_VAR)
        report_contract(6, apid, count, ver, tref, dest, ts, u, ws, step, we, code, fdata, suffix)
    return s1_step_failure


for _sub in (1, 3, 7):
    obligation(["C15", "C09", "C11"], "Service1Tm/success-report/sub" + str(_sub), verifies=S1_FUNCS, branch_probe_ms=250)(make_success(_sub))
for _ws in (1, 2, 4, 8):
    obligation(["C15", "C09", "C11"], "Service1Tm/step-success-report/step" + str(_ws), verifies=S1_FUNCS, branch_probe_ms=250)(make_step_success(_ws))
for _sub in (2, 4, 8):
    for _we in (1, 2, 4, 8):
        obligation(["C15", "C09", "C11"], "Service1Tm/failure-report/sub" + str(_sub) + "/code" + str(_we),
                   verifies=S1_FUNCS, branch_probe_ms=250)(make_failure(_sub, _we))
for _ws in (1, 2, 4, 8):
    for _we in (1, 2, 4, 8):
        obligation(["C15", "C09", "C11"], "Service1Tm/step-failure-report/step" + str(_ws) + "/code" + str(_we),
                   verifies=S1_FUNCS, branch_probe_ms=250)(make_step_failure(_ws, _we))


@obligation(["C15"], "Service1Tm.__init__/refusal", verifies=[M1 + "Service1Tm.__init__", M1 + "VerificationParams.verify_against_subservice"])
def s1_init_refusal(sub: EnumOf(Subservice), has_step: Bool, has_notice: Bool, ts: BytesLen(0, 16)):
    """parameter sets that do not match the subservice are refused (both directions, 8 subservices x step / notice)"""
    requires(sub != Subservice.INVALID)
    sid = None
    if has_step:
        sid = PacketFieldEnum.with_byte_size(1, 1)
    notice = None
    if has_notice:
        notice = FailureNotice(PacketFieldEnum.with_byte_size(1, 2), bytes())
    p = VerificationParams(RequestId.empty(), sid, notice)
    o = outcome(Service1Tm, 0, sub, ts, p)
    failure = either(sub == 2, sub == 4, sub == 6, sub == 8)
    step_report = either(sub == 5, sub == 6)
    ensures("refused-iff", o.raised(InvalidVerifParams) == either(has_notice != failure, has_step != step_report))
    ensures("raises-only", o.ok or o.raised(InvalidVerifParams))


# ------------------------------------------------------------------------------------------------ create_*_tm helpers

def helper_contract(tm, tc, sub, apid, ts, ws, step, we, code, fdata, direct):
    rid4 = tc.pack()[0:4]
    src = srv1_source_data(rid4, sub, ws, step, we, code, fdata)
    ensures("layout", tm.pack() == pus_tm_octets(0, apid, 0, 1, sub, 0, 0, 0, ts, src))
    ensures("carries-request-id", both(tm.tc_req_id.pack() == rid4, tm.source_data[0:4] == rid4,
                                       tm.tc_req_id == RequestId.from_pus_tc(tc), tm.tc_req_id.as_u32() == from_be(rid4)))
    ensures("subservice", both(tm.service == 1, tm.subservice == sub))
    ensures("as-direct", both(tm == direct, tm.pack() == direct.pack()))


def some_tc(service, subservice, tc_apid, count, app):
    return PusTc(service, subservice, tc_apid, app, count)


@obligation(["C15"], "create_*_success_tm", verifies=[M1 + "create_acceptance_success_tm", M1 + "create_start_success_tm",
                                                      M1 + "create_completion_success_tm"])
def helpers_success(service: IntRange(0, 255), subservice: IntRange(0, 255), tc_apid: IntRange(0, 2047), count: IntRange(0, 16383),
                    app: BytesLen(0, 64), apid: IntRange(0, 2047), ts: BytesLen(0, MAX_VAR - 4)):
    tc = some_tc(service, subservice, tc_apid, count, app)
    rid = RequestId.from_pus_tc(tc)
    helper_contract(create_acceptance_success_tm(apid, tc, ts), tc, 1, apid, ts, 1, 0, 1, 0, bytes(),
                    Service1Tm(apid, Subservice.TM_ACCEPTANCE_SUCCESS, ts, VerificationParams(rid)))
    helper_contract(create_start_success_tm(apid, tc, ts), tc, 3, apid, ts, 1, 0, 1, 0, bytes(),
                    Service1Tm(apid, Subservice.TM_START_SUCCESS, ts, VerificationParams(rid)))
    helper_contract(create_completion_success_tm(apid, tc, ts), tc, 7, apid, ts, 1, 0, 1, 0, bytes(),
                    Service1Tm(apid, Subservice.TM_COMPLETION_SUCCESS, ts, VerificationParams(rid)))


@obligation(["C15"], "create_step_success_tm", verifies=[M1 + "create_step_success_tm"])
def helpers_step_success(service: IntRange(0, 255), subservice: IntRange(0, 255), tc_apid: IntRange(0, 2047), count: IntRange(0, 16383),
                         app: BytesLen(0, 64), apid: IntRange(0, 2047), ts: BytesLen(0, MAX_VAR - 12), ws: W, step: IntRange(0, None)):
    requires(step < 256 ** ws)
    tc = some_tc(service, subservice, tc_apid, count, app)
    rid = RequestId.from_pus_tc(tc)
    sid = PacketFieldEnum.with_byte_size(ws, step)
    helper_contract(create_step_success_tm(apid, tc, sid, ts), tc, 5, apid, ts, ws, step, 1, 0, bytes(),
                    Service1Tm(apid, Subservice.TM_STEP_SUCCESS, ts, VerificationParams(rid, sid)))


@obligation(["C15"], "create_*_failure_tm", verifies=[M1 + "create_acceptance_failure_tm", M1 + "create_start_failure_tm",
                                                      M1 + "create_completion_failure_tm"], branch_probe_ms=250)
def helpers_failure(service: IntRange(0, 255), subservice: IntRange(0, 255), tc_apid: IntRange(0, 2047), count: IntRange(0, 16383),
                    app: BytesLen(0, 64), apid: IntRange(0, 2047), ts: Bytes, we: W, code: IntRange(0, None), fdata: Bytes):
    requires(code < 256 ** we)
    requires(len(ts) + 4 + we + len(fdata) <= MAX_VAR)
    tc = some_tc(service, subservice, tc_apid, count, app)
    rid = RequestId.from_pus_tc(tc)
    notice = FailureNotice(PacketFieldEnum.with_byte_size(we, code), fdata)
    helper_contract(create_acceptance_failure_tm(apid, tc, notice, ts), tc, 2, apid, ts, 1, 0, we, code, fdata,
                    Service1Tm(apid, Subservice.TM_ACCEPTANCE_FAILURE, ts, VerificationParams(rid, None, notice)))
    helper_contract(create_start_failure_tm(apid, tc, notice, ts), tc, 4, apid, ts, 1, 0, we, code, fdata,
                    Service1Tm(apid, Subservice.TM_START_FAILURE, ts, VerificationParams(rid, None, notice)))
    helper_contract(create_completion_failure_tm(apid, tc, notice, ts), tc, 8, apid, ts, 1, 0, we, code, fdata,
                    Service1Tm(apid, Subservice.TM_COMPLETION_FAILURE, ts, VerificationParams(rid, None, notice)))


@obligation(["C15"], "create_step_failure_tm", verifies=[M1 + "create_step_failure_tm"], branch_probe_ms=250)
def helpers_step_failure(service: IntRange(0, 255), subservice: IntRange(0, 255), tc_apid: IntRange(0, 2047), count: IntRange(0, 16383),
                         app: BytesLen(0, 64), apid: IntRange(0, 2047), ts: Bytes, ws: W, step: IntRange(0, None), we: W,
                         code: IntRange(0, None), fdata: Bytes):
    requires(both(step < 256 ** ws, code < 256 ** we))
    requires(len(ts) + 4 + ws + we + len(fdata) <= MAX_VAR)
    tc = some_tc(service, subservice, tc_apid, count, app)
    rid = RequestId.from_pus_tc(tc)
    sid = PacketFieldEnum.with_byte_size(ws, step)
    notice = FailureNotice(PacketFieldEnum.with_byte_size(we, code), fdata)
    helper_contract(create_step_failure_tm(apid, tc, sid, notice, ts), tc, 6, apid, ts, ws, step, we, code, fdata,
                    Service1Tm(apid, Subservice.TM_STEP_FAILURE, ts, VerificationParams(rid, sid, notice)))


# ------------------------------------------------------------------------------------------------ decoding arbitrary input

def decoded_report_contract(g, sub, src, ws, we):
    """what an accepted service-1 report must say about its source data `src` (subservice `sub`)"""
    ensures("subservice-1-to-8", both(1 <= sub, sub <= 8))
    is_step = either(sub == 5, sub == 6)
    is_failure = either(sub == 2, sub == 4, sub == 6, sub == 8)
    ensures("req-id", both(g.tc_req_id.pack() == src[0:4], len(src) >= 4))
    ensures("kind", both(g.is_step_reply == is_step, g.has_failure_notice == is_failure, g.subservice == sub))
    c = 4
    if sub == 5 or sub == 6:
        ensures("step-id", both(len(src) >= 4 + ws, g.step_id.val == from_be(src[4:4 + ws]), g.step_id.pfc == 8 * ws))
        c = 4 + ws
    else:
        ensures("no-step-id", g.step_id is None)
    if sub % 2 == 0:
        ensures("failure", both(len(src) >= c + we, g.error_code.val == from_be(src[c:c + we]), g.error_code.pfc == 8 * we,
                                is_same(g.error_code, g.failure_notice.code), g.failure_notice.data == src[c + we:len(src)]))
    else:
        ensures("no-failure", both(g.error_code is None, g.failure_notice is None))


def make_unpack_any(ws, we):
    def s1_unpack_any(data: Bytes, tlen: IntRange(0, None)):
        up = UnpackParams(tlen, ws, we)
        up0 = snapshot(up)
        o = outcome(Service1Tm.unpack, data, up)
        ensures("raises-only", o.ok or o.raised(ValueError, InvalidTmCrc16))
        ensures("unpack-params-unchanged", same_state(up, up0))
        if o.ok:
            g = o.value
            n = data[4] * 256 + data[5] + 7
            src = data[13 + tlen:n - 2]
            ensures("prefix-only", same_state(g, Service1Tm.unpack(data[0:n], up)))  # (before pack() refreshes the cached CRC)
            # accepted only if it is a well-formed PUS TM (same post-conditions as PusTm.unpack, C03)
            ensures("declared-length", both(n >= 15 + tlen, len(data) >= n, crc16(data[0:n]) == 0, bits(data[6], 7, 4) == 2))
            ensures("tm", both(same_state(g.sp_header, SpacePacketHeader.unpack(data)), g.service == data[7], g.subservice == data[8],
                               g.pus_tm.pus_tm_sec_header.spacecraft_time_ref == bits(data[6], 3, 0),
                               g.pus_tm.pus_tm_sec_header.message_counter == data[9] * 256 + data[10],
                               g.pus_tm.pus_tm_sec_header.dest_id == data[11] * 256 + data[12],
                               g.source_data == src, g.timestamp == data[13:13 + tlen], g.pus_tm.packet_len == n))
            decoded_report_contract(g, data[8], src, ws, we)
            ensures("repack-headers", both(g.sp_header.pack() == data[0:6], g.pus_tm.pus_tm_sec_header.pack() == data[6:13 + tlen]))
            ensures("repack", g.pack() == data[0:n])
    return s1_unpack_any


for _ws in (1, 2, 4, 8):
    for _we in (1, 2, 4, 8):
        obligation(["C15", "C09", "C10"], "Service1Tm.unpack/any-input/step" + str(_ws) + "/code" + str(_we),
                   verifies=S1_FUNCS, branch_probe_ms=250)(make_unpack_any(_ws, _we))


@obligation(["C15", "C10"], "Service1Tm.from_tm/any-tm", verifies=S1_FUNCS)
def s1_from_tm_any(service: IntRange(0, 255), sub: IntRange(0, 255), ts: BytesLen(0, 16), src: BytesLen(0, 64), ws: W, we: W):
    tm = PusTm(service, sub, ts, src)
    o = outcome(Service1Tm.from_tm, tm, UnpackParams(len(ts), ws, we))
    ensures("raises-only", o.ok or o.raised(ValueError))
    ensures("short-refused", implies(len(src) < 4, o.raised(TmSrcDataTooShortError)))
    if o.ok:
        ensures("wraps-tm", is_same(o.value.pus_tm, tm))
        decoded_report_contract(o.value, sub, src, ws, we)


def bad_widths_contract(data, tlen, ws, we):
    o = outcome(Service1Tm.unpack, data, UnpackParams(tlen, ws, we))
    ensures("raises-only", o.ok or o.raised(ValueError, InvalidTmCrc16))
    if o.ok:  # only reports that carry no field of the invalid width can be accepted
        sub = data[8]
        ensures("bad-step-width-unused", implies(ws != 1, both(sub != 5, sub != 6)))
        ensures("bad-code-width-unused", implies(we != 1, either(sub == 1, sub == 3, sub == 5, sub == 7)))


@obligation(["C15", "C10"], "Service1Tm.unpack/invalid-step-width", verifies=S1_FUNCS, branch_probe_ms=250)
def s1_unpack_bad_step_width(data: Bytes, tlen: IntRange(0, None), ws: Choice(-1, 0, 3, 16)):
    """widths that are not 1, 2, 4 or 8 octets never let an undocumented exception escape"""
    bad_widths_contract(data, tlen, ws, 1)


@obligation(["C15", "C10"], "Service1Tm.unpack/invalid-code-width", verifies=S1_FUNCS, branch_probe_ms=250)
def s1_unpack_bad_code_width(data: Bytes, tlen: IntRange(0, None), we: Choice(-1, 0, 3, 9)):
    bad_widths_contract(data, tlen, 1, we)
