"""C05 - CFDP fixed PDU header (spacepackets/cfdp/pdu/header.py, cfdp/conf.py)."""
from pyvc_spec import *
from spec_cfdp import pdu_header_octets
from spec_util import pow256
from cfdp_common import mk_conf, ids_in_range, W
from spacepackets.exceptions import BytesTooShortError
from spacepackets.cfdp.defs import (PduType, Direction, TransmissionMode, CrcFlag, LargeFileFlag, SegmentationControl,
                                    SegmentMetadataFlag, UnsupportedCfdpVersion)
from spacepackets.cfdp.conf import PduConfig
from spacepackets.cfdp.pdu.header import PduHeader, AbstractPduBase
from spacepackets.util import ByteFieldGenerator

M = "spacepackets.cfdp.pdu.header:"


@obligation(["C05"], "PduHeader.pack", verifies=[M + "PduHeader.pack", M + "PduHeader.__init__", M + "PduHeader.header_len"])
def header_pack(ptype: EnumOf(PduType), direction: EnumOf(Direction), mode: EnumOf(TransmissionMode), crc: EnumOf(CrcFlag),
                large: EnumOf(LargeFileFlag), dlen: IntRange(0, 65535), segctrl: EnumOf(SegmentationControl),
                segmeta: EnumOf(SegmentMetadataFlag), we: W, ws: W, src: Int, seq: Int, dst: Int):
    requires(ids_in_range(we, ws, src, seq, dst))
    conf = mk_conf(we, ws, src, seq, dst, mode, crc, large, direction, segctrl)
    h = PduHeader(ptype, segmeta, dlen, conf)
    r = h.pack()
    ensures("layout", r == pdu_header_octets(ptype, direction, mode, crc, large, dlen, segctrl, segmeta, we, ws, src, seq, dst))
    ensures("header_len", both(h.header_len == 4 + 2 * we + ws, len(r) == h.header_len, conf.header_len() == h.header_len))
    ensures("packet_len", h.packet_len == h.header_len + dlen)
    ensures("accessors", both(h.pdu_type == ptype, h.direction == direction, h.transmission_mode == mode, h.crc_flag == crc,
                              h.file_flag == large, h.pdu_data_field_len == dlen, h.seg_ctrl == segctrl,
                              h.segment_metadata_flag == segmeta, h.source_entity_id.value == src,
                              h.transaction_seq_num.value == seq, h.dest_entity_id.value == dst))
    ensures("pack-pure", h.pack() == r)
    ensures("len-from-raw", AbstractPduBase.header_len_from_raw(r) == h.header_len)


@obligation(["C05"], "PduHeader/refusals", verifies=[M + "PduHeader.set_entity_ids", M + "PduHeader.pdu_data_field_len"])
def header_refusals(ptype: EnumOf(PduType), segmeta: EnumOf(SegmentMetadataFlag), dlen: Int, we: W, wd: W, ws: W):
    conf = PduConfig(source_entity_id=ByteFieldGenerator.from_int(we, 0), dest_entity_id=ByteFieldGenerator.from_int(wd, 0),
                     transaction_seq_num=ByteFieldGenerator.from_int(ws, 0), trans_mode=TransmissionMode.ACKNOWLEDGED)
    o = outcome(PduHeader, ptype, segmeta, dlen, conf)
    ensures("raises-only", o.ok or o.raised(ValueError))
    ensures("len-too-large-refused", implies(dlen > 65535, o.raised(ValueError)))
    ensures("id-widths-differ-refused", implies(we != wd, o.raised(ValueError)))
    ensures("accepted", implies(both(0 <= dlen, dlen <= 65535, we == wd), o.ok))
    if o.ok and dlen >= 0:
        h = o.value
        o2 = outcome(setattr, h, "pdu_data_field_len", dlen + 65536)
        ensures("setter-refuses", o2.raised(ValueError))
        ensures("setter-keeps-old", h.pdu_data_field_len == dlen)


@obligation(["C05", "C09", "C10"], "PduHeader.unpack", verifies=[M + "PduHeader.unpack", M + "PduHeader.check_len_in_bytes"])
def header_unpack(data: Bytes):
    o = outcome(PduHeader.unpack, data)
    ensures("raises-only", o.ok or o.raised(ValueError, UnsupportedCfdpVersion))
    if len(data) < 4:
        ensures("short-fixed-part", o.raised(BytesTooShortError))
    else:
        we = bits(data[3], 6, 4) + 1
        ws = bits(data[3], 2, 0) + 1
        if bits(data[0], 7, 5) != 1:
            ensures("version", o.raised(UnsupportedCfdpVersion))
        elif not both(either(we == 1, we == 2, we == 4, we == 8), either(ws == 1, ws == 2, ws == 4, ws == 8)):
            ensures("width-code", o.raised(ValueError))
        elif len(data) < 4 + 2 * we + ws:
            ensures("short-variable-part", o.raised(BytesTooShortError))
        else:
            ensures("accepted", o.ok)
            if o.ok:
                h = o.value
                ensures("flags", both(h.pdu_type == bits(data[0], 4, 4), h.direction == bits(data[0], 3, 3),
                                      h.transmission_mode == bits(data[0], 2, 2), h.crc_flag == bits(data[0], 1, 1),
                                      h.file_flag == bits(data[0], 0, 0)))
                ensures("data-field-len", h.pdu_data_field_len == data[1] * 256 + data[2])
                ensures("octet3", both(h.seg_ctrl == bits(data[3], 7, 7), h.segment_metadata_flag == bits(data[3], 3, 3),
                                       h.source_entity_id.byte_len == we, h.dest_entity_id.byte_len == we,
                                       h.transaction_seq_num.byte_len == ws))
                ensures("ids", both(h.source_entity_id.as_bytes == data[4:4 + we],
                                    h.transaction_seq_num.as_bytes == data[4 + we:4 + we + ws],
                                    h.dest_entity_id.as_bytes == data[4 + we + ws:4 + 2 * we + ws]))
                ensures("id-values", both(h.source_entity_id.value == from_be(data[4:4 + we]),
                                          h.transaction_seq_num.value == from_be(data[4 + we:4 + we + ws]),
                                          h.dest_entity_id.value == from_be(data[4 + we + ws:4 + 2 * we + ws])))
                ensures("header_len", both(h.header_len == 4 + 2 * we + ws, h.packet_len == h.header_len + data[1] * 256 + data[2]))
                ensures("repack", h.pack() == data[0:4 + 2 * we + ws])
                ensures("prefix-only", same_state(h, PduHeader.unpack(data[0:4 + 2 * we + ws])))


@obligation(["C05", "C09"], "PduHeader/roundtrip")
def header_roundtrip(ptype: EnumOf(PduType), direction: EnumOf(Direction), mode: EnumOf(TransmissionMode), crc: EnumOf(CrcFlag),
                     large: EnumOf(LargeFileFlag), dlen: IntRange(0, 65535), segctrl: EnumOf(SegmentationControl),
                     segmeta: EnumOf(SegmentMetadataFlag), we: W, ws: W, src: Int, seq: Int, dst: Int, suffix: Bytes):
    requires(ids_in_range(we, ws, src, seq, dst))
    conf = mk_conf(we, ws, src, seq, dst, mode, crc, large, direction, segctrl)
    snap = snapshot(conf)
    h = PduHeader(ptype, segmeta, dlen, conf)
    raw = h.pack()
    g = PduHeader.unpack(raw + suffix)
    ensures("values", both(g.pdu_type == ptype, g.direction == direction, g.transmission_mode == mode, g.crc_flag == crc,
                           g.file_flag == large, g.pdu_data_field_len == dlen, g.seg_ctrl == segctrl,
                           g.segment_metadata_flag == segmeta))
    ensures("ids", both(g.source_entity_id.value == src, g.source_entity_id.byte_len == we,
                        g.transaction_seq_num.value == seq, g.transaction_seq_num.byte_len == ws,
                        g.dest_entity_id.value == dst, g.dest_entity_id.byte_len == we))
    ensures("equal", both(g == h, g.pdu_conf == conf))
    ensures("repack", g.pack() == raw)
    ensures("lengths", both(g.header_len == len(raw), g.packet_len == len(raw) + dlen))
    ensures("caller-config-untouched", same_state(conf, snap))
    g2 = PduHeader.unpack(raw + suffix)
    ensures("fresh-config-per-unpack", not is_same(g.pdu_conf, g2.pdu_conf))
