"""C19 - sequence counters (spacepackets/seqcount.py).

Histories are covered by induction: every harness starts from an arbitrary state satisfying the
invariant (in-memory: 0 <= count < 2^w; file: first line holds a valid count, arbitrary text behind
it) and shows one call preserves it and returns/advances as stated.  The points "between calls" at
which a new provider instance may be created are exactly the states in which the invariant holds.
"""
from pyvc_spec import *
from spec_seqcount import next_count, in_range
from spacepackets.seqcount import SeqCountProvider, FileSeqCountProvider, PusFileSeqCountProvider

M = "spacepackets.seqcount:"
WIDTH = IntRange(0, 4096)    # counter widths up to 4096 bits (beyond any packet format; 2**w for astronomically large w exhausts memory natively)


# ---------------------------------------------------------------------------------- in-memory
@obligation(["C19"], "SeqCountProvider.__init__", verifies=[M + "SeqCountProvider.__init__", M + "SeqCountProvider.get_and_increment",
                                                            M + "ProvidesSeqCount.__next__"])
def mem_init(width: WIDTH):
    p = SeqCountProvider(width)
    ensures("count-zero", p.count == 0)
    ensures("width", p.max_bit_width == width)
    ensures("invariant", in_range(p.count, width))
    ensures("first-is-zero", next(p) == 0)


@obligation(["C19"], "SeqCountProvider.get_and_increment", verifies=[M + "SeqCountProvider.get_and_increment", M + "ProvidesSeqCount.__next__"])
def mem_step(width: WIDTH, c: Int, via_next: Bool, width0: WIDTH, width_set_later: Bool):
    """one call from an arbitrary in-range state; the width may have been (re)configured through the documented
    max_bit_width setter after construction - the modulus is that of the CURRENT width"""
    requires(in_range(c, width))
    if width_set_later:
        p = SeqCountProvider(width0)
        p.max_bit_width = width
    else:
        p = SeqCountProvider(width)
    p.count = c
    if via_next:
        r = next(p)
    else:
        r = p.get_and_increment()
    ensures("returns-old", r == c)
    ensures("invariant", in_range(p.count, width))
    ensures("modulo", p.count == next_count(c, width))
    ensures("width-kept", p.max_bit_width == width)


# ---------------------------------------------------------------------------------- file-backed
@obligation(["C19"], "FileSeqCountProvider.__init__", verifies=[M + "FileSeqCountProvider.__init__", M + "FileSeqCountProvider.create_new"])
def file_init(width: WIDTH, present: Bool, text: Text):
    if present:
        path = ghost_file(text)
    else:
        path = ghost_file(None)
    p = FileSeqCountProvider(width, path)
    ensures("width", p.max_bit_width == width)
    if present:
        ensures("existing-file-unchanged", file_text(path) == text)
    else:
        ensures("created-with-zero", file_text(path) == "0\n")
        ensures("current-is-zero", p.current() == 0)
        ensures("first-is-zero", next(p) == 0)


@obligation(["C19"], "FileSeqCountProvider.current", verifies=[M + "FileSeqCountProvider.current", M + "FileSeqCountProvider.check_count"])
def file_current(width: WIDTH, c: Int, rest: Text):
    requires(in_range(c, width))
    path = ghost_file(f"{c}\n" + rest)
    p = FileSeqCountProvider(width, path)
    o = outcome(p.current)
    ensures("ok", o.ok)
    if o.ok:
        ensures("stored-count", o.value == c)
    ensures("file-unchanged", file_text(path) == f"{c}\n" + rest)


@obligation(["C19"], "FileSeqCountProvider.get_and_increment",
            verifies=[M + "FileSeqCountProvider.get_and_increment", M + "FileSeqCountProvider.check_count",
                      M + "FileSeqCountProvider._increment_with_rollover", M + "ProvidesSeqCount.__next__", M + "FileSeqCountProvider.current"])
def file_step(width: WIDTH, c: Int, rest: Text, via_next: Bool, width0: WIDTH, width_set_later: Bool):
    requires(in_range(c, width))
    path = ghost_file(f"{c}\n" + rest)
    if width_set_later:
        p = FileSeqCountProvider(width0, path)
        p.max_bit_width = width
    else:
        p = FileSeqCountProvider(width, path)
    if via_next:
        o = outcome(next, p)
    else:
        o = outcome(p.get_and_increment)
    ensures("ok", o.ok)
    if o.ok:
        nxt = next_count(c, width)
        ensures("returns-stored", o.value == c)
        ensures("file-holds-next", file_text(path).startswith(f"{nxt}\n"))
        # a new instance created at this point (process restart) continues the sequence
        q = FileSeqCountProvider(width, path)
        ensures("restart-current", q.current() == nxt)
        ensures("restart-continues", next(q) == nxt)
        ensures("same-instance-continues", p.current() == next_count(nxt, width))
        ensures("invariant", in_range(p.current(), width))


@obligation(["C19"], "FileSeqCountProvider.get_and_increment/any-text",
            verifies=[M + "FileSeqCountProvider.get_and_increment", M + "FileSeqCountProvider.check_count",
                      M + "FileSeqCountProvider._increment_with_rollover", M + "FileSeqCountProvider.current"])
def file_any_text(width: WIDTH, text: Text):
    path = ghost_file(text)
    p = FileSeqCountProvider(width, path)
    o = outcome(p.get_and_increment)
    ensures("raises-only", o.ok or o.raised(ValueError))
    if o.ok:
        ensures("in-range", in_range(o.value, width))
        ensures("restart-continues", FileSeqCountProvider(width, path).current() == next_count(o.value, width))
    else:
        ensures("file-unchanged-on-error", file_text(path) == text)


@obligation(["C19"], "FileSeqCountProvider.current/any-text", verifies=[M + "FileSeqCountProvider.current", M + "FileSeqCountProvider.check_count"])
def file_current_any_text(width: WIDTH, text: Text):
    path = ghost_file(text)
    p = FileSeqCountProvider(width, path)
    o = outcome(p.current)
    ensures("raises-only", o.ok or o.raised(ValueError))
    if o.ok:
        ensures("in-range", in_range(o.value, width))
    ensures("file-unchanged", file_text(path) == text)


@obligation(["C19"], "FileSeqCountProvider.current/missing-file", verifies=[M + "FileSeqCountProvider.current"])
def file_missing_current(width: WIDTH, removed: Bool, text: Text):
    path = ghost_file(text)
    p = FileSeqCountProvider(width, path)
    if removed:
        ghost_remove(path)
    o = outcome(p.current)
    ensures("file-not-found-iff-absent", o.raised(FileNotFoundError) == removed)
    if removed:
        ensures("not-recreated", file_text(path) is None)


@obligation(["C19"], "FileSeqCountProvider.get_and_increment/missing-file", verifies=[M + "FileSeqCountProvider.get_and_increment"])
def file_missing_next(width: WIDTH, removed: Bool, text: Text):
    path = ghost_file(text)
    p = FileSeqCountProvider(width, path)
    if removed:
        ghost_remove(path)
    o = outcome(next, p)
    ensures("file-not-found-iff-absent", o.raised(FileNotFoundError) == removed)
    if removed:
        ensures("not-recreated", file_text(path) is None)


@obligation(["C19"], "PusFileSeqCountProvider", verifies=[M + "PusFileSeqCountProvider.__init__", M + "FileSeqCountProvider.__init__",
                                                          M + "FileSeqCountProvider.get_and_increment"])
def pus_file(c: Int, rest: Text, present: Bool):
    requires(in_range(c, 14))
    if present:
        path = ghost_file(f"{c}\n" + rest)
    else:
        requires(c == 0)
        path = ghost_file(None)
    p = PusFileSeqCountProvider(path)
    ensures("width-14", p.max_bit_width == 14)
    r = next(p)
    ensures("returns-stored", r == c)
    ensures("rollover-at-16383", implies(c == 16383, PusFileSeqCountProvider(path).current() == 0))
    ensures("restart-continues", PusFileSeqCountProvider(path).current() == next_count(c, 14))
