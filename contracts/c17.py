"""C17 - USLP headers and transfer frames (spacepackets/uslp/header.py, frame.py, defs.py); CCSDS 732.1-B-2."""
from pyvc_spec import *
from spec_uslp import (truncated_header_octets, primary_header_octets, tfdf_octets, frame_octets, pow256n)
from spacepackets.uslp.defs import (UslpInvalidFrameHeader, UslpInvalidRawPacketOrFrameLen, UslpInvalidConstructionRules,
                                    UslpFhpVhopFieldMissing, UslpTruncatedFrameNotAllowed, UslpVersionMissmatch, UslpTypeMissmatch)
from spacepackets.uslp.header import (PrimaryHeader, TruncatedPrimaryHeader, SourceOrDestField, BypassSequenceControlFlag,
                                      ProtocolCommandFlag, HeaderType, determine_header_type)
from spacepackets.uslp.frame import (TransferFrame, TransferFrameDataField, TfdzConstructionRules, UslpProtocolIdentifier,
                                     FrameType, FixedFrameProperties, VarFrameProperties)

H = "spacepackets.uslp.header:"
F = "spacepackets.uslp.frame:"
N = Choice(0, 1, 2, 3, 4, 5, 6, 7)


# ------------------------------------------------------------------------------------------------ primary headers

@obligation(["C17"], "PrimaryHeader.pack", verifies=[H + "PrimaryHeader.pack", H + "PrimaryHeaderBase._pack_common_header",
                                                      H + "PrimaryHeader.len", H + "determine_header_type"])
def ph_pack(scid: IntRange(0, 65535), srcdst: EnumOf(SourceOrDestField), vcid: IntRange(0, 63), map_id: IntRange(0, 15),
            frame_len: IntRange(0, 65535), bypass: EnumOf(BypassSequenceControlFlag), pcc: EnumOf(ProtocolCommandFlag),
            ocf: Bool, n: N, vcf: Int):
    requires(both(0 <= vcf, vcf < pow256n(n)))
    h = PrimaryHeader(scid, srcdst, vcid, map_id, frame_len, bypass, pcc, ocf, n, vcf)
    r = h.pack()
    ensures("layout", r == primary_header_octets(scid, srcdst, vcid, map_id, frame_len, bypass, pcc, ocf, n, vcf))
    ensures("len", both(h.len() == 7 + n, len(r) == h.len(), not h.truncated()))
    ensures("header-type", determine_header_type(r) == HeaderType.NON_TRUNCATED)
    ensures("pack-twice", h.pack() == r)


@obligation(["C17"], "TruncatedPrimaryHeader.pack", verifies=[H + "TruncatedPrimaryHeader.pack", H + "PrimaryHeaderBase._pack_common_header",
                                                               H + "TruncatedPrimaryHeader.len", H + "determine_header_type"])
def th_pack(scid: IntRange(0, 65535), srcdst: EnumOf(SourceOrDestField), vcid: IntRange(0, 63), map_id: IntRange(0, 15)):
    h = TruncatedPrimaryHeader(scid, srcdst, vcid, map_id)
    r = h.pack()
    ensures("layout", r == truncated_header_octets(scid, srcdst, vcid, map_id))
    ensures("len", both(h.len() == 4, len(r) == 4, h.truncated()))
    ensures("header-type", determine_header_type(r) == HeaderType.TRUNCATED)
    ensures("pack-twice", h.pack() == r)


@obligation(["C17"], "PrimaryHeader.pack/out-of-range-ids", verifies=[H + "PrimaryHeaderBase._pack_common_header"])
def ph_refusal(scid: Int, srcdst: EnumOf(SourceOrDestField), vcid: Int, map_id: Int, frame_len: IntRange(0, 65535),
               bypass: EnumOf(BypassSequenceControlFlag), pcc: EnumOf(ProtocolCommandFlag), ocf: Bool):
    """out-of-range IDs are refused: ValueError iff SCID not in [0, 65535] or VCID not in [0, 63] or MAP ID not in [0, 15]"""
    bad = either(scid < 0, scid > 65535, vcid < 0, vcid > 63, map_id < 0, map_id > 15)
    o = outcome(PrimaryHeader(scid, srcdst, vcid, map_id, frame_len, bypass, pcc, ocf, 0, None).pack)
    ensures("valueerror-iff", iff(o.raised(ValueError), bad))
    ensures("raises-only", o.ok or o.raised(ValueError))


@obligation(["C17"], "TruncatedPrimaryHeader.pack/out-of-range-ids", verifies=[H + "PrimaryHeaderBase._pack_common_header"])
def th_refusal(scid: Int, srcdst: EnumOf(SourceOrDestField), vcid: Int, map_id: Int):
    bad = either(scid < 0, scid > 65535, vcid < 0, vcid > 63, map_id < 0, map_id > 15)
    o = outcome(TruncatedPrimaryHeader(scid, srcdst, vcid, map_id).pack)
    ensures("valueerror-iff", iff(o.raised(ValueError), bad))
    ensures("raises-only", o.ok or o.raised(ValueError))


USLP_ERRORS = (ValueError, UslpInvalidFrameHeader, UslpInvalidRawPacketOrFrameLen, UslpInvalidConstructionRules,
               UslpFhpVhopFieldMissing, UslpTruncatedFrameNotAllowed, UslpVersionMissmatch, UslpTypeMissmatch)


@obligation(["C17", "C10"], "PrimaryHeader.unpack/shorter-than-7", verifies=[H + "PrimaryHeader.unpack"])
def ph_unpack_short(data: BytesLen(0, 6)):
    o = outcome(PrimaryHeader.unpack, data)
    ensures("refused", o.raised(UslpInvalidRawPacketOrFrameLen))


@obligation(["C17", "C09", "C10"], "PrimaryHeader.unpack", verifies=[H + "PrimaryHeader.unpack", H + "PrimaryHeaderBase._unpack_raw_header_base_fields",
                                                                     H + "PrimaryHeader.len"])
def ph_unpack(data: Bytes, n: N):
    """any octet string of at least 7 octets whose VCF count length field is n (n = 0..7 covers them all)"""
    requires(len(data) >= 7)
    requires(bits(data[6], 2, 0) == n)
    o = outcome(PrimaryHeader.unpack, data)
    ensures("raises-only", o.ok or o.raised(ValueError, UslpInvalidRawPacketOrFrameLen, UslpVersionMissmatch, UslpTypeMissmatch))
    version_ok = bits(data[0], 7, 4) == 12
    not_truncated = bits(data[3], 0, 0) == 0
    complete = len(data) >= 7 + n
    ensures("accepted-iff", iff(o.ok, both(version_ok, not_truncated, complete)))
    ensures("version-mismatch", implies(not version_ok, o.raised(UslpVersionMissmatch)))
    ensures("type-mismatch", implies(both(version_ok, not not_truncated), o.raised(UslpTypeMissmatch)))
    ensures("strict-prefix-refused", implies(both(version_ok, not_truncated, not complete), o.raised(UslpInvalidRawPacketOrFrameLen)))
    if o.ok:
        h = o.value
        w = from_be(data[0:4])
        ensures("ids", both(h.scid == bits(w, 27, 12), h.src_dest == bits(w, 11, 11), h.vcid == bits(w, 10, 5), h.map_id == bits(w, 4, 1)))
        ensures("frame-len", h.frame_len == data[4] * 256 + data[5])
        ensures("flags", both(h.bypass_seq_ctrl_flag == bits(data[6], 7, 7), h.prot_ctrl_cmd_flag == bits(data[6], 6, 6),
                              h.op_ctrl_flag == bits(data[6], 3, 3), h.vcf_count_len == n))
        if n > 0:
            ensures("vcf-count", h.vcf_count == from_be(data[7:7 + n]))
        ensures("len", both(h.len() == 7 + n, not h.truncated()))
        ensures("repack", implies(bits(data[6], 5, 4) == 0, h.pack() == data[0:7 + n]))
        ensures("prefix-only", same_state(h, PrimaryHeader.unpack(data[0:7 + n])))


@obligation(["C17", "C09", "C10"], "TruncatedPrimaryHeader.unpack", verifies=[H + "TruncatedPrimaryHeader.unpack",
                                                                              H + "PrimaryHeaderBase._unpack_raw_header_base_fields"])
def th_unpack(data: Bytes):
    o = outcome(TruncatedPrimaryHeader.unpack, data)
    ensures("raises-only", o.ok or o.raised(ValueError, UslpInvalidRawPacketOrFrameLen, UslpVersionMissmatch, UslpTypeMissmatch))
    ensures("strict-prefix-refused", implies(len(data) < 4, o.raised(UslpInvalidRawPacketOrFrameLen)))
    if len(data) >= 4:
        version_ok = bits(data[0], 7, 4) == 12
        truncated = bits(data[3], 0, 0) == 1
        ensures("accepted-iff", iff(o.ok, both(version_ok, truncated)))
        ensures("version-mismatch", implies(not version_ok, o.raised(UslpVersionMissmatch)))
        ensures("type-mismatch", implies(both(version_ok, not truncated), o.raised(UslpTypeMissmatch)))
        if o.ok:
            h = o.value
            w = from_be(data[0:4])
            ensures("ids", both(h.scid == bits(w, 27, 12), h.src_dest == bits(w, 11, 11), h.vcid == bits(w, 10, 5), h.map_id == bits(w, 4, 1)))
            ensures("len", both(h.len() == 4, h.truncated()))
            ensures("repack", h.pack() == data[0:4])
            ensures("prefix-only", same_state(h, TruncatedPrimaryHeader.unpack(data[0:4])))


@obligation(["C17", "C10"], "determine_header_type", verifies=[H + "determine_header_type"])
def header_type(data: Bytes):
    o = outcome(determine_header_type, data)
    ensures("raises-only", o.ok or o.raised(ValueError))
    ensures("valueerror-iff-short", iff(o.raised(ValueError), len(data) < 4))
    if o.ok:
        ensures("by-flag", (o.value == HeaderType.TRUNCATED) == (bits(data[3], 0, 0) == 1))
        ensures("either", either(o.value == HeaderType.TRUNCATED, o.value == HeaderType.NON_TRUNCATED))


@obligation(["C17", "C09"], "PrimaryHeader/roundtrip", verifies=[H + "PrimaryHeader.unpack", H + "PrimaryHeader.pack"])
def ph_roundtrip(scid: IntRange(0, 65535), srcdst: EnumOf(SourceOrDestField), vcid: IntRange(0, 63), map_id: IntRange(0, 15),
                 frame_len: IntRange(0, 65535), bypass: EnumOf(BypassSequenceControlFlag), pcc: EnumOf(ProtocolCommandFlag),
                 ocf: Bool, n: N, vcf: Int, suffix: Bytes):
    requires(both(0 <= vcf, vcf < pow256n(n)))
    h = PrimaryHeader(scid, srcdst, vcid, map_id, frame_len, bypass, pcc, ocf, n, vcf)
    raw = h.pack()
    o = outcome(PrimaryHeader.unpack, raw + suffix)
    ensures("accepted", o.ok)
    if o.ok:
        g = o.value
        ensures("ids", both(g.scid == scid, g.src_dest == srcdst, g.vcid == vcid, g.map_id == map_id))
        ensures("fields", both(g.frame_len == frame_len, g.bypass_seq_ctrl_flag == bypass, g.prot_ctrl_cmd_flag == pcc,
                               g.op_ctrl_flag == ocf, g.vcf_count_len == n))
        if n > 0:
            ensures("vcf-count", g.vcf_count == vcf)
        ensures("len", both(g.len() == len(raw), g.len() == 7 + n))
        ensures("repack", g.pack() == raw)
    # every strict prefix is refused
    o2 = outcome(PrimaryHeader.unpack, raw[0:len(raw) - 1])
    ensures("prefix-refused", o2.raised(UslpInvalidRawPacketOrFrameLen))
    o3 = outcome(TruncatedPrimaryHeader.unpack, raw + suffix)
    ensures("not-a-truncated-header", o3.raised(UslpTypeMissmatch))


@obligation(["C17", "C09"], "TruncatedPrimaryHeader/roundtrip", verifies=[H + "TruncatedPrimaryHeader.unpack", H + "TruncatedPrimaryHeader.pack"])
def th_roundtrip(scid: IntRange(0, 65535), srcdst: EnumOf(SourceOrDestField), vcid: IntRange(0, 63), map_id: IntRange(0, 15), suffix: Bytes):
    h = TruncatedPrimaryHeader(scid, srcdst, vcid, map_id)
    raw = h.pack()
    o = outcome(TruncatedPrimaryHeader.unpack, raw + suffix)
    ensures("accepted", o.ok)
    if o.ok:
        g = o.value
        ensures("ids", both(g.scid == scid, g.src_dest == srcdst, g.vcid == vcid, g.map_id == map_id))
        ensures("state", same_state(g, h))
        ensures("len", g.len() == 4)
        ensures("repack", g.pack() == raw)
    ensures("prefix-refused", outcome(TruncatedPrimaryHeader.unpack, raw[0:3]).raised(UslpInvalidRawPacketOrFrameLen))
    ensures("not-a-full-header", not outcome(PrimaryHeader.unpack, raw + suffix).ok)
