"""C17 - USLP headers and transfer frames (spacepackets/uslp/header.py, frame.py, defs.py); CCSDS 732.1-B-2."""
from pyvc_spec import *
from spec_uslp import (truncated_header_octets, primary_header_octets, tfdf_octets, frame_octets, pow256n)
from spacepackets.uslp.defs import (UslpInvalidFrameHeader, UslpInvalidRawPacketOrFrameLen, UslpInvalidConstructionRules,
                                    UslpFhpVhopFieldMissing, UslpTruncatedFrameNotAllowed, UslpVersionMissmatch, UslpTypeMissmatch)
from spacepackets.uslp.header import (PrimaryHeader, TruncatedPrimaryHeader, SourceOrDestField, BypassSequenceControlFlag,
                                      ProtocolCommandFlag, HeaderType, determine_header_type)
from spacepackets.uslp.frame import (TransferFrame, TransferFrameDataField, TfdzConstructionRules, UslpProtocolIdentifier,
                                     FrameType, FixedFrameProperties, VarFrameProperties)

H = "spacepackets.uslp.header:"
F = "spacepackets.uslp.frame:"
N = Choice(0, 1, 2, 3, 4, 5, 6, 7)
N_LO = Choice(0, 1, 2, 3)
N_HI = Choice(4, 5, 6, 7)


# ------------------------------------------------------------------------------------------------ primary headers

@obligation(["C17"], "PrimaryHeader.pack", verifies=[H + "PrimaryHeader.pack", H + "PrimaryHeaderBase._pack_common_header",
                                                      H + "PrimaryHeader.len", H + "determine_header_type"])
def ph_pack(scid: IntRange(0, 65535), srcdst: EnumOf(SourceOrDestField), vcid: IntRange(0, 63), map_id: IntRange(0, 15),
            frame_len: IntRange(0, 65535), bypass: EnumOf(BypassSequenceControlFlag), pcc: EnumOf(ProtocolCommandFlag),
            ocf: Bool, n: N, vcf: Int):
    requires(both(0 <= vcf, vcf < pow256n(n)))
    h = PrimaryHeader(scid, srcdst, vcid, map_id, frame_len, bypass, pcc, ocf, n, vcf)
    r = h.pack()
    ensures("layout", r == primary_header_octets(scid, srcdst, vcid, map_id, frame_len, bypass, pcc, ocf, n, vcf))
    ensures("len", both(h.len() == 7 + n, len(r) == h.len(), not h.truncated()))
    ensures("header-type", determine_header_type(r) == HeaderType.NON_TRUNCATED)
    ensures("pack-twice", h.pack() == r)


@obligation(["C17"], "TruncatedPrimaryHeader.pack", verifies=[H + "TruncatedPrimaryHeader.pack", H + "PrimaryHeaderBase._pack_common_header",
                                                               H + "TruncatedPrimaryHeader.len", H + "determine_header_type"])
def th_pack(scid: IntRange(0, 65535), srcdst: EnumOf(SourceOrDestField), vcid: IntRange(0, 63), map_id: IntRange(0, 15)):
    h = TruncatedPrimaryHeader(scid, srcdst, vcid, map_id)
    r = h.pack()
    ensures("layout", r == truncated_header_octets(scid, srcdst, vcid, map_id))
    ensures("len", both(h.len() == 4, len(r) == 4, h.truncated()))
    ensures("header-type", determine_header_type(r) == HeaderType.TRUNCATED)
    ensures("pack-twice", h.pack() == r)


@obligation(["C17"], "PrimaryHeader.pack/out-of-range-ids", verifies=[H + "PrimaryHeaderBase._pack_common_header"])
def ph_refusal(scid: Int, srcdst: EnumOf(SourceOrDestField), vcid: Int, map_id: Int, frame_len: IntRange(0, 65535),
               bypass: EnumOf(BypassSequenceControlFlag), pcc: EnumOf(ProtocolCommandFlag), ocf: Bool):
    """out-of-range IDs are refused: ValueError iff SCID not in [0, 65535] or VCID not in [0, 63] or MAP ID not in [0, 15]"""
    bad = either(scid < 0, scid > 65535, vcid < 0, vcid > 63, map_id < 0, map_id > 15)
    o = outcome(PrimaryHeader(scid, srcdst, vcid, map_id, frame_len, bypass, pcc, ocf, 0, None).pack)
    ensures("valueerror-iff", iff(o.raised(ValueError), bad))
    ensures("raises-only", o.ok or o.raised(ValueError))


@obligation(["C17"], "TruncatedPrimaryHeader.pack/out-of-range-ids", verifies=[H + "PrimaryHeaderBase._pack_common_header"])
def th_refusal(scid: Int, srcdst: EnumOf(SourceOrDestField), vcid: Int, map_id: Int):
    bad = either(scid < 0, scid > 65535, vcid < 0, vcid > 63, map_id < 0, map_id > 15)
    o = outcome(TruncatedPrimaryHeader(scid, srcdst, vcid, map_id).pack)
    ensures("valueerror-iff", iff(o.raised(ValueError), bad))
    ensures("raises-only", o.ok or o.raised(ValueError))


USLP_ERRORS = (ValueError, UslpInvalidFrameHeader, UslpInvalidRawPacketOrFrameLen, UslpInvalidConstructionRules,
               UslpFhpVhopFieldMissing, UslpTruncatedFrameNotAllowed, UslpVersionMissmatch, UslpTypeMissmatch)


@obligation(["C17", "C10"], "PrimaryHeader.unpack/shorter-than-7", verifies=[H + "PrimaryHeader.unpack"])
def ph_unpack_short(data: BytesLen(0, 6)):
    o = outcome(PrimaryHeader.unpack, data)
    ensures("refused", o.raised(UslpInvalidRawPacketOrFrameLen))


@obligation(["C17", "C09", "C10"], "PrimaryHeader.unpack", verifies=[H + "PrimaryHeader.unpack", H + "PrimaryHeaderBase._unpack_raw_header_base_fields",
                                                                     H + "PrimaryHeader.len"])
def ph_unpack(data: Bytes, n: N):
    """any octet string of at least 7 octets whose VCF count length field is n (n = 0..7 covers them all)"""
    requires(len(data) >= 7)
    requires(bits(data[6], 2, 0) == n)
    o = outcome(PrimaryHeader.unpack, data)
    ensures("raises-only", o.ok or o.raised(ValueError, UslpInvalidRawPacketOrFrameLen, UslpVersionMissmatch, UslpTypeMissmatch))
    version_ok = bits(data[0], 7, 4) == 12
    not_truncated = bits(data[3], 0, 0) == 0
    complete = len(data) >= 7 + n
    ensures("accepted-iff", iff(o.ok, both(version_ok, not_truncated, complete)))
    ensures("version-mismatch", implies(not version_ok, o.raised(UslpVersionMissmatch)))
    ensures("type-mismatch", implies(both(version_ok, not not_truncated), o.raised(UslpTypeMissmatch)))
    ensures("strict-prefix-refused", implies(both(version_ok, not_truncated, not complete), o.raised(UslpInvalidRawPacketOrFrameLen)))
    if o.ok:
        h = o.value
        w = from_be(data[0:4])
        ensures("scid", h.scid == bits(w, 27, 12))
        ensures("src-dest", h.src_dest == bits(w, 11, 11))
        ensures("vcid", h.vcid == bits(w, 10, 5))
        ensures("map-id", h.map_id == bits(w, 4, 1))
        ensures("frame-len", h.frame_len == data[4] * 256 + data[5])
        ensures("flags", both(h.bypass_seq_ctrl_flag == bits(data[6], 7, 7), h.prot_ctrl_cmd_flag == bits(data[6], 6, 6),
                              h.op_ctrl_flag == bits(data[6], 3, 3), h.vcf_count_len == n))
        if n > 0:
            ensures("vcf-count", h.vcf_count == from_be(data[7:7 + n]))
        ensures("len", both(h.len() == 7 + n, not h.truncated()))
        ensures("repack", implies(bits(data[6], 5, 4) == 0, h.pack() == data[0:7 + n]))
        ensures("prefix-only", same_state(h, PrimaryHeader.unpack(data[0:7 + n])))


@obligation(["C17", "C09", "C10"], "TruncatedPrimaryHeader.unpack", verifies=[H + "TruncatedPrimaryHeader.unpack",
                                                                              H + "PrimaryHeaderBase._unpack_raw_header_base_fields"])
def th_unpack(data: Bytes):
    o = outcome(TruncatedPrimaryHeader.unpack, data)
    ensures("raises-only", o.ok or o.raised(ValueError, UslpInvalidRawPacketOrFrameLen, UslpVersionMissmatch, UslpTypeMissmatch))
    ensures("strict-prefix-refused", implies(len(data) < 4, o.raised(UslpInvalidRawPacketOrFrameLen)))
    if len(data) >= 4:
        version_ok = bits(data[0], 7, 4) == 12
        truncated = bits(data[3], 0, 0) == 1
        ensures("accepted-iff", iff(o.ok, both(version_ok, truncated)))
        ensures("version-mismatch", implies(not version_ok, o.raised(UslpVersionMissmatch)))
        ensures("type-mismatch", implies(both(version_ok, not truncated), o.raised(UslpTypeMissmatch)))
        if o.ok:
            h = o.value
            w = from_be(data[0:4])
            ensures("scid", h.scid == bits(w, 27, 12))
            ensures("src-dest", h.src_dest == bits(w, 11, 11))
            ensures("vcid", h.vcid == bits(w, 10, 5))
            ensures("map-id", h.map_id == bits(w, 4, 1))
            ensures("len", both(h.len() == 4, h.truncated()))
            ensures("repack", h.pack() == data[0:4])
            ensures("prefix-only", same_state(h, TruncatedPrimaryHeader.unpack(data[0:4])))


@obligation(["C17", "C10"], "determine_header_type", verifies=[H + "determine_header_type"])
def header_type(data: Bytes):
    o = outcome(determine_header_type, data)
    ensures("raises-only", o.ok or o.raised(ValueError))
    ensures("valueerror-iff-short", iff(o.raised(ValueError), len(data) < 4))
    if o.ok:
        ensures("by-flag", (o.value == HeaderType.TRUNCATED) == (bits(data[3], 0, 0) == 1))
        ensures("either", either(o.value == HeaderType.TRUNCATED, o.value == HeaderType.NON_TRUNCATED))


@obligation(["C17", "C09"], "PrimaryHeader/roundtrip", verifies=[H + "PrimaryHeader.unpack", H + "PrimaryHeader.pack"])
def ph_roundtrip(scid: IntRange(0, 65535), srcdst: EnumOf(SourceOrDestField), vcid: IntRange(0, 63), map_id: IntRange(0, 15),
                 frame_len: IntRange(0, 65535), bypass: EnumOf(BypassSequenceControlFlag), pcc: EnumOf(ProtocolCommandFlag),
                 ocf: Bool, n: N, vcf: Int, suffix: Bytes):
    requires(both(0 <= vcf, vcf < pow256n(n)))
    h = PrimaryHeader(scid, srcdst, vcid, map_id, frame_len, bypass, pcc, ocf, n, vcf)
    raw = h.pack()
    o = outcome(PrimaryHeader.unpack, raw + suffix)
    ensures("accepted", o.ok)
    if o.ok:
        g = o.value
        ensures("ids", both(g.scid == scid, g.src_dest == srcdst, g.vcid == vcid, g.map_id == map_id))
        ensures("fields", both(g.frame_len == frame_len, g.bypass_seq_ctrl_flag == bypass, g.prot_ctrl_cmd_flag == pcc,
                               g.op_ctrl_flag == ocf, g.vcf_count_len == n))
        if n > 0:
            ensures("vcf-count", g.vcf_count == vcf)
        ensures("len", both(g.len() == len(raw), g.len() == 7 + n))
        ensures("repack", g.pack() == raw)
    # every strict prefix is refused
    o2 = outcome(PrimaryHeader.unpack, raw[0:len(raw) - 1])
    ensures("prefix-refused", o2.raised(UslpInvalidRawPacketOrFrameLen))
    o3 = outcome(TruncatedPrimaryHeader.unpack, raw + suffix)
    ensures("not-a-truncated-header", o3.raised(UslpTypeMissmatch))


@obligation(["C17", "C09"], "TruncatedPrimaryHeader/roundtrip", verifies=[H + "TruncatedPrimaryHeader.unpack", H + "TruncatedPrimaryHeader.pack"])
def th_roundtrip(scid: IntRange(0, 65535), srcdst: EnumOf(SourceOrDestField), vcid: IntRange(0, 63), map_id: IntRange(0, 15), suffix: Bytes):
    h = TruncatedPrimaryHeader(scid, srcdst, vcid, map_id)
    raw = h.pack()
    o = outcome(TruncatedPrimaryHeader.unpack, raw + suffix)
    ensures("accepted", o.ok)
    if o.ok:
        g = o.value
        ensures("ids", both(g.scid == scid, g.src_dest == srcdst, g.vcid == vcid, g.map_id == map_id))
        ensures("state", same_state(g, h))
        ensures("len", g.len() == 4)
        ensures("repack", g.pack() == raw)
    ensures("prefix-refused", outcome(TruncatedPrimaryHeader.unpack, raw[0:3]).raised(UslpInvalidRawPacketOrFrameLen))
    ensures("not-a-full-header", not outcome(PrimaryHeader.unpack, raw + suffix).ok)


# ------------------------------------------------------------------------------------------------ transfer frame data field

RULE = EnumOf(TfdzConstructionRules)
UPID = IntRange(0, 31)          # every 5-bit protocol identifier, registered or not
FTYPE = Choice(None, FrameType.FIXED, FrameType.VARIABLE)
MAX_TFDZ = 65500                # far below the TFDF size limit of 65529 octets (4.1.4.1.3 / frame length field)


def rule_is_fixed(rule):
    """construction rules '000', '001', '010' organise fixed-length data zones and carry a 16-bit pointer (4.1.4.2.2-4)"""
    return rule <= 2


def family_matches(rule, ftype):
    if ftype is None:
        return True
    if ftype == FrameType.FIXED:
        return rule_is_fixed(rule)
    return not rule_is_fixed(rule)


@obligation(["C17", "C11"], "TransferFrameDataField.pack", verifies=[F + "TransferFrameDataField.pack", F + "TransferFrameDataField.__init__",
                                                                      F + "TransferFrameDataField.should_have_fhp_or_lvp_field",
                                                                      F + "TransferFrameDataField.len", F + "TransferFrameDataField.header_len",
                                                                      F + "TransferFrameDataField.verify_frame_type"])
def tfdf_pack(rule: RULE, upid: UPID, tfdz: BytesLen(0, MAX_TFDZ), has_ptr: Bool, ptr: IntRange(0, 65535), truncated: Bool, ftype: FTYPE):
    """frame_type is either left to be derived from the construction rule or names the rule's own family"""
    requires(family_matches(rule, ftype))
    p = None
    if has_ptr:
        p = ptr
    t = TransferFrameDataField(rule, upid, tfdz, p)
    needs_ptr = both(rule_is_fixed(rule), not truncated)
    ensures("needs-pointer", t.should_have_fhp_or_lvp_field(truncated, ftype if ftype is not None else
                                                            (FrameType.FIXED if rule_is_fixed(rule) else FrameType.VARIABLE)) == needs_ptr)
    ensures("family", both(t.verify_frame_type(FrameType.FIXED) == rule_is_fixed(rule),
                           t.verify_frame_type(FrameType.VARIABLE) == (not rule_is_fixed(rule))))
    o = outcome(t.pack, truncated, ftype)
    ensures("raises-only", o.ok or o.raised(UslpFhpVhopFieldMissing))
    ensures("pointer-missing-iff", iff(o.raised(UslpFhpVhopFieldMissing), both(needs_ptr, not has_ptr)))
    if o.ok:
        r = o.value
        ensures("layout", r == tfdf_octets(rule, upid, needs_ptr, ptr, tfdz))
        # consistent object: the pointer is there iff the format has the field
        ensures("len", implies(has_ptr == needs_ptr, both(t.len() == len(r), t.header_len() == len(r) - len(tfdz))))
        ensures("pack-twice", t.pack(truncated, ftype) == r)
        ensures("data-zone-kept", t.tfdz == tfdz)


@obligation(["C17", "C11"], "TransferFrameDataField.tfdz(setter)", verifies=[F + "TransferFrameDataField.tfdz", F + "TransferFrameDataField.len"])
def tfdf_set_tfdz(rule: RULE, upid: UPID, tfdz0: BytesLen(0, MAX_TFDZ), tfdz1: BytesLen(0, MAX_TFDZ), ptr: IntRange(0, 65535), truncated: Bool):
    needs_ptr = both(rule_is_fixed(rule), not truncated)
    p = None
    if needs_ptr:
        p = ptr
    t = TransferFrameDataField(rule, upid, tfdz0, p)
    t.tfdz = tfdz1
    fresh = TransferFrameDataField(rule, upid, tfdz1, p)
    r = t.pack(truncated)
    ensures("view", t.tfdz == tfdz1)
    ensures("len-follows", both(t.len() == len(r), t.len() == t.header_len() + len(tfdz1)))
    ensures("as-fresh", both(r == fresh.pack(truncated), same_state(t, fresh)))
    ensures("layout", r == tfdf_octets(rule, upid, needs_ptr, ptr, tfdz1))


@obligation(["C17", "C10"], "TransferFrameDataField.unpack", verifies=[F + "TransferFrameDataField.unpack"])
def tfdf_unpack(raw: Bytes, truncated: Bool, exact_len: Int, ftype: FTYPE):
    o = outcome(TransferFrameDataField.unpack, raw, truncated, exact_len, ftype)
    ensures("raises-only", o.ok or o.raised(ValueError, UslpInvalidRawPacketOrFrameLen, UslpInvalidConstructionRules))
    ensures("empty-refused", implies(len(raw) < 1, o.raised(UslpInvalidRawPacketOrFrameLen)))
    if len(raw) >= 1:
        rule = bits(raw[0], 7, 5)
        ensures("wrong-family-refused", implies(not family_matches(rule, ftype), o.raised(UslpInvalidConstructionRules)))
        # the pointer is read iff the rule is a fixed-length one, the frame is not truncated and not declared variable
        reads_ptr = both(rule_is_fixed(rule), not truncated, ftype != FrameType.VARIABLE)
        # a data field (actual or declared) too short to hold its own 3-octet header cannot be decoded
        ensures("pointer-cut-refused", implies(both(family_matches(rule, ftype), reads_ptr, either(len(raw) < 3, exact_len < 3)),
                                               o.raised(UslpInvalidRawPacketOrFrameLen)))
        if o.ok:
            t = o.value
            ensures("header-octet", both(t.tfdz_contr_rules == rule, t.uslp_ident == bits(raw[0], 4, 0)))
            if reads_ptr:
                ensures("pointer", t.fhp_or_lvop == raw[1] * 256 + raw[2])
                start = 3
            else:
                ensures("no-pointer", t.fhp_or_lvop is None)
                start = 1
            if both(start <= exact_len, exact_len <= len(raw)):
                ensures("data-zone-exact", both(t.tfdz == raw[start:exact_len], len(t.tfdz) == exact_len - start))
                ensures("len", t.len() == exact_len)
                ensures("repack", t.pack(truncated, ftype) == raw[0:exact_len])


@obligation(["C17"], "TransferFrameDataField/roundtrip", verifies=[F + "TransferFrameDataField.unpack", F + "TransferFrameDataField.pack"])
def tfdf_roundtrip(rule: RULE, upid: UPID, tfdz: BytesLen(0, MAX_TFDZ), ptr: IntRange(0, 65535), truncated: Bool, ftype: FTYPE, suffix: Bytes):
    requires(family_matches(rule, ftype))
    needs_ptr = both(rule_is_fixed(rule), not truncated)
    p = None
    if needs_ptr:
        p = ptr
    t = TransferFrameDataField(rule, upid, tfdz, p)
    raw = t.pack(truncated, ftype)
    o = outcome(TransferFrameDataField.unpack, raw + suffix, truncated, len(raw), ftype)
    ensures("accepted", o.ok)
    if o.ok:
        g = o.value
        ensures("fields", both(g.tfdz_contr_rules == rule, g.uslp_ident == upid, g.fhp_or_lvop == p, g.tfdz == tfdz))
        ensures("len", g.len() == len(raw))
        ensures("repack", g.pack(truncated, ftype) == raw)


# ------------------------------------------------------------------------------------------------ transfer frames

FIXED_RULE = IntRange(0, 2)       # '000', '001', '010'
VAR_RULE = IntRange(3, 7)         # '011' .. '111'
V_FRAME = [F + "TransferFrame.pack", F + "TransferFrame.len", F + "TransferFrame.set_frame_len_in_header", F + "TransferFrame.unpack",
           F + "TransferFrame.__get_tfdf_len", F + "FramePropertiesBase.__init__"]


def opt(present, octets):
    if present:
        return octets
    return None


def opt_len(present, octets):
    if present:
        return len(octets)
    return 0


def opt_octets(present, octets):
    if present:
        return octets
    return b""


def build_frame(kind, scid, srcdst, vcid, map_id, frame_len0, bypass, pcc, n, vcf, rule, upid, tfdz, ptr, has_iz, iz, has_ocf, ocf, has_fecf, fecf):
    """kind 0: fixed-length frame (pointer in the TFDF header), 1: variable-length frame, 2: truncated frame (annex D; no OCF)"""
    p = None
    if kind == 0:
        p = ptr
    if kind == 2:
        header = TruncatedPrimaryHeader(scid, srcdst, vcid, map_id)
    else:
        header = PrimaryHeader(scid, srcdst, vcid, map_id, frame_len0, bypass, pcc, has_ocf, n, vcf)
    tfdf = TransferFrameDataField(TfdzConstructionRules(rule), upid, tfdz, p)
    return TransferFrame(header, tfdf, opt(has_iz, iz), opt(has_ocf, ocf), opt(has_fecf, fecf))


def frame_total(kind, n, tfdz, has_iz, iz, has_ocf, has_fecf, fecf):
    """octets of the whole frame: header, insert zone, TFDF header (1 or 3), data zone, OCF (4), FECF"""
    hl = 7 + n
    if kind == 2:
        hl = 4
    return hl + opt_len(has_iz, iz) + 1 + (2 if kind == 0 else 0) + len(tfdz) + (4 if has_ocf else 0) + opt_len(has_fecf, fecf)


def frame_type_of(kind):
    if kind == 0:
        return FrameType.FIXED
    return FrameType.VARIABLE


def frame_pack_case(kind, scid, srcdst, vcid, map_id, frame_len0, bypass, pcc, n, vcf, rule, upid, tfdz, ptr,
                    has_iz, iz, has_ocf, ocf, has_fecf, fecf):
    requires(both(0 <= vcf, vcf < pow256n(n)))
    total = frame_total(kind, n, tfdz, has_iz, iz, has_ocf, has_fecf, fecf)
    requires(total <= 65536)
    truncated = kind == 2
    ftype = frame_type_of(kind)
    f = build_frame(kind, scid, srcdst, vcid, map_id, frame_len0, bypass, pcc, n, vcf, rule, upid, tfdz, ptr, has_iz, iz, has_ocf, ocf, has_fecf, fecf)
    f.set_frame_len_in_header()
    raw = f.pack(truncated, ftype)
    if truncated:
        hdr_octets = truncated_header_octets(scid, srcdst, vcid, map_id)
    else:
        # composition: the header octets are those of PrimaryHeader.pack, which the obligation "PrimaryHeader.pack" proves equal
        # to primary_header_octets(...) for every field tuple - here with the frame length field = total - 1
        h = f.header
        ensures("header-fields", both(h.scid == scid, h.src_dest == srcdst, h.vcid == vcid, h.map_id == map_id, h.bypass_seq_ctrl_flag == bypass,
                                      h.prot_ctrl_cmd_flag == pcc, h.op_ctrl_flag == has_ocf, h.vcf_count_len == n, h.vcf_count == vcf))
        ensures("frame-len-field", both(h.frame_len == len(raw) - 1, from_be(raw[4:6]) == len(raw) - 1))
        hdr_octets = h.pack()
    ensures("layout", raw == frame_octets(hdr_octets, opt_octets(has_iz, iz), tfdf_octets(rule, upid, kind == 0, ptr, tfdz),
                                          opt_octets(has_ocf, ocf), opt_octets(has_fecf, fecf)))
    ensures("len", both(f.len() == len(raw), len(raw) == total))
    ensures("pack-twice", f.pack(truncated, ftype) == raw)
    if not truncated:
        # C11: state and octets are those of a frame whose header was built with the final frame length
        fresh = build_frame(kind, scid, srcdst, vcid, map_id, total - 1, bypass, pcc, n, vcf, rule, upid, tfdz, ptr, has_iz, iz, has_ocf, ocf, has_fecf, fecf)
        ensures("as-fresh", both(same_state(f, fresh), raw == fresh.pack(truncated, ftype)))


def frame_decode_case(kind, scid, srcdst, vcid, map_id, bypass, pcc, n, vcf, rule, upid, tfdz, ptr,
                      has_iz, iz, has_ocf, ocf, has_fecf, fecf, suffix):
    """decode pack(f) ++ suffix with the matching managed parameters"""
    requires(both(0 <= vcf, vcf < pow256n(n)))
    total = frame_total(kind, n, tfdz, has_iz, iz, has_ocf, has_fecf, fecf)
    requires(total <= 65536)
    truncated = kind == 2
    ftype = frame_type_of(kind)
    f = build_frame(kind, scid, srcdst, vcid, map_id, total - 1, bypass, pcc, n, vcf, rule, upid, tfdz, ptr, has_iz, iz, has_ocf, ocf, has_fecf, fecf)
    raw = f.pack(truncated, ftype)
    if kind == 0:
        props = FixedFrameProperties(total, has_iz, has_fecf, opt(has_iz, len(iz)), opt(has_fecf, len(fecf)))
    else:
        props = VarFrameProperties(has_iz, has_fecf, total, opt(has_iz, len(iz)), opt(has_fecf, len(fecf)))
    o = outcome(TransferFrame.unpack, raw + suffix, ftype, props)
    ensures("accepted", o.ok)
    if o.ok:
        g = o.value
        # composition: the frame decoder's header is what the header decoder returns for the header octets alone; the obligations
        # PrimaryHeader/roundtrip and TruncatedPrimaryHeader/roundtrip prove that this is the original header, field by field
        if truncated:
            ensures("header", both(kind_of(g.header) == "TruncatedPrimaryHeader", same_state(g.header, TruncatedPrimaryHeader.unpack(f.header.pack()))))
        else:
            ensures("header", both(kind_of(g.header) == "PrimaryHeader", same_state(g.header, PrimaryHeader.unpack(f.header.pack())),
                                   g.header.len() == 7 + n))
        ensures("zones", both(g.insert_zone == opt(has_iz, iz), g.op_ctrl_field == opt(has_ocf, ocf), g.fecf == opt(has_fecf, fecf)))
        ensures("data-field", both(g.tfdf.tfdz_contr_rules == rule, g.tfdf.uslp_ident == upid, g.tfdf.fhp_or_lvop == f.tfdf.fhp_or_lvop,
                                   g.tfdf.tfdz == tfdz, g.tfdf.len() == f.tfdf.len()))
        ensures("len", g.len() == total)


@obligation(["C17", "C11"], "TransferFrame.pack/fixed", verifies=V_FRAME)
def frame_pack_fixed(scid: IntRange(0, 65535), srcdst: EnumOf(SourceOrDestField), vcid: IntRange(0, 63), map_id: IntRange(0, 15),
                     frame_len0: IntRange(0, 65535), bypass: EnumOf(BypassSequenceControlFlag), pcc: EnumOf(ProtocolCommandFlag), n: N, vcf: Int,
                     rule: FIXED_RULE, upid: UPID, tfdz: BytesLen(0, MAX_TFDZ), ptr: IntRange(0, 65535),
                     has_iz: Bool, iz: Bytes, has_ocf: Bool, ocf: BytesLen(4, 4), has_fecf: Bool, fecf: Bytes):
    frame_pack_case(0, scid, srcdst, vcid, map_id, frame_len0, bypass, pcc, n, vcf, rule, upid, tfdz, ptr, has_iz, iz, has_ocf, ocf, has_fecf, fecf)


@obligation(["C17", "C11"], "TransferFrame.pack/variable", verifies=V_FRAME)
def frame_pack_variable(scid: IntRange(0, 65535), srcdst: EnumOf(SourceOrDestField), vcid: IntRange(0, 63), map_id: IntRange(0, 15),
                        frame_len0: IntRange(0, 65535), bypass: EnumOf(BypassSequenceControlFlag), pcc: EnumOf(ProtocolCommandFlag), n: N, vcf: Int,
                        rule: VAR_RULE, upid: UPID, tfdz: BytesLen(0, MAX_TFDZ),
                        has_iz: Bool, iz: Bytes, has_ocf: Bool, ocf: BytesLen(4, 4), has_fecf: Bool, fecf: Bytes):
    frame_pack_case(1, scid, srcdst, vcid, map_id, frame_len0, bypass, pcc, n, vcf, rule, upid, tfdz, 0, has_iz, iz, has_ocf, ocf, has_fecf, fecf)


@obligation(["C17"], "TransferFrame.pack/truncated", verifies=V_FRAME)
def frame_pack_truncated(scid: IntRange(0, 65535), srcdst: EnumOf(SourceOrDestField), vcid: IntRange(0, 63), map_id: IntRange(0, 15),
                         rule: VAR_RULE, upid: UPID, tfdz: BytesLen(0, MAX_TFDZ), has_iz: Bool, iz: Bytes, has_fecf: Bool, fecf: Bytes):
    frame_pack_case(2, scid, srcdst, vcid, map_id, 0, BypassSequenceControlFlag.SEQ_CTRLD_QOS, ProtocolCommandFlag.USER_DATA, 0, 0,
                    rule, upid, tfdz, 0, has_iz, iz, False, b"", has_fecf, fecf)


@obligation(["C17", "C09"], "TransferFrame/roundtrip/fixed/vcf-len-0-3", verifies=V_FRAME)
def frame_rt_fixed_lo(scid: IntRange(0, 65535), srcdst: EnumOf(SourceOrDestField), vcid: IntRange(0, 63), map_id: IntRange(0, 15),
                      bypass: EnumOf(BypassSequenceControlFlag), pcc: EnumOf(ProtocolCommandFlag), n: N_LO, vcf: Int,
                      rule: FIXED_RULE, upid: UPID, tfdz: BytesLen(0, MAX_TFDZ), ptr: IntRange(0, 65535),
                      has_iz: Bool, iz: Bytes, has_ocf: Bool, ocf: BytesLen(4, 4), has_fecf: Bool, fecf: Bytes, suffix: Bytes):
    frame_decode_case(0, scid, srcdst, vcid, map_id, bypass, pcc, n, vcf, rule, upid, tfdz, ptr, has_iz, iz, has_ocf, ocf, has_fecf, fecf, suffix)


@obligation(["C17", "C09"], "TransferFrame/roundtrip/fixed/vcf-len-4-7", verifies=V_FRAME)
def frame_rt_fixed(scid: IntRange(0, 65535), srcdst: EnumOf(SourceOrDestField), vcid: IntRange(0, 63), map_id: IntRange(0, 15),
                   bypass: EnumOf(BypassSequenceControlFlag), pcc: EnumOf(ProtocolCommandFlag), n: N_HI, vcf: Int,
                   rule: FIXED_RULE, upid: UPID, tfdz: BytesLen(0, MAX_TFDZ), ptr: IntRange(0, 65535),
                   has_iz: Bool, iz: Bytes, has_ocf: Bool, ocf: BytesLen(4, 4), has_fecf: Bool, fecf: Bytes, suffix: Bytes):
    frame_decode_case(0, scid, srcdst, vcid, map_id, bypass, pcc, n, vcf, rule, upid, tfdz, ptr, has_iz, iz, has_ocf, ocf, has_fecf, fecf, suffix)


@obligation(["C17", "C09"], "TransferFrame/roundtrip/variable/vcf-len-0-3", verifies=V_FRAME)
def frame_rt_variable_lo(scid: IntRange(0, 65535), srcdst: EnumOf(SourceOrDestField), vcid: IntRange(0, 63), map_id: IntRange(0, 15),
                         bypass: EnumOf(BypassSequenceControlFlag), pcc: EnumOf(ProtocolCommandFlag), n: N_LO, vcf: Int,
                         rule: VAR_RULE, upid: UPID, tfdz: BytesLen(0, MAX_TFDZ),
                         has_iz: Bool, iz: Bytes, has_ocf: Bool, ocf: BytesLen(4, 4), has_fecf: Bool, fecf: Bytes, suffix: Bytes):
    frame_decode_case(1, scid, srcdst, vcid, map_id, bypass, pcc, n, vcf, rule, upid, tfdz, 0, has_iz, iz, has_ocf, ocf, has_fecf, fecf, suffix)


@obligation(["C17", "C09"], "TransferFrame/roundtrip/variable/vcf-len-4-7", verifies=V_FRAME)
def frame_rt_variable(scid: IntRange(0, 65535), srcdst: EnumOf(SourceOrDestField), vcid: IntRange(0, 63), map_id: IntRange(0, 15),
                      bypass: EnumOf(BypassSequenceControlFlag), pcc: EnumOf(ProtocolCommandFlag), n: N_HI, vcf: Int,
                      rule: VAR_RULE, upid: UPID, tfdz: BytesLen(0, MAX_TFDZ),
                      has_iz: Bool, iz: Bytes, has_ocf: Bool, ocf: BytesLen(4, 4), has_fecf: Bool, fecf: Bytes, suffix: Bytes):
    frame_decode_case(1, scid, srcdst, vcid, map_id, bypass, pcc, n, vcf, rule, upid, tfdz, 0, has_iz, iz, has_ocf, ocf, has_fecf, fecf, suffix)


@obligation(["C17", "C09"], "TransferFrame/roundtrip/truncated", verifies=V_FRAME)
def frame_rt_truncated(scid: IntRange(0, 65535), srcdst: EnumOf(SourceOrDestField), vcid: IntRange(0, 63), map_id: IntRange(0, 15),
                       rule: VAR_RULE, upid: UPID, tfdz: BytesLen(0, MAX_TFDZ), has_iz: Bool, iz: Bytes, has_fecf: Bool, fecf: Bytes, suffix: Bytes):
    frame_decode_case(2, scid, srcdst, vcid, map_id, BypassSequenceControlFlag.SEQ_CTRLD_QOS, ProtocolCommandFlag.USER_DATA, 0, 0,
                      rule, upid, tfdz, 0, has_iz, iz, False, b"", has_fecf, fecf, suffix)


# ------------------------------------------------------------------------------------------------ decoding arbitrary octets (C10)
# Every acceptance condition below is the contrapositive of "a mismatch that the format makes detectable is refused": a frame
# is only accepted if the buffer holds the whole declared frame, the fixed length equals the frame length field + 1, a truncated
# header comes with the variable frame type, the construction rule belongs to the frame type's family, and the managed sizes
# leave room for a data field (with its pointer).

SIZE = IntRange(0, None)


def frame_any_case(data, fixed, trunc, n, has_iz, izl, has_fecf, fel, L):
    """data: any octet string of >= 4 octets with the given end-of-frame-primary-header flag and (non-truncated, >= 7 octets)
    VCF count length n; fixed: frame type FIXED with FixedFrameProperties(fixed_len=L), else VARIABLE with
    VarFrameProperties(truncated_frame_len=L)"""
    requires(len(data) >= 4)
    requires(bits(data[3], 0, 0) == trunc)
    if trunc == 0:
        requires(len(data) >= 7)
        requires(bits(data[6], 2, 0) == n)
    if fixed:
        ftype = FrameType.FIXED
        props = FixedFrameProperties(L, has_iz, has_fecf, opt(has_iz, izl), opt(has_fecf, fel))
    else:
        ftype = FrameType.VARIABLE
        props = VarFrameProperties(has_iz, has_fecf, L, opt(has_iz, izl), opt(has_fecf, fel))
    o = outcome(TransferFrame.unpack, data, ftype, props)
    ensures("raises-only", o.ok or o.raised(*USLP_ERRORS))
    if o.ok:
        g = o.value
        ensures("truncated-only-with-variable-type", not both(trunc == 1, fixed))
        if trunc == 1:
            hl = 4
            declared = L
            c = 0
            ensures("header", both(kind_of(g.header) == "TruncatedPrimaryHeader", same_state(g.header, TruncatedPrimaryHeader.unpack(data))))
        else:
            hl = 7 + n
            declared = data[4] * 256 + data[5] + 1
            c = 4 * bits(data[6], 3, 3)
            ensures("header", both(kind_of(g.header) == "PrimaryHeader", same_state(g.header, PrimaryHeader.unpack(data))))
        ensures("fixed-length-is-declared-length", implies(fixed, L == declared))
        ensures("buffer-holds-frame", len(data) >= declared)
        z = 0
        if has_iz:
            z = izl
        e = 0
        if has_fecf:
            e = fel
        tl = declared - hl - z - e - c
        ensures("room-for-data-field", tl >= 1)
        ensures("room-for-pointer", implies(fixed, tl >= 3))
        s0 = hl + z
        rule = bits(data[s0], 7, 5)
        ensures("rule-family", family_matches(rule, ftype))
        ensures("insert-zone", g.insert_zone == opt(has_iz, data[hl:s0]))
        if fixed:
            ensures("pointer", g.tfdf.fhp_or_lvop == from_be(data[s0 + 1:s0 + 3]))
            ts = s0 + 3
        else:
            ensures("no-pointer", g.tfdf.fhp_or_lvop is None)
            ts = s0 + 1
        ensures("data-field", both(g.tfdf.tfdz_contr_rules == rule, g.tfdf.uslp_ident == bits(data[s0], 4, 0),
                                   g.tfdf.tfdz == data[ts:s0 + tl], g.tfdf.len() == tl))
        ensures("ocf", g.op_ctrl_field == opt(c == 4, data[s0 + tl:s0 + tl + 4]))
        ensures("fecf", g.fecf == opt(has_fecf, data[s0 + tl + c:s0 + tl + c + e]))
        ensures("len", g.len() == declared)


@obligation(["C17", "C10"], "TransferFrame.unpack/any/fixed-type/vcf-len-0", verifies=V_FRAME)
def frame_any_fixed_0(data: Bytes, has_iz: Bool, izl: SIZE, has_fecf: Bool, fel: SIZE, fixed_len: SIZE):
    frame_any_case(data, True, 0, 0, has_iz, izl, has_fecf, fel, fixed_len)


@obligation(["C17", "C10"], "TransferFrame.unpack/any/fixed-type/vcf-len-1", verifies=V_FRAME)
def frame_any_fixed_1(data: Bytes, has_iz: Bool, izl: SIZE, has_fecf: Bool, fel: SIZE, fixed_len: SIZE):
    frame_any_case(data, True, 0, 1, has_iz, izl, has_fecf, fel, fixed_len)


@obligation(["C17", "C10"], "TransferFrame.unpack/any/fixed-type/vcf-len-2", verifies=V_FRAME)
def frame_any_fixed_2(data: Bytes, has_iz: Bool, izl: SIZE, has_fecf: Bool, fel: SIZE, fixed_len: SIZE):
    frame_any_case(data, True, 0, 2, has_iz, izl, has_fecf, fel, fixed_len)


@obligation(["C17", "C10"], "TransferFrame.unpack/any/fixed-type/vcf-len-3", verifies=V_FRAME)
def frame_any_fixed_3(data: Bytes, has_iz: Bool, izl: SIZE, has_fecf: Bool, fel: SIZE, fixed_len: SIZE):
    frame_any_case(data, True, 0, 3, has_iz, izl, has_fecf, fel, fixed_len)


@obligation(["C17", "C10"], "TransferFrame.unpack/any/fixed-type/vcf-len-4", verifies=V_FRAME)
def frame_any_fixed_4(data: Bytes, has_iz: Bool, izl: SIZE, has_fecf: Bool, fel: SIZE, fixed_len: SIZE):
    frame_any_case(data, True, 0, 4, has_iz, izl, has_fecf, fel, fixed_len)


@obligation(["C17", "C10"], "TransferFrame.unpack/any/fixed-type/vcf-len-5", verifies=V_FRAME)
def frame_any_fixed_5(data: Bytes, has_iz: Bool, izl: SIZE, has_fecf: Bool, fel: SIZE, fixed_len: SIZE):
    frame_any_case(data, True, 0, 5, has_iz, izl, has_fecf, fel, fixed_len)


@obligation(["C17", "C10"], "TransferFrame.unpack/any/fixed-type/vcf-len-6", verifies=V_FRAME)
def frame_any_fixed_6(data: Bytes, has_iz: Bool, izl: SIZE, has_fecf: Bool, fel: SIZE, fixed_len: SIZE):
    frame_any_case(data, True, 0, 6, has_iz, izl, has_fecf, fel, fixed_len)


@obligation(["C17", "C10"], "TransferFrame.unpack/any/fixed-type/vcf-len-7", verifies=V_FRAME)
def frame_any_fixed_7(data: Bytes, has_iz: Bool, izl: SIZE, has_fecf: Bool, fel: SIZE, fixed_len: SIZE):
    frame_any_case(data, True, 0, 7, has_iz, izl, has_fecf, fel, fixed_len)


@obligation(["C17", "C10"], "TransferFrame.unpack/any/variable-type/vcf-len-0", verifies=V_FRAME)
def frame_any_variable_0(data: Bytes, has_iz: Bool, izl: SIZE, has_fecf: Bool, fel: SIZE, truncated_len: SIZE):
    frame_any_case(data, False, 0, 0, has_iz, izl, has_fecf, fel, truncated_len)


@obligation(["C17", "C10"], "TransferFrame.unpack/any/variable-type/vcf-len-1", verifies=V_FRAME)
def frame_any_variable_1(data: Bytes, has_iz: Bool, izl: SIZE, has_fecf: Bool, fel: SIZE, truncated_len: SIZE):
    frame_any_case(data, False, 0, 1, has_iz, izl, has_fecf, fel, truncated_len)


@obligation(["C17", "C10"], "TransferFrame.unpack/any/variable-type/vcf-len-2", verifies=V_FRAME)
def frame_any_variable_2(data: Bytes, has_iz: Bool, izl: SIZE, has_fecf: Bool, fel: SIZE, truncated_len: SIZE):
    frame_any_case(data, False, 0, 2, has_iz, izl, has_fecf, fel, truncated_len)


@obligation(["C17", "C10"], "TransferFrame.unpack/any/variable-type/vcf-len-3", verifies=V_FRAME)
def frame_any_variable_3(data: Bytes, has_iz: Bool, izl: SIZE, has_fecf: Bool, fel: SIZE, truncated_len: SIZE):
    frame_any_case(data, False, 0, 3, has_iz, izl, has_fecf, fel, truncated_len)


@obligation(["C17", "C10"], "TransferFrame.unpack/any/variable-type/vcf-len-4", verifies=V_FRAME)
def frame_any_variable_4(data: Bytes, has_iz: Bool, izl: SIZE, has_fecf: Bool, fel: SIZE, truncated_len: SIZE):
    frame_any_case(data, False, 0, 4, has_iz, izl, has_fecf, fel, truncated_len)


@obligation(["C17", "C10"], "TransferFrame.unpack/any/variable-type/vcf-len-5", verifies=V_FRAME)
def frame_any_variable_5(data: Bytes, has_iz: Bool, izl: SIZE, has_fecf: Bool, fel: SIZE, truncated_len: SIZE):
    frame_any_case(data, False, 0, 5, has_iz, izl, has_fecf, fel, truncated_len)


@obligation(["C17", "C10"], "TransferFrame.unpack/any/variable-type/vcf-len-6", verifies=V_FRAME)
def frame_any_variable_6(data: Bytes, has_iz: Bool, izl: SIZE, has_fecf: Bool, fel: SIZE, truncated_len: SIZE):
    frame_any_case(data, False, 0, 6, has_iz, izl, has_fecf, fel, truncated_len)


@obligation(["C17", "C10"], "TransferFrame.unpack/any/variable-type/vcf-len-7", verifies=V_FRAME)
def frame_any_variable_7(data: Bytes, has_iz: Bool, izl: SIZE, has_fecf: Bool, fel: SIZE, truncated_len: SIZE):
    frame_any_case(data, False, 0, 7, has_iz, izl, has_fecf, fel, truncated_len)


@obligation(["C17", "C10"], "TransferFrame.unpack/any/truncated-header", verifies=V_FRAME)
def frame_any_truncated(data: Bytes, fixed: Bool, has_iz: Bool, izl: SIZE, has_fecf: Bool, fel: SIZE, some_len: SIZE):
    frame_any_case(data, fixed, 1, 0, has_iz, izl, has_fecf, fel, some_len)


@obligation(["C17", "C10"], "TransferFrame.unpack/any/too-short-for-its-header", verifies=V_FRAME)
def frame_any_short(data: BytesLen(0, 6), fixed: Bool, has_iz: Bool, izl: SIZE, has_fecf: Bool, fel: SIZE, some_len: SIZE):
    """fewer than 4 octets, or a non-truncated header cut before its 7th octet"""
    if len(data) >= 4:
        requires(bits(data[3], 0, 0) == 0)
    if fixed:
        o = outcome(TransferFrame.unpack, data, FrameType.FIXED, FixedFrameProperties(some_len, has_iz, has_fecf, opt(has_iz, izl), opt(has_fecf, fel)))
    else:
        o = outcome(TransferFrame.unpack, data, FrameType.VARIABLE, VarFrameProperties(has_iz, has_fecf, some_len, opt(has_iz, izl), opt(has_fecf, fel)))
    ensures("refused", o.raised(UslpInvalidRawPacketOrFrameLen))


@obligation(["C17"], "TransferFrame.unpack/properties-of-the-wrong-kind", verifies=V_FRAME)
def frame_wrong_props(data: BytesLen(4, None), has_iz: Bool, izl: SIZE, has_fecf: Bool, fel: SIZE, some_len: SIZE):
    o = outcome(TransferFrame.unpack, data, FrameType.FIXED, VarFrameProperties(has_iz, has_fecf, some_len, opt(has_iz, izl), opt(has_fecf, fel)))
    ensures("refused", o.raised(ValueError))
    o2 = outcome(FixedFrameProperties, some_len, True, has_fecf, None, fel)
    o3 = outcome(VarFrameProperties, has_iz, True, some_len, izl, None)
    ensures("size-required-when-present", both(o2.raised(ValueError), o3.raised(ValueError)))
