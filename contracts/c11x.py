"""C11 (and C06 / C17) - additional mutation-sequence contracts written after independently seeded changes were missed:
objects obtained from a DECODER (not a constructor) are mutated, optional fields are added after construction, and the
Finished fault location is combined with the condition codes for which the standard omits it."""
from pyvc_spec import *
from spec_cfdp_dir_b import directive_body, finished_params, entity_id_tlv, TOWARDS_SENDER
from spec_cfdp import with_crc_trailer
from spec_uslp import tfdf_octets
from cfdp_common import mk_conf, ids_in_range, W
from spacepackets.cfdp.defs import (Direction, TransmissionMode, CrcFlag, LargeFileFlag, SegmentationControl, ConditionCode,
                                    DeliveryCode, FileStatus)
from spacepackets.cfdp.tlv import EntityIdTlv
from spacepackets.cfdp.pdu.finished import FinishedPdu, FinishedParams
from spacepackets.cfdp.pdu.ack import AckPdu, TransactionStatus
from spacepackets.cfdp.pdu.prompt import PromptPdu, ResponseRequired
from spacepackets.cfdp.pdu.file_directive import DirectiveType
from spacepackets.uslp.header import PrimaryHeader, SourceOrDestField, BypassSequenceControlFlag, ProtocolCommandFlag
from spacepackets.uslp.frame import (TransferFrame, TransferFrameDataField, TfdzConstructionRules, UslpProtocolIdentifier, FrameType,
                                     FixedFrameProperties)

FIN = "spacepackets.cfdp.pdu.finished:"
F = "spacepackets.uslp.frame:"
NO_SEG = SegmentationControl.NO_RECORD_BOUNDARIES_PRESERVATION


# ------------------------------------------------------------------------------------------------ inherited file-flag setter
@obligation(["C11", "C06"], "file_flag(inherited setter)/directives-without-file-size-field",
            verifies=["spacepackets.cfdp.pdu.file_directive:AbstractFileDirectiveBase.file_flag", "spacepackets.cfdp.pdu.header:PduHeader.file_flag"])
def inherited_file_flag_setter(kind: Choice("ack", "prompt", "finished"), mode: EnumOf(TransmissionMode), crc: EnumOf(CrcFlag),
                               large0: EnumOf(LargeFileFlag), large1: EnumOf(LargeFileFlag), we: Choice(1, 4), ws: Choice(1, 2),
                               src: Int, seq: Int, dst: Int, cc: EnumOf(ConditionCode)):
    """ACK, Prompt and Finished have no file-size-sensitive field: changing the large-file flag through the setter they inherit
    changes one header bit and nothing else - lengths and octets are those of a PDU built with the final flag.
    (EOF and Metadata inherit the same setter although they carry such a field; for them the setter leaves the length field
    stale in the unchanged library.  It is not among the documented setters the property lists, so this is recorded in DESIGN.md
    as an observation and neither claimed nor repaired.)"""
    requires(ids_in_range(we, ws, src, seq, dst))
    requires(cc >= 0)

    def build(large):
        conf = mk_conf(we, ws, src, seq, dst, mode, crc, large, Direction.TOWARDS_SENDER, NO_SEG)
        if kind == "ack":
            return AckPdu(conf, DirectiveType.EOF_PDU, cc, TransactionStatus.ACTIVE)
        if kind == "prompt":
            return PromptPdu(conf, ResponseRequired.KEEP_ALIVE)
        return FinishedPdu(conf, FinishedParams(cc, DeliveryCode.DATA_COMPLETE, FileStatus.FILE_RETAINED, [], None))
    pdu = build(large0)
    pdu.pack()
    pdu.file_flag = large1
    fresh = build(large1)
    raw = pdu.pack()
    ensures("octets-as-fresh", raw == fresh.pack())
    ensures("lengths-as-fresh", both(pdu.packet_len == len(raw), pdu.packet_len == fresh.packet_len,
                                     pdu.pdu_header.pdu_data_field_len == fresh.pdu_header.pdu_data_field_len,
                                     from_be(raw[1:3]) == len(raw) - (4 + 2 * we + ws)))
    ensures("flag-view", both(pdu.file_flag == large1, pdu == fresh))


# ------------------------------------------------------------------------------------------------ Finished
@obligation(["C11", "C06", "C04"], "FinishedPdu/params-without-response-list",
            verifies=[FIN + "FinishedPdu.__init__", FIN + "FinishedPdu.pack", FIN + "FinishedPdu._calculate_directive_field_len",
                      FIN + "FinishedPdu.__eq__", FIN + "FinishedPdu.unpack"])
def finished_without_response_list(mode: EnumOf(TransmissionMode), crc: EnumOf(CrcFlag), large: EnumOf(LargeFileFlag),
                                   we: Choice(1, 8), ws: Choice(2, 4), src: Int, seq: Int, dst: Int,
                                   cc: EnumOf(ConditionCode), dc: EnumOf(DeliveryCode), fs: EnumOf(FileStatus),
                                   fw: Choice(None, 1, 4), fv: Int):
    """`file_store_responses=None` (accepted by constructor and setter alike) means no filestore responses: same octets and lengths
    as with an empty list, decodes to an equal PDU, and the caller's parameter object still holds None afterwards"""
    requires(ids_in_range(we, ws, src, seq, dst))
    requires(cc >= 0)
    if fw is not None:
        requires(both(0 <= fv, fv < pow256w(fw)))
    conf = mk_conf(we, ws, src, seq, dst, mode, crc, large, Direction.TOWARDS_SENDER, NO_SEG)
    loc = EntityIdTlv(be(fw, fv)) if fw is not None else None
    caller_params = FinishedParams(cc, dc, fs, None, loc)
    caller_snap = snapshot(caller_params)
    pdu = FinishedPdu(conf, caller_params)
    twin = FinishedPdu(conf, FinishedParams(cc, dc, fs, [], EntityIdTlv(be(fw, fv)) if fw is not None else None))
    raw = pdu.pack()
    ensures("same-octets-as-empty-list", raw == twin.pack())
    ensures("packet_len", pdu.packet_len == len(raw))
    ensures("data-field-len", both(pdu.pdu_header.pdu_data_field_len == len(raw) - (4 + 2 * we + ws),
                                   from_be(raw[1:3]) == len(raw) - (4 + 2 * we + ws)))
    ensures("equal-to-empty-list-twin", both(pdu == twin, twin == pdu))
    ensures("caller-params-untouched", same_state(caller_params, caller_snap))
    o = outcome(FinishedPdu.unpack, raw)
    ensures("own-octets-accepted", o.ok)
    if o.ok:
        ensures("decoded-repacks", both(o.value.pack() == raw, o.value.packet_len == len(raw)))
        dropped = both(fw is not None, either(cc == ConditionCode.NO_ERROR, cc == ConditionCode.UNSUPPORTED_CHECKSUM_TYPE))
        if not dropped:      # (a fault location given with a code that omits it is not in the octets, hence not in the decoded PDU)
            ensures("decoded-equal", both(o.value == pdu, pdu == o.value))


@obligation(["C11", "C06"], "FinishedPdu/fault-location-with-omitting-codes",
            verifies=[FIN + "FinishedPdu.__init__", FIN + "FinishedPdu.pack", FIN + "FinishedPdu._calculate_directive_field_len",
                      FIN + "FinishedPdu.fault_location", FIN + "FinishedPdu.condition_code"])
def finished_omitted_fault_location(mode: EnumOf(TransmissionMode), crc: EnumOf(CrcFlag), large: EnumOf(LargeFileFlag),
                                    we: Choice(1, 8), ws: Choice(2, 4),
                                    src: Int, seq: Int, dst: Int, cc: EnumOf(ConditionCode), dc: EnumOf(DeliveryCode), fs: EnumOf(FileStatus),
                                    fw: Choice(1, 2, 4, 8), fv: Int, how: Choice("constructor", "setter", "code-set-later")):
    """a fault location given together with ANY condition code - including 'No error' and 'Unsupported checksum type', for which
    the standard omits it from the PDU: the reported lengths always equal the packed octets, however the state was reached"""
    requires(ids_in_range(we, ws, src, seq, dst))
    requires(both(cc >= 0, 0 <= fv, fv < pow256w(fw)))
    conf = mk_conf(we, ws, src, seq, dst, mode, crc, large, Direction.TOWARDS_SENDER, NO_SEG)
    loc = EntityIdTlv(be(fw, fv))
    caller_params = None
    if how == "constructor":
        caller_params = FinishedParams(cc, dc, fs, [], loc)
        caller_snap = snapshot(caller_params)
        pdu = FinishedPdu(conf, caller_params)
        twin = FinishedPdu(conf, FinishedParams(cc, dc, fs, [], EntityIdTlv(be(fw, fv))))
        ensures("equal-to-twin-before-pack", pdu == twin)
    elif how == "setter":
        pdu = FinishedPdu(conf, FinishedParams(cc, dc, fs, [], None))
        pdu.pack()
        pdu.fault_location = loc
    else:
        pdu = FinishedPdu(conf, FinishedParams(ConditionCode.FILE_SIZE_ERROR, dc, fs, [], loc))
        pdu.pack()
        pdu.condition_code = cc
    raw = pdu.pack()
    omitted = either(cc == ConditionCode.NO_ERROR, cc == ConditionCode.UNSUPPORTED_CHECKSUM_TYPE)
    if caller_params is not None:
        # packing neither touches the caller's parameter object nor changes equality, and is repeatable
        ensures("caller-params-untouched-by-pack", same_state(caller_params, caller_snap))
        ensures("equal-to-twin-after-pack", both(pdu == twin, is_same(pdu.fault_location, loc)))
    ensures("pack-twice", pdu.pack() == raw)
    ensures("packet_len", pdu.packet_len == len(raw))
    ensures("data-field-len", pdu.pdu_header.pdu_data_field_len == len(raw) - (4 + 2 * we + ws))
    tail = entity_id_tlv(fw, fv)
    if omitted:
        tail = b""
    body = directive_body(TOWARDS_SENDER, mode, crc, large, 0, we, ws, src, seq, dst, finished_params(cc, dc, fs, b"", tail))
    if crc == CrcFlag.WITH_CRC:
        ensures("layout-body", raw[0:len(raw) - 2] == body)
    ensures("layout", raw == with_crc_trailer(crc, body))
    o = outcome(FinishedPdu.unpack, raw)
    ensures("own-output-decodes", o.ok)
    if o.ok:
        ensures("decoded-lengths", both(o.value.packet_len == len(raw), o.value.condition_code == cc))


def pow256w(w):
    if w == 1:
        return 256
    if w == 2:
        return 65536
    if w == 4:
        return 4294967296
    return 18446744073709551616


# ------------------------------------------------------------------------------------------------ USLP
FIXED_RULES = Choice(0, 1, 2)
UPID = EnumOf(UslpProtocolIdentifier)


@obligation(["C11", "C17"], "TransferFrameDataField/pointer-added-later", verifies=[F + "TransferFrameDataField.tfdz", F + "TransferFrameDataField.len",
                                                                                     F + "TransferFrameDataField.pack"])
def tfdf_pointer_added_later(rule: FIXED_RULES, upid: UPID, tfdz0: BytesLen(0, 40), tfdz1: BytesLen(0, 40), ptr: IntRange(0, 65535)):
    """a data field built without pointer that gets its FHP/LVOP afterwards and then its data zone through the documented setter
    (this is the order in which the decoder builds it): length and octets are those of a field constructed with the final values.
    (Assigning the pointer alone is not a documented setter; the statement speaks about the data-zone setter.)"""
    t = TransferFrameDataField(TfdzConstructionRules(rule), upid, tfdz0, None)
    t.len()
    t.fhp_or_lvop = ptr
    t.tfdz = tfdz1
    final = tfdz1
    r = t.pack(False, FrameType.FIXED)
    fresh = TransferFrameDataField(TfdzConstructionRules(rule), upid, final, ptr)
    ensures("len-equals-octets", both(t.len() == len(r), t.len() == 3 + len(final)))
    ensures("octets-as-fresh", both(r == fresh.pack(False, FrameType.FIXED), r == tfdf_octets(rule, upid, True, ptr, final)))


@obligation(["C11", "C17"], "TransferFrame/setters-after-unpack", verifies=[F + "TransferFrame.unpack", F + "TransferFrame.set_frame_len_in_header",
                                                                             F + "TransferFrame.len", F + "TransferFrameDataField.tfdz"])
def frame_setters_after_unpack(scid: IntRange(0, 65535), vcid: IntRange(0, 63), map_id: IntRange(0, 15), n: Choice(0, 2), vcf: IntRange(0, 65535),
                               rule: FIXED_RULES, upid: UPID, tfdz: BytesLen(0, 24), new_tfdz: BytesLen(0, 24), ptr: IntRange(0, 65535),
                               has_ocf: Bool, ocf: BytesLen(4, 4), has_fecf: Bool, fecf: BytesLen(2, 2), change_zone: Bool):
    """a fixed-length frame obtained from the DECODER: its reported length equals its packed size; after replacing the data zone and
    updating the frame length the length field and the octets are those of a freshly built frame with the final values"""
    requires(implies(n == 0, vcf == 0))
    total0 = 7 + n + 3 + len(tfdz) + (4 if has_ocf else 0) + (2 if has_fecf else 0)
    header = PrimaryHeader(scid, SourceOrDestField.SOURCE, vcid, map_id, total0 - 1, BypassSequenceControlFlag.SEQ_CTRLD_QOS,
                           ProtocolCommandFlag.USER_DATA, has_ocf, n, vcf)
    f = TransferFrame(header, TransferFrameDataField(TfdzConstructionRules(rule), upid, tfdz, ptr), None,
                      ocf if has_ocf else None, fecf if has_fecf else None)
    raw = f.pack(False, FrameType.FIXED)
    props = FixedFrameProperties(total0, False, has_fecf, None, 2 if has_fecf else None)
    g = TransferFrame.unpack(raw, FrameType.FIXED, props)
    ensures("decoded-len-equals-octets", both(g.len() == len(raw), g.tfdf.len() == 3 + len(tfdz), g.pack(False, FrameType.FIXED) == raw))
    final = tfdz
    if change_zone:
        g.tfdf.tfdz = new_tfdz
        final = new_tfdz
    g.set_frame_len_in_header()
    r2 = g.pack(False, FrameType.FIXED)
    total1 = 7 + n + 3 + len(final) + (4 if has_ocf else 0) + (2 if has_fecf else 0)
    ensures("len-follows", both(g.len() == len(r2), len(r2) == total1))
    ensures("frame-len-field", both(g.header.frame_len == len(r2) - 1, from_be(r2[4:6]) == len(r2) - 1))
    fresh_header = PrimaryHeader(scid, SourceOrDestField.SOURCE, vcid, map_id, total1 - 1, BypassSequenceControlFlag.SEQ_CTRLD_QOS,
                                 ProtocolCommandFlag.USER_DATA, has_ocf, n, vcf)
    fresh = TransferFrame(fresh_header, TransferFrameDataField(TfdzConstructionRules(rule), upid, final, ptr), None,
                          ocf if has_ocf else None, fecf if has_fecf else None)
    ensures("octets-as-fresh", r2 == fresh.pack(False, FrameType.FIXED))


# ------------------------------------------------------------------------------------------------ pack() is pure
from spacepackets.cfdp.pdu import EofPdu, AckPdu, PromptPdu, KeepAlivePdu, NakPdu, MetadataPdu, FileDataPdu, DirectiveType, TransactionStatus
from spacepackets.cfdp.pdu.metadata import MetadataParams
from spacepackets.cfdp.pdu.file_data import FileDataParams, SegmentMetadata, RecordContinuationState
from spacepackets.cfdp.pdu.prompt import ResponseRequired
from spacepackets.cfdp.defs import ChecksumType
from spacepackets.cfdp.tlv import FlowLabelTlv
from spacepackets.ecss.tc import PusTc
from spacepackets.ecss.tm import PusTm


def pack_is_pure(build, caller_objects):
    """packing (twice) leaves the object equal to an identically built twin, returns the same octets, and leaves every object the
    caller handed in exactly as it was"""
    obj = build()
    twin = build()
    snaps = [snapshot(c) for c in caller_objects]
    r1 = obj.pack()
    r2 = obj.pack()
    ensures("pack-twice-same-octets", r1 == r2)
    ensures("still-equal-to-twin", both(obj == twin, twin == obj))
    ensures("twin-packs-the-same", twin.pack() == r1)
    ensures("caller-objects-untouched", both(*[same_state(c, s) for c, s in zip(caller_objects, snaps)]))


@obligation(["C11"], "pack-is-pure/cfdp", verifies=[])
def pure_cfdp(crc: EnumOf(CrcFlag), large: EnumOf(LargeFileFlag), direction: EnumOf(Direction), cc: EnumOf(ConditionCode),
              kind: Choice("eof", "finished", "ack", "metadata", "nak", "prompt", "keepalive", "filedata"), size: IntRange(0, 4294967295),
              data: BytesLen(0, 6)):
    requires(cc >= 0)
    conf = mk_conf(1, 2, 3, 4, 5, TransmissionMode.ACKNOWLEDGED, crc, large, direction, NO_SEG)
    loc = EntityIdTlv(be(2, 9))
    if kind == "eof":
        pack_is_pure(lambda: EofPdu(conf, be(4, 7), size, loc, cc), [conf, loc])
    elif kind == "finished":
        params = FinishedParams(cc, DeliveryCode.DATA_COMPLETE, FileStatus.FILE_RETAINED, [], loc)
        pack_is_pure(lambda: FinishedPdu(conf, params), [conf, params, loc])
    elif kind == "ack":
        pack_is_pure(lambda: AckPdu(conf, DirectiveType.EOF_PDU, cc, TransactionStatus.ACTIVE), [conf])
    elif kind == "metadata":
        opts = [FlowLabelTlv(data)]
        params = MetadataParams(True, ChecksumType.CRC_32, size, "a", "b")
        pack_is_pure(lambda: MetadataPdu(conf, params, opts), [conf, params, opts])
    elif kind == "nak":
        reqs = [(0, 1), (2, size)]
        pack_is_pure(lambda: NakPdu(conf, 0, size, reqs), [conf, reqs])
    elif kind == "prompt":
        pack_is_pure(lambda: PromptPdu(conf, ResponseRequired.KEEP_ALIVE), [conf])
    elif kind == "keepalive":
        pack_is_pure(lambda: KeepAlivePdu(conf, size), [conf])
    else:
        meta = SegmentMetadata(RecordContinuationState.START_AND_END, data)
        params = FileDataParams(data, size, meta)
        pack_is_pure(lambda: FileDataPdu(conf, params), [conf, params, meta])


@obligation(["C11", "C02", "C03"], "pack-is-pure/pus", verifies=[])
def pure_pus(apid: IntRange(0, 2047), count: IntRange(0, 16383), data: BytesLen(0, 8), ts: BytesLen(0, 9)):
    pack_is_pure(lambda: PusTc(17, 1, apid, data, count, 3, 5), [data])
    pack_is_pure(lambda: PusTm(17, 2, ts, data, apid, count, 4, 1, 6), [data, ts])
