import sys, json, time, os
sys.path.insert(0, os.path.dirname(os.path.abspath(__file__)))
from pyvc import contracts
from pyvc.explore import Config
cfg = Config()
ov = None
if os.environ.get("MUT"):
    path, old, new = os.environ["MUT"].split("::")
    txt = open(path).read(); assert old in txt, "mutation target not found"
    ov = {path: txt.replace(old, new, 1)}
t=time.time()
L = contracts.load(sys.argv[1], cfg, overrides=ov)
for ob in L.obligations():
    if len(sys.argv) > 2 and sys.argv[2] not in ob["name"]: continue
    r = contracts.run_harness(L, ob, cfg)
    print(f"== {r['name']} paths={r['paths']} ok={r['paths_ok']} wall={r['wall_s']} problems={r['problems']}")
    for c in r["clauses"]:
        st = "OK" if c["discharged"]==c["paths"] else ("FAIL" if c["failed"] else "UNKNOWN")
        if st != "OK" or os.environ.get("V"): print(f"   {c['label']:28s} {st} {c['discharged']}/{c['paths']} {c['backends']} {c['secs']:.2f}s")
        for f in c["failed"][:1]: print("      model:", json.dumps(f["model"])[:300], f["detail"])
        for f in c["unknown"][:1]: print("      unknown:", f)
    if os.environ.get("V"): print(r["summaries_used"], r["trusted"], r["notes"])
