"""Integer and octet-string (rope) operations on concrete/symbolic values.

Integers are mathematical (Python semantics).  Shifts and masks with literal operands become
div/mod/linear forms valid for all integers; `a | b` becomes `a + b` after the bit ranges have been
shown disjoint (syntactically or by the solver under the path condition).
"""
from __future__ import annotations
import z3
from .values import SInt, SBool, EnumV, Blk, BytesV, IntSort, SeqSort, EMPTY_SEQ
from .explore import Unsupported

BIG_TZ = 4096


def tz_of_const(c):
    if c == 0:
        return BIG_TZ
    n = 0
    while c % 2 == 0:
        c //= 2
        n += 1
    return n


def is_intlike(v):
    return isinstance(v, (int, SInt, SBool)) or (isinstance(v, EnumV) and v.cls.is_intenum)


def as_int(v):
    """bool/EnumV/SBool -> int | SInt."""
    if isinstance(v, bool):
        return int(v)
    if isinstance(v, int) or isinstance(v, SInt):
        return v
    if isinstance(v, SBool):
        return SInt(z3.If(v.t, z3.IntVal(1), z3.IntVal(0)), 0, 1, 0)
    if isinstance(v, EnumV) and v.cls.is_intenum:
        return as_int(v.v)
    raise TypeError(f"not an integer: {v!r}")


def zi(v):
    v = as_int(v)
    return z3.IntVal(v) if isinstance(v, int) else v.t


def bounds(v):
    v = as_int(v)
    if isinstance(v, int):
        return v, v, tz_of_const(v)
    return v.lo, v.hi, v.tz


def mk(t, lo=None, hi=None, tz=0):
    t = z3.simplify(t)
    if z3.is_int_value(t):
        return t.as_long()
    if lo is not None and hi is not None and lo == hi:
        pass
    return SInt(t, lo, hi, tz)


def _add_b(a, b):
    return None if a is None or b is None else a + b


def add(a, b):
    a, b = as_int(a), as_int(b)
    if isinstance(a, int) and isinstance(b, int):
        return a + b
    la, ha, ta = bounds(a)
    lb, hb, tb = bounds(b)
    return mk(zi(a) + zi(b), _add_b(la, lb), _add_b(ha, hb), min(ta, tb))


def neg(a):
    a = as_int(a)
    if isinstance(a, int):
        return -a
    return mk(-a.t, None if a.hi is None else -a.hi, None if a.lo is None else -a.lo, a.tz)


def sub(a, b):
    a, b = as_int(a), as_int(b)
    if isinstance(a, int) and isinstance(b, int):
        return a - b
    return add(a, neg(b))


def mul(a, b):
    a, b = as_int(a), as_int(b)
    if isinstance(a, int) and isinstance(b, int):
        return a * b
    if isinstance(b, int):
        a, b = b, a
    if isinstance(a, int):
        if a == 0:
            return 0
        lb, hb, tb = bounds(b)
        lo = hi = None
        if lb is not None and hb is not None:
            lo, hi = min(a * lb, a * hb), max(a * lb, a * hb)
        elif a > 0 and lb is not None:
            lo = a * lb
        elif a > 0 and hb is not None:
            hi = a * hb
        return mk(a * b.t, lo, hi, min(BIG_TZ, tb + tz_of_const(a)))
    lo = hi = None
    la, ha, _ = bounds(a)
    lb, hb, _ = bounds(b)
    if None not in (la, ha, lb, hb):
        c = [la * lb, la * hb, ha * lb, ha * hb]
        lo, hi = min(c), max(c)
    return mk(a.t * b.t, lo, hi, 0)


def lshift(a, k):
    k = as_int(k)
    if not isinstance(k, int):
        raise Unsupported("shift by a symbolic amount")
    if k < 0:
        raise ValueError("negative shift count")
    return mul(a, 1 << k)


def from_parts(parts):
    """the integer sum(piece << shift) of disjoint bit fields ((shift, width, piece) with 0 <= piece < 2**width); the result
    remembers its fields so that later shifts and masks by constants split it field-wise instead of producing div / mod of a sum"""
    parts = [(sh, w, p) for sh, w, p in parts if w > 0 and not (isinstance(p, int) and p == 0)]
    total = 0
    for sh, w, p in parts:
        total = add(total, mul(p, 1 << sh))
    if isinstance(total, SInt):
        hi = sum(((1 << w) - 1) << sh for sh, w, p in parts)
        total = SInt(total.t, 0, hi if total.hi is None else min(hi, total.hi), min((sh for sh, w, p in parts), default=0))
        if len(parts) > 1:
            total.parts = tuple(sorted(parts, key=lambda x: x[0]))
    return total


def _pow2_exp(d):
    return d.bit_length() - 1 if d > 0 and d & (d - 1) == 0 else None


def _parts_shr(parts, s):
    out = []
    for sh, w, p in parts:
        if sh >= s:
            out.append((sh - s, w, p))
        elif sh + w > s:
            r = s - sh
            out.append((0, w - r, floordiv_const(p, 1 << r)))
    return from_parts(out)


def _parts_low(parts, s):
    out = []
    for sh, w, p in parts:
        if sh + w <= s:
            out.append((sh, w, p))
        elif sh < s:
            r = s - sh
            out.append((sh, r, mod_const(p, 1 << r)))
    return from_parts(out)


def floordiv_const(a, d):
    """a // d for concrete d > 0 (z3 div is floor for positive divisors)."""
    a = as_int(a)
    if isinstance(a, int):
        return a // d
    if d == 1:
        return a
    if a.parts is not None and _pow2_exp(d) is not None:
        return _parts_shr(a.parts, _pow2_exp(d))
    lo = None if a.lo is None else a.lo // d
    hi = None if a.hi is None else a.hi // d
    return mk(a.t / z3.IntVal(d), lo, hi, 0)


def mod_const(a, d):
    a = as_int(a)
    if isinstance(a, int):
        return a % d
    if a.lo is not None and a.hi is not None and 0 <= a.lo and a.hi < d:
        return a
    if a.parts is not None and _pow2_exp(d) is not None:
        return _parts_low(a.parts, _pow2_exp(d))
    return mk(a.t % z3.IntVal(d), 0, d - 1, min(a.tz, tz_of_const(d)) if a.tz else 0)


def rshift(a, k):
    k = as_int(k)
    if not isinstance(k, int):
        raise Unsupported("shift by a symbolic amount")
    if k < 0:
        raise ValueError("negative shift count")
    return floordiv_const(a, 1 << k)


def _runs(mask):
    """contiguous runs of set bits of a non-negative mask: list of (low_bit, width)."""
    runs = []
    i = 0
    while mask >> i:
        if (mask >> i) & 1:
            j = i
            while (mask >> j) & 1:
                j += 1
            runs.append((i, j - i))
            i = j
        else:
            i += 1
    return runs


def and_const(a, mask):
    a = as_int(a)
    if isinstance(a, int):
        return a & mask
    if mask < 0:
        # a & ~M == a - (a & M)
        return sub(a, and_const(a, ~mask))
    if mask == 0:
        return 0
    # whole-range shortcut
    if a.lo is not None and a.hi is not None and a.lo >= 0:
        full = (1 << a.hi.bit_length()) - 1
        if mask & full == full:
            return a
    total = 0
    for low, width in _runs(mask):
        piece = mod_const(floordiv_const(a, 1 << low), 1 << width)
        total = add(total, mul(piece, 1 << low))
    if isinstance(total, SInt):
        hi = mask if (a.hi is None or a.lo is None or a.lo < 0) else min(mask, a.hi)
        total = SInt(total.t, 0, hi, tz_of_const(mask))
    return total


def _disjoint_syntactic(a, b):
    """True if a's set bits are all >= k and 0 <= b < 2^k for some k (syntactic information)."""
    la, ha, ta = bounds(a)
    lb, hb, tb = bounds(b)
    if lb is not None and hb is not None and lb >= 0 and ta > 0:
        if hb < (1 << min(ta, 4000)):
            return True
    return False


def bit_or(interp, a, b):
    a, b = as_int(a), as_int(b)
    if isinstance(a, int) and isinstance(b, int):
        return a | b
    if isinstance(a, int) and a == 0:
        return b
    if isinstance(b, int) and b == 0:
        return a
    if _disjoint_syntactic(a, b) or _disjoint_syntactic(b, a):
        return add(a, b)
    ctx = interp.ctx
    # solver-assisted: find k from the syntactic trailing zeros of one side
    for x, y in ((a, b), (b, a)):
        _, _, tx = bounds(x)
        if tx > 0:
            k = min(tx, 128)
            if ctx.valid(z3.And(zi(y) >= 0, zi(y) < (1 << k))):
                return add(x, y)
    # try to establish trailing zeros by the solver for common field boundaries
    for x, y in ((a, b), (b, a)):
        ly, hy, _ = bounds(y)
        cands = []
        if hy is not None and ly is not None and ly >= 0:
            cands.append(max(1, hy.bit_length()))
        cands += [1, 2, 3, 4, 5, 6, 7, 8, 11, 12, 13, 14, 16, 24, 32]
        seen = set()
        for k in cands:
            if k in seen:
                continue
            seen.add(k)
            if ctx.valid(z3.And(zi(y) >= 0, zi(y) < (1 << k), zi(x) % (1 << k) == 0)):
                return add(x, y)
    # partial overlap: x is a multiple of 2^k and 0 <= y < 2^(k+2): split y = yh*2^k + yl; then
    # x | y = ((x >> k) | yh) * 2^k + yl, and (x >> k) | c = (x >> k) + c - ((x >> k) & c) for each of the <= 4 values c of yh
    for x, y in ((a, b), (b, a)):
        _, _, tx = bounds(x)
        ly, hy, _ = bounds(y)
        if 0 < tx < 4000 and ly is not None and hy is not None and ly >= 0 and hy < (1 << (tx + 2)) and isinstance(x, SInt) \
                and x.lo is not None and x.lo >= 0:
            k = tx
            xs = floordiv_const(x, 1 << k)
            yh = floordiv_const(y, 1 << k)
            yl = mod_const(y, 1 << k)
            top = (hy >> k)
            r = None
            for c in range(top, -1, -1):
                val = zi(sub(add(xs, c), and_const(xs, c))) if c else zi(xs)
                r = val if r is None else z3.If(zi(yh) == c, val, r)
            hi_x = None if x.hi is None else ((x.hi >> k) | top)
            res = mk(r, 0, hi_x, 0)
            return add(mul(res, 1 << k), yl)
    # an operand that may be negative: split on its sign.  x | y with a negative operand is negative and not below
    # any negative operand (OR only sets bits of the two's complement); that interval is all the model keeps.
    for y in (a, b):
        if isinstance(y, SInt) and not ctx.valid(zi(y) >= 0):
            if interp.truth(mkbool(zi(y) < 0)):
                r = ctx.fresh_int("orneg")
                ctx.assume(z3.And(r <= -1, r >= zi(y)))
                ctx.trusted.add("bitwise or with a negative operand y abstracted to the interval [y, -1]")
                return mk(r, None, -1, 0)
            return bit_or(interp, a, b)
    return _bv_binop(interp, a, b, lambda p, q: p | q, "or")


def _bv_binop(interp, a, b, f, what):
    ctx = interp.ctx
    W = 72
    lim = 1 << W
    if not ctx.valid(z3.And(zi(a) >= 0, zi(a) < lim, zi(b) >= 0, zi(b) < lim)):
        raise Unsupported(f"bitwise {what} on operands not provably in [0, 2^{W})")
    ctx.trusted.add("int2bv/bv2int 72-bit encoding of a bitwise operator")
    r = z3.BV2Int(f(z3.Int2BV(zi(a), W), z3.Int2BV(zi(b), W)), False)
    return mk(r, 0, lim - 1, 0)


def bit_and(interp, a, b):
    a, b = as_int(a), as_int(b)
    if isinstance(a, int) and isinstance(b, int):
        return a & b
    if isinstance(b, int):
        return and_const(a, b)
    if isinstance(a, int):
        return and_const(b, a)
    return _bv_binop(interp, a, b, lambda p, q: p & q, "and")


def bit_xor(interp, a, b):
    a, b = as_int(a), as_int(b)
    if isinstance(a, int) and isinstance(b, int):
        return a ^ b
    return _bv_binop(interp, a, b, lambda p, q: p ^ q, "xor")


def invert(a):
    return sub(neg(a), 1)


def floordiv(interp, a, b):
    a, b = as_int(a), as_int(b)
    if isinstance(b, int):
        if b == 0:
            raise ZeroDivisionError()
        if b > 0:
            return floordiv_const(a, b)
        return floordiv_const(neg(a), -b)
    if interp.ctx.valid(b.t > 0):
        return mk(zi(a) / b.t)
    raise Unsupported("floor division by a symbolic divisor not provably positive")


def mod(interp, a, b):
    a, b = as_int(a), as_int(b)
    if isinstance(b, int):
        if b == 0:
            raise ZeroDivisionError()
        if b > 0:
            return mod_const(a, b)
        return neg(mod_const(neg(a), -b))
    if interp.ctx.valid(b.t > 0):
        return mk(zi(a) % b.t, 0, None, 0)
    raise Unsupported("modulo by a symbolic divisor not provably positive")


def cmp(op, a, b):
    a, b = as_int(a), as_int(b)
    if isinstance(a, int) and isinstance(b, int):
        return {"<": a < b, "<=": a <= b, ">": a > b, ">=": a >= b, "==": a == b, "!=": a != b}[op]
    # decided by the syntactic bounds?
    la, ha, _ = bounds(a)
    lb, hb, _ = bounds(b)
    if ha is not None and lb is not None:
        if ha < lb:
            return {"<": True, "<=": True, ">": False, ">=": False, "==": False, "!=": True}[op]
        if ha == lb and op in ("<=", ">"):
            return op == "<="
    if la is not None and hb is not None:
        if la > hb:
            return {"<": False, "<=": False, ">": True, ">=": True, "==": False, "!=": True}[op]
        if la == hb and op in (">=", "<"):
            return op == ">="
    x, y = zi(a), zi(b)
    t = {"<": x < y, "<=": x <= y, ">": x > y, ">=": x >= y, "==": x == y, "!=": x != y}[op]
    t = z3.simplify(t)
    if z3.is_true(t):
        return True
    if z3.is_false(t):
        return False
    return SBool(t)


def zb(v):
    """bool | SBool -> z3 Bool."""
    if isinstance(v, bool):
        return z3.BoolVal(v)
    if isinstance(v, SBool):
        return v.t
    raise TypeError(f"not a boolean: {v!r}")


def mkbool(t):
    t = z3.simplify(t)
    if z3.is_true(t):
        return True
    if z3.is_false(t):
        return False
    return SBool(t)


def b_and(*vs):
    ts = []
    for v in vs:
        if v is False:
            return False
        if v is True:
            continue
        ts.append(zb(v))
    if not ts:
        return True
    return mkbool(z3.And(*ts))


def b_or(*vs):
    ts = []
    for v in vs:
        if v is True:
            return True
        if v is False:
            continue
        ts.append(zb(v))
    if not ts:
        return False
    return mkbool(z3.Or(*ts))


def b_not(v):
    if isinstance(v, bool):
        return not v
    return mkbool(z3.Not(zb(v)))


# --------------------------------------------------------------------------------------------
# ropes
# --------------------------------------------------------------------------------------------

def elem_term(e):
    return z3.IntVal(e) if isinstance(e, int) else e


def seg_len(e):
    return e.n if isinstance(e, Blk) else 1


def norm(rope):
    """Expand refined blocks; drop provably empty ones."""
    out = []
    stack = list(reversed(rope))
    while stack:
        e = stack.pop()
        if isinstance(e, Blk):
            if e.parts is not None:
                stack.extend(reversed(e.parts))
                continue
            if isinstance(e.n, int) and e.n == 0:
                continue
        out.append(e)
    return out


def rope_len(rope):
    """int | SInt"""
    n = 0
    sym = None
    for e in norm(rope):
        if isinstance(e, Blk):
            if isinstance(e.n, int):
                n += e.n
            else:
                sym = e.n if sym is None else sym + e.n
        else:
            n += 1
    if sym is None:
        return n
    return mk(sym + n, n, None, 0)


def rope_term(rope):
    parts = []
    for e in norm(rope):
        if isinstance(e, Blk):
            parts.append(e.seq)
        else:
            parts.append(z3.Unit(elem_term(e)))
    if not parts:
        return EMPTY_SEQ
    if len(parts) == 1:
        return parts[0]
    return z3.Concat(*parts)


def rope_is_concrete(rope):
    return all(isinstance(e, int) for e in norm(rope))


def new_block(ctx, n, base="blk", octets=True):
    """Fresh block of length n (int or z3 term); short concrete lengths become element variables."""
    if isinstance(n, SInt):
        n = n.t
    if not isinstance(n, int):
        n = z3.simplify(n)
        if z3.is_int_value(n):
            n = n.as_long()
    if isinstance(n, int) and n <= 64:
        els = []
        for _ in range(n):
            v = ctx.fresh_int(base + "e")
            if octets:
                ctx.assume(z3.And(v >= 0, v <= (255 if octets is True else int(octets))))
            els.append(v)
        return els
    s = ctx.fresh_seq(base)
    ctx.assume(z3.Length(s) == n)
    return [Blk(s, n, str(s), octets)]


def split_block(ctx, blk, k):
    """Refine blk into two pieces at offset k (0 < k < n assumed established)."""
    left = new_block(ctx, k, "sl", blk.octets)
    nk = (blk.n - k) if isinstance(blk.n, int) and isinstance(k, int) else z3.simplify(elem_term(blk.n) - elem_term(k))
    right = new_block(ctx, nk, "sr", blk.octets)
    blk.parts = left + right
    ctx.assume(blk.seq == rope_term(blk.parts))
    return left, right


def refine_to_elements(ctx, blk, k):
    """blk is known (under the pc) to have exactly k (concrete) elements: replace it by k element
    variables."""
    els = new_block(ctx, k, "se", blk.octets)
    blk.parts = els
    ctx.assume(blk.seq == rope_term(els))
    return els


def split_at(interp, rope, pos):
    """Split rope at offset pos (int | SInt), 0 <= pos <= len established by the caller.
    Returns (left, right).  May fork on where pos falls."""
    ctx = interp.ctx
    rope = norm(rope)
    pos = as_int(pos)
    if isinstance(pos, int) and len(rope) >= pos and all(not isinstance(e, Blk) for e in rope[:pos]):
        return rope[:pos], rope[pos:]
    acc = 0  # int | z3 term
    p = zi(pos)
    prev = None  # (blk, acc_before) if the previous entry was a block of symbolic length
    for i, e in enumerate(rope):
        acc_t = z3.IntVal(acc) if isinstance(acc, int) else acc
        if isinstance(pos, int) and isinstance(acc, int):
            at_boundary = pos == acc
        else:
            at_boundary = ctx.branch(p <= acc_t)
        if at_boundary:
            if prev is not None and isinstance(pos, int) and isinstance(prev[1], int) and pos - prev[1] <= 64:
                refine_to_elements(ctx, prev[0], pos - prev[1])
                return norm(rope[:i]), rope[i:]
            return rope[:i], rope[i:]
        prev = None
        if isinstance(e, Blk):
            n_t = elem_term(e.n)
            end_t = z3.simplify(acc_t + n_t)
            if isinstance(pos, int) and isinstance(acc, int) and isinstance(e.n, int):
                beyond = pos >= acc + e.n
            else:
                beyond = ctx.branch(p >= end_t)
            if not beyond:
                k = pos - acc if isinstance(pos, int) and isinstance(acc, int) else z3.simplify(p - acc_t)
                if not isinstance(k, int) and z3.is_int_value(k):
                    k = k.as_long()
                left, right = split_block(ctx, e, k)
                return rope[:i] + left, right + rope[i + 1:]
            if not isinstance(e.n, int):
                prev = (e, acc)
            acc = acc + e.n if isinstance(acc, int) and isinstance(e.n, int) else z3.simplify(acc_t + n_t)
            if not isinstance(acc, int) and z3.is_int_value(acc):
                acc = acc.as_long()
        else:
            acc = acc + 1 if isinstance(acc, int) else z3.simplify(acc_t + 1)
    if prev is not None and isinstance(pos, int) and isinstance(prev[1], int) and pos - prev[1] <= 64:
        if ctx.valid(elem_term(prev[0].n) == pos - prev[1]):
            refine_to_elements(ctx, prev[0], pos - prev[1])
            return norm(rope), []
    return rope, []


def rope_eq(a, b):
    """Equality of two ropes as bool | SBool (syntactic alignment, then sequence equality)."""
    a, b = norm(a), norm(b)
    conj = []
    i = j = 0
    while i < len(a) and j < len(b):
        x, y = a[i], b[j]
        if isinstance(x, Blk) or isinstance(y, Blk):
            if x is y:
                i += 1
                j += 1
                continue
            break
        if isinstance(x, int) and isinstance(y, int):
            if x != y:
                return False
        else:
            conj.append(elem_term(x) == elem_term(y))
        i += 1
        j += 1
    ra, rb = a[i:], b[j:]
    # strip common suffix
    while ra and rb:
        x, y = ra[-1], rb[-1]
        if isinstance(x, Blk) or isinstance(y, Blk):
            if x is y:
                ra, rb = ra[:-1], rb[:-1]
                continue
            break
        if isinstance(x, int) and isinstance(y, int):
            if x != y:
                return False
        else:
            conj.append(elem_term(x) == elem_term(y))
        ra, rb = ra[:-1], rb[:-1]
    if not ra and not rb:
        pass
    elif (not ra and all(not isinstance(e, Blk) for e in rb)) or (not rb and all(not isinstance(e, Blk) for e in ra)):
        return False
    else:
        conj.append(rope_term(ra) == rope_term(rb))
    if not conj:
        return True
    return mkbool(z3.And(*conj))


def mk_open_rest(ctx, seq, cnt):
    """OpenRest with its length variable"""
    from .values import OpenRest
    n = ctx.fresh_int("restlen", 0)
    ctx.assume(z3.Length(seq) == n)
    return OpenRest(seq, cnt, n)
