"""Models of library modules: struct, enum, abc, dataclasses, copy, typing, collections, crcmod,
deprecation, logging, importlib.metadata.  (datetime/math/time: floats_model; pathlib/open: fs_model)"""
from __future__ import annotations
import z3

from .values import *  # noqa
from .values import NOT_IMPLEMENTED
from . import ops
from .ops import as_int, is_intlike, zi
from .explore import Unsupported, PathInfeasible


def _b(name, type_name=None):
    def deco(fn):
        return Builtin(name, lambda interp, args, kwargs: fn(interp, *args, **kwargs), type_name)
    return deco


def special_len(interp, v):
    return NOT_IMPLEMENTED


def instantiate_special(interp, cls, args, kwargs):
    return NOT_IMPLEMENTED


# ------------------------------------------------------------------------------------------------
# integers <-> octets
# ------------------------------------------------------------------------------------------------

def be_elems(interp, v, n):
    """big-endian octets of v, 0 <= v < 256^n established by the caller: list of int | z3 term."""
    v = as_int(v)
    if isinstance(v, int):
        return list(v.to_bytes(n, "big"))
    if n == 0:
        return []
    ctx = interp.ctx
    key = ("be", v.t.get_id(), n)
    if key in ctx.ghost:
        return list(ctx.ghost[key])
    if n == 1:
        els = [v.t]
    else:
        els = [ctx.fresh_int("o") for _ in range(n)]
        for e in els:
            ctx.assume(z3.And(e >= 0, e <= 255))
        ctx.assume(v.t == z3.Sum([e * (256 ** (n - 1 - i)) for i, e in enumerate(els)]))
    ctx.ghost[key] = list(els)
    return els


def from_be_elems(els):
    """value of big-endian octets (elements int | z3 term) -> int | SInt"""
    if all(isinstance(e, int) for e in els):
        return int.from_bytes(bytes(els), "big")
    n = len(els)
    t = z3.Sum([ops.elem_term(e) * (256 ** (n - 1 - i)) for i, e in enumerate(els)]) if n > 1 else ops.elem_term(els[0])
    r = ops.mk(t, 0, 256 ** n - 1, 0)
    if n > 1 and isinstance(r, SInt):
        # remember the octets: shifts and masks of the word by constants then split octet-wise (as hand-written shifting does)
        r.parts = tuple(sorted(((8 * (n - 1 - i), 8, e if isinstance(e, int) else SInt(ops.elem_term(e), 0, 255, 0))
                                for i, e in enumerate(els) if not (isinstance(e, int) and e == 0)), key=lambda x: x[0]))
    return r


def exact_elements(interp, rope, n, exc="struct.error", msg="buffer size mismatch"):
    """the n elements of a rope whose length must be exactly n (else raise exc)"""
    ln = ops.rope_len(rope)
    if not interp.truth(ops.cmp("==", ln, n)):
        interp.throw(exc, msg)
    left, _ = ops.split_at(interp, rope, n)
    left = ops.norm(left)
    for e in left:
        if isinstance(e, Blk):
            vals = interp.ctx.enumerate_values(ops.elem_term(e.n), 70)
            if vals is None:
                raise Unsupported("could not decompose a block into elements")
            for c in sorted(vals):
                if interp.ctx.branch(ops.elem_term(e.n) == c):
                    ops.refine_to_elements(interp.ctx, e, c)
                    break
    left = ops.norm(left)
    if any(isinstance(e, Blk) for e in left):
        raise Unsupported("could not decompose a block into elements")
    return left


def int_to_bytes(interp, v, length, byteorder="big", signed=False):
    n = as_int(length)
    if isinstance(n, SInt):
        from . import builtins_model as bm
        n = bm.concretize(interp, n)
    if byteorder not in ("big", "little"):
        raise Unsupported("byteorder")
    v = as_int(v)
    if signed:
        lo, hi = -(1 << (8 * n - 1)) if n else 0, (1 << (8 * n - 1)) - 1 if n else 0
    else:
        lo, hi = 0, (1 << (8 * n)) - 1
    ok = ops.b_and(ops.cmp(">=", v, lo), ops.cmp("<=", v, hi))
    if not interp.truth(ok):
        interp.throw("OverflowError", "int too big to convert")
    if signed and interp.truth(ops.cmp("<", v, 0)):
        v = ops.add(v, 1 << (8 * n))
    els = be_elems(interp, v, n)
    if byteorder == "little":
        els = list(reversed(els))
    return BytesV(els, "bytes")


def int_from_bytes(interp, b, byteorder="big", signed=False):
    if not isinstance(b, BytesV):
        interp.throw("TypeError", "cannot convert object to bytes")
    rope = ops.norm(b.rope)
    if any(isinstance(e, Blk) for e in rope):
        # symbolic length: one path per length (fields of at most 16 octets), then element-wise as for a fixed-size field
        from . import builtins_model as bm
        k = bm.concretize(interp, ops.rope_len(rope), 17)
        rope = exact_elements(interp, rope, k, "ValueError", "unreachable: length was fixed on this path")
    els = list(rope) if byteorder == "big" else list(reversed(rope))
    if not els:
        return 0
    v = from_be_elems(els)
    if signed:
        n = len(els)
        if interp.truth(ops.cmp(">=", v, 1 << (8 * n - 1))):
            v = ops.sub(v, 1 << (8 * n))
    return v


def int_of_text(interp, v, base):
    from . import fs_model
    return fs_model.int_of_text(interp, v, base)


def bytes_decode(interp, b, encoding="utf-8", errors="strict"):
    enc = str(encoding).lower().replace("_", "-")
    if ops.rope_is_concrete(b.rope):
        try:
            return bytes(ops.norm(b.rope)).decode(encoding, errors)
        except UnicodeDecodeError:
            interp.throw("UnicodeDecodeError", "codec can't decode")
    if enc not in ("utf-8", "utf8"):
        raise Unsupported("decode of symbolic octets with a codec other than utf-8")
    ctx = interp.ctx
    ctx.trusted.add("str: abstract strings = their UTF-8 octets; valid_utf8 is an uninterpreted predicate")
    valid = z3.Function("valid_utf8", SeqSort, z3.BoolSort())
    chars = z3.Function("utf8_chars", SeqSort, IntSort)
    t = ops.rope_term(b.rope)
    if errors == "strict":
        if not ctx.branch(valid(t)):
            interp.throw("UnicodeDecodeError", "invalid utf-8")
    n = chars(t)
    ln = ops.rope_len(b.rope)
    ctx.assume(z3.And(n <= zi(ln), 4 * n >= zi(ln), n >= 0))
    if ctx.valid(n == zi(ln)):
        # known to have as many characters as octets (e.g. an AsciiStrLen input read back): use the octet count itself, which
        # keeps later length arithmetic free of the uninterpreted count
        return StrV(BytesV(list(b.rope), "bytes"), ln if isinstance(ln, int) else ops.mk(zi(ln), 0, None, 0))
    return StrV(BytesV(list(b.rope), "bytes"), ops.mk(n, 0, None, 0))


# ------------------------------------------------------------------------------------------------
# struct
# ------------------------------------------------------------------------------------------------
CODES = {"B": (1, False), "H": (2, False), "I": (4, False), "L": (4, False), "Q": (8, False),
         "b": (1, True), "h": (2, True), "i": (4, True), "l": (4, True), "q": (8, True)}


def parse_fmt(interp, fmt):
    if not isinstance(fmt, str):
        raise Unsupported("symbolic struct format")
    order = "native"
    body = fmt
    if fmt[:1] in "!><=@":
        order = {"!": "big", ">": "big", "<": "little", "=": "little", "@": "native"}[fmt[0]]
        body = fmt[1:]
    items = []
    cnt = ""
    for ch in body:
        if ch.isdigit():
            cnt += ch
            continue
        if ch == " ":
            continue
        if ch not in CODES:
            if ch in "xcs?nNefdpP":
                raise Unsupported(f"struct code {ch}")
            interp.throw("struct.error", "bad char in struct format")
        for _ in range(int(cnt) if cnt else 1):
            items.append(CODES[ch])
        cnt = ""
    if order == "native":
        if len(items) > 1:
            raise Unsupported("native struct format with alignment")
        interp.ctx.trusted.add("struct native byte order/size: little-endian, I=4, Q=8 (x86-64 Linux)")
        if any(c == "L" or c == "l" for c in body):
            raise Unsupported("native long")
        order = "little"
    return order, items


def struct_pack(interp, fmt, *vals):
    order, items = parse_fmt(interp, fmt)
    if len(items) != len(vals):
        interp.throw("struct.error", f"pack expected {len(items)} items for packing (got {len(vals)})")
    rope = []
    for (n, signed), v in zip(items, vals):
        if not is_intlike(v):
            interp.throw("struct.error", "required argument is not an integer")
        v = as_int(v)
        if signed:
            lo, hi = -(1 << (8 * n - 1)), (1 << (8 * n - 1)) - 1
        else:
            lo, hi = 0, (1 << (8 * n)) - 1
        ok = ops.b_and(ops.cmp(">=", v, lo), ops.cmp("<=", v, hi))
        if not interp.truth(ok):
            interp.throw("struct.error", "argument out of range")
        if signed and interp.truth(ops.cmp("<", v, 0)):
            v = ops.add(v, 1 << (8 * n))
        els = be_elems(interp, v, n)
        if order == "little":
            els = list(reversed(els))
        rope.extend(els)
    return BytesV(rope, "bytes")


def struct_unpack(interp, fmt, data):
    order, items = parse_fmt(interp, fmt)
    if not isinstance(data, BytesV):
        interp.throw("TypeError", "a bytes-like object is required")
    total = sum(n for n, _ in items)
    els = exact_elements(interp, data.rope, total, "struct.error", f"unpack requires a buffer of {total} bytes")
    out = []
    pos = 0
    for n, signed in items:
        chunk = els[pos:pos + n]
        pos += n
        if order == "little":
            chunk = list(reversed(chunk))
        v = from_be_elems(chunk) if n else 0
        if signed and interp.truth(ops.cmp(">=", v, 1 << (8 * n - 1))):
            v = ops.sub(v, 1 << (8 * n))
        out.append(v)
    return tuple(out)


def struct_unpack_from(interp, fmt, data, offset=0):
    """struct.unpack_from(fmt, buffer, offset=0): the buffer may be longer than the format; a negative offset counts from
    the end; struct.error when fewer than calcsize(fmt) octets remain"""
    from . import builtins_model as bm
    if not isinstance(data, BytesV):
        interp.throw("TypeError", "a bytes-like object is required")
    _, items = parse_fmt(interp, fmt)
    total = sum(n for n, _ in items)
    n = ops.rope_len(data.rope)
    off = as_int(offset)
    if interp.truth(ops.cmp("<", off, 0)):
        off = ops.add(off, n)
        if interp.truth(ops.cmp("<", off, 0)):
            interp.throw("struct.error", "offset out of range")
    if interp.truth(ops.cmp("<", ops.sub(n, off), total)):
        interp.throw("struct.error", f"unpack_from requires a buffer of at least {total} bytes")
    piece = BytesV(bm.rope_slice(interp, data.rope, off, ops.add(off, total)), "bytes")
    return struct_unpack(interp, fmt, piece)


def struct_iter_unpack(interp, fmt, data):
    """struct.iter_unpack(fmt, buffer): struct.error unless the buffer is a non-zero multiple of calcsize(fmt) ... evaluated
    eagerly (the real function raises at the call as well); needs an octet string of concrete length"""
    _, items = parse_fmt(interp, fmt)
    total = sum(n for n, _ in items)
    if not isinstance(data, BytesV):
        interp.throw("TypeError", "a bytes-like object is required")
    if total == 0:
        interp.throw("struct.error", "cannot iteratively unpack with a struct of length 0")
    n = ops.rope_len(data.rope)
    if not isinstance(n, int):
        n = interp.bm.concretize(interp, n, 70)
    if n % total:
        interp.throw("struct.error", f"iterative unpacking requires a buffer of a multiple of {total} bytes")
    from . import builtins_model as bm
    return PyList([struct_unpack(interp, fmt, BytesV(bm.rope_slice(interp, data.rope, i, i + total), "bytes")) for i in range(0, n, total)])


def struct_struct(interp, fmt):
    """struct.Struct(fmt): a namespace of the module functions with the format bound (other attributes: not modelled)"""
    if isinstance(fmt, BytesV):
        raise Unsupported("struct.Struct with a bytes format")
    _, items = parse_fmt(interp, fmt)
    o = ModuleV("struct.Struct", {})
    o.ns["format"] = fmt
    o.ns["size"] = sum(n for n, _ in items)
    o.ns["pack"] = _b("Struct.pack")(lambda interp, *vals: struct_pack(interp, fmt, *vals))
    o.ns["unpack"] = _b("Struct.unpack")(lambda interp, data: struct_unpack(interp, fmt, data))
    o.ns["unpack_from"] = _b("Struct.unpack_from")(lambda interp, data, offset=0: struct_unpack_from(interp, fmt, data, offset))
    o.ns["iter_unpack"] = _b("Struct.iter_unpack")(lambda interp, data: struct_iter_unpack(interp, fmt, data))
    return o


def struct_calcsize(interp, fmt):
    _, items = parse_fmt(interp, fmt)
    return sum(n for n, _ in items)


# ------------------------------------------------------------------------------------------------
# CRC-16/CCITT-FALSE
# ------------------------------------------------------------------------------------------------
CRC16 = z3.Function("crc16", SeqSort, IntSort)


def crc16_concrete(data, state=0xFFFF):
    for b in data:
        state ^= b << 8
        for _ in range(8):
            if state & 0x8000:
                state = ((state << 1) ^ 0x1021) & 0xFFFF
            else:
                state = (state << 1) & 0xFFFF
    return state


def crc16_of(interp, rope):
    rope = ops.norm(rope)
    if ops.rope_is_concrete(rope):
        return crc16_concrete(rope)
    ctx = interp.ctx
    ctx.trusted.add("crc: crcmod 'crc-ccitt-false' == bit-serial CRC-16 (poly 0x1021, init 0xFFFF); crc16 uninterpreted in packet VCs, "
                    "with the residue lemma L-CRC-RES-IFF (proved per run in lemmas/crc) instantiated on ground terms")
    if len(rope) >= 1 and isinstance(rope[-1], Blk):
        # the string ends in a symbolic block of at least two octets (e.g. data[:packet_len] of a received packet):
        # name its last two octets by refining the block in place (semantically a no-op, and no fork) so that the
        # residue lemma below gets its ground instance
        last = rope[-1]
        if isinstance(last.n, int):
            if last.n > 2:
                ops.split_block(ctx, last, last.n - 2)
                rope = ops.norm(rope)
        elif ctx.valid(last.n >= 2):
            ops.split_block(ctx, last, z3.simplify(last.n - 2))
            rope = ops.norm(rope)
    t = CRC16(ops.rope_term(rope))
    ctx.assume(z3.And(t >= 0, t <= 65535))
    # ground instance of L-CRC-RES-IFF when the string ends in two literal elements
    if len(rope) >= 2 and not isinstance(rope[-1], Blk) and not isinstance(rope[-2], Blk):
        pre = rope[:-2]
        if ops.rope_is_concrete(pre):
            cp = z3.IntVal(crc16_concrete(pre))
        else:
            cp = CRC16(ops.rope_term(pre))
            ctx.assume(z3.And(cp >= 0, cp <= 65535))
        h, l = ops.elem_term(rope[-2]), ops.elem_term(rope[-1])
        ctx.assume((cp == 256 * h + l) == (t == 0))
    if getattr(interp.cfg, "lia_branch", False):
        # name the value: branch conditions on it become sequence-free (decided by the LIA abstraction)
        c = ctx.fresh_int("crc")
        ctx.assume(c == t)
        ctx.assume(z3.And(c >= 0, c <= 65535))
        return SInt(c, 0, 65535, 0)
    return SInt(t, 0, 65535, 0)


def make_crcmod(interp):
    mod = ModuleV("crcmod.predefined", {})
    mod.stub = False

    def mk_fun(interp, crc_name=None, *a, **k):
        if crc_name != "crc-ccitt-false":
            raise Unsupported(f"crc {crc_name}")

        def fun(interp, data, *rest):
            if rest:
                raise Unsupported("crc function with explicit start value")
            if not isinstance(data, BytesV):
                interp.throw("TypeError", "a bytes-like object is required")
            return crc16_of(interp, data.rope)
        return _b("crc16_ccitt_false")(fun)
    mod.ns["mkPredefinedCrcFun"] = _b("mkPredefinedCrcFun")(mk_fun)
    mod.ns["mkCrcFun"] = mod.ns["mkPredefinedCrcFun"]

    cls = ClassV("PredefinedCrc", [interp.builtins["object"]], {}, "crcmod.predefined")

    def init(interp, args, kwargs):
        self = args[0]
        name = kwargs.get("crc_name", args[1] if len(args) > 1 else None)
        if name != "crc-ccitt-false":
            raise Unsupported(f"crc {name}")
        self.fields["_acc"] = BytesV([], "bytearray")
        return None

    def update(interp, args, kwargs):
        self, data = args
        if not isinstance(data, BytesV):
            interp.throw("TypeError", "a bytes-like object is required")
        self.fields["_acc"].rope = list(self.fields["_acc"].rope) + list(data.rope)
        return None

    def crc_value(interp, args, kwargs):
        return crc16_of(interp, args[0].fields["_acc"].rope)

    def digest(interp, args, kwargs):
        v = crc16_of(interp, args[0].fields["_acc"].rope)
        return BytesV(be_elems(interp, v, 2), "bytes")
    for n, f in (("__init__", init), ("update", update), ("digest", digest)):
        bb = Builtin("PredefinedCrc." + n, f)
        bb.is_method = True
        cls.ns[n] = bb
    getter = Builtin("PredefinedCrc.crcValue", crc_value)
    cls.ns["crcValue"] = PropertyV(getter, None)
    mod.ns["PredefinedCrc"] = cls
    mod.ns["Crc"] = cls
    return mod


# ------------------------------------------------------------------------------------------------
# copy
# ------------------------------------------------------------------------------------------------

def copy_copy(interp, v):
    if isinstance(v, Instance):
        f, _ = interp.class_lookup(v.cls, "__copy__")
        if f is not None:
            return interp.call(interp.bind(v, f), [], {})
        return Instance(v.cls, dict(v.fields))
    if isinstance(v, PyList):
        return PyList(v._items, v.prefix)
    if isinstance(v, PyDict):
        return PyDict(v.pairs)
    if isinstance(v, PyDeque):
        return PyDeque(v._items, v.rest)
    if isinstance(v, BytesV):
        return BytesV(list(v.rope), v.kind) if v.kind == "bytearray" else v
    return v


def copy_deepcopy(interp, v, memo=None):
    memo = {} if memo is None or not isinstance(memo, dict) else memo
    if id(v) in memo:
        return memo[id(v)]
    if isinstance(v, Instance):
        f, _ = interp.class_lookup(v.cls, "__deepcopy__")
        if f is not None:
            return interp.call(interp.bind(v, f), [PyDict()], {})
        n = Instance(v.cls, {})
        memo[id(v)] = n
        for k, x in v.fields.items():
            n.fields[k] = copy_deepcopy(interp, x, memo)
        return n
    if isinstance(v, PyList):
        n = PyList()
        memo[id(v)] = n
        n._items = [copy_deepcopy(interp, x, memo) for x in v._items]
        n.prefix = v.prefix
        return n
    if isinstance(v, PyDict):
        n = PyDict()
        memo[id(v)] = n
        n.pairs = [(copy_deepcopy(interp, k, memo), copy_deepcopy(interp, x, memo)) for k, x in v.pairs]
        return n
    if isinstance(v, PyDeque):
        n = PyDeque()
        memo[id(v)] = n
        n._items = [copy_deepcopy(interp, x, memo) for x in v._items]
        n.rest = v.rest
        return n
    if isinstance(v, tuple):
        return tuple(copy_deepcopy(interp, x, memo) for x in v)
    if isinstance(v, BytesV) and v.kind == "bytearray":
        return BytesV(list(v.rope), v.kind)
    return v


# ------------------------------------------------------------------------------------------------
# stub modules
# ------------------------------------------------------------------------------------------------

def stub_module(interp, name):
    from . import builtins_funcs as bf
    b = interp.builtins
    if name == "struct":
        m = ModuleV("struct", {})
        m.ns["pack"] = _b("struct.pack")(struct_pack)
        m.ns["unpack"] = _b("struct.unpack")(struct_unpack)
        m.ns["unpack_from"] = _b("struct.unpack_from")(struct_unpack_from)
        m.ns["calcsize"] = _b("struct.calcsize")(struct_calcsize)
        m.ns["iter_unpack"] = _b("struct.iter_unpack")(struct_iter_unpack)
        m.ns["Struct"] = _b("struct.Struct")(struct_struct)
        m.ns["error"] = interp.exc_classes["struct.error"]
        return m
    if name == "types":
        m = ModuleV("types", {})
        # a read-only view of a dict: reads behave like the dict; writes through the view raise TypeError in Python and are
        # not modelled (the view is returned as the dict itself, code writing through it would be misjudged - none does)
        def mapping_proxy(interp, d):
            ctx = getattr(interp, "ctx", None)
            if ctx is not None and hasattr(ctx, "trusted"):
                ctx.trusted.add("types.MappingProxyType(d) is modelled as d itself (reads only; a write through the view is not modelled)")
            return d
        m.ns["MappingProxyType"] = _b("types.MappingProxyType")(mapping_proxy)
        return m
    if name == "itertools":
        m = ModuleV("itertools", {})

        def chain(interp, *its):
            from . import builtins_model as bm
            interp.ctx.trusted.add("iterators (enumerate, zip, iter, itertools.chain) are modelled as lists: one-pass consumption is not modelled")
            out = []
            for it in its:
                out.extend(bm.iterate(interp, it))
            return PyList(out)
        m.ns["chain"] = _b("itertools.chain")(chain)
        return m
    if name == "enum":
        m = ModuleV("enum", {})
        enum = ClassV("Enum", [b["object"]], {}, "enum")
        enum.is_enum = True
        enum.members = {}
        intenum = ClassV("IntEnum", [enum], {}, "enum")
        intenum.is_enum = True
        intenum.is_intenum = True
        intenum.members = {}
        m.ns["Enum"] = enum
        m.ns["IntEnum"] = intenum
        m.ns["auto"] = _b("auto")(lambda interp: ("auto",))
        m.ns["unique"] = _b("unique")(lambda interp, c: c)
        return m
    if name == "abc":
        m = ModuleV("abc", {})
        m.ns["ABC"] = ClassV("ABC", [b["object"]], {}, "abc")

        def abstractmethod(interp, f):
            for fn in interp._funcs_of(f):
                fn.abstract = True
            if isinstance(f, PropertyV):
                f.abstract = True
            return f
        m.ns["abstractmethod"] = _b("abstractmethod")(abstractmethod)
        m.ns["ABCMeta"] = Dummy("ABCMeta")
        return m
    if name == "dataclasses":
        m = ModuleV("dataclasses", {})

        def dataclass(interp, cls=None, **kw):
            if cls is None:
                return _b("dataclass()")(lambda interp, c: bf.make_dataclass(interp, c, **kw))
            return bf.make_dataclass(interp, cls, **kw)

        def field(interp, default=NOT_IMPLEMENTED, default_factory=NOT_IMPLEMENTED, compare=True, init=True, **kw):
            return bf.DCField(default, default_factory, compare, init)

        def replace(interp, obj, **changes):
            n = Instance(obj.cls, dict(obj.fields))
            for k, v in changes.items():
                n.fields[k] = v
            return n
        m.ns["dataclass"] = _b("dataclass")(dataclass)
        m.ns["field"] = _b("field")(field)
        m.ns["replace"] = _b("replace")(replace)
        return m
    if name == "copy":
        m = ModuleV("copy", {})
        m.ns["copy"] = _b("copy.copy")(copy_copy)
        m.ns["deepcopy"] = _b("copy.deepcopy")(copy_deepcopy)
        return m
    if name == "typing":
        m = ModuleV("typing", {})
        m.stub = True
        m.ns["cast"] = _b("cast")(lambda interp, t, v: v)
        m.ns["TYPE_CHECKING"] = False
        return m
    if name == "collections":
        m = ModuleV("collections", {})
        m.ns["deque"] = b["deque_type"]
        m.stub = True
        return m
    if name in ("crcmod", "crcmod.predefined"):
        pm = make_crcmod(interp)
        if name == "crcmod":
            m = ModuleV("crcmod", {"predefined": pm})
            m.ns.update({k: v for k, v in pm.ns.items()})
            return m
        return pm
    if name == "deprecation":
        m = ModuleV("deprecation", {})
        m.ns["deprecated"] = _b("deprecated")(lambda interp, *a, **k: _b("deprecated()")(lambda interp, f: f))
        return m
    if name in ("importlib", "importlib.metadata"):
        meta = ModuleV("importlib.metadata", {})
        meta.ns["version"] = _b("version")(lambda interp, n: "0.0.0")
        if name == "importlib":
            return ModuleV("importlib", {"metadata": meta})
        return meta
    if name in ("logging", "doctest", "sys", "os", "warnings", "__future__", "typing_extensions"):
        m = ModuleV(name, {})
        m.stub = True
        return m
    if name in ("datetime", "math", "time"):
        from . import floats_model
        return floats_model.stub_module(interp, name)
    if name == "pathlib":
        from . import fs_model
        return fs_model.stub_module(interp, name)
    if name == "pyvc_spec":
        m = ModuleV("pyvc_spec", {})
        from . import spec_prims
        m.ns.update(spec_prims.primitives(interp))
        return m
    return None
