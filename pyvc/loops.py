"""Loops with invariants (side-car loop contracts) and ghost spec functions with unfolding.

Loop rule (Hoare/Floyd, generated per path):

    assert I                                   obligations  "<fn>#<k>/init/<label>"
    havoc the declared variables; assume I     (an ARBITRARY iteration)
    if not guard:  continue after the loop     (exit state = any state with I and not guard)
    body                                       (break: continue after the loop with that state;
                                                return / raise: leave the function from there)
    assert I, variant decreased and >= 0,      obligations  "<fn>#<k>/preserved/<label>", ".../variant",
    assert nothing outside the havoc set changed             ".../frame"
    end of path (cut)

The frame obligation makes the havoc declaration checked, not trusted: if one arbitrary iteration
changes nothing but the declared variables, no iteration does.

A loop contract is registered from a contract file:

    @loop_spec("pkg.mod:func", ordinal, havoc={"idx": Int, "out": BytesList})
    def inv(idx, out, buf):            # parameters are bound to the function's locals of the same name
        invariant("range", 0 <= idx)   # asserted / assumed depending on the phase
        decreases(len(buf) - idx)

Ghost spec functions (`@ghost_function`): a (possibly recursive) function of the contract file whose
calls are uninterpreted applications; `unfold(f, *args)` executes the body once and assumes
`f(args) == body`, after the obligation `ghost-wf/<f>` that every recursive call in the body has a
smaller, non-negative measure (so the definition is a well-founded recursion, hence consistent).
"""
from __future__ import annotations
import ast
import os
import sys
import z3

from .values import *  # noqa
from .values import NOT_IMPLEMENTED
from . import ops
from .ops import as_int, zi, is_intlike
from .explore import Unsupported, PathAbort, PathInfeasible

SeqSeqSort = z3.SeqSort(SeqSort)
PairSort, mk_pair, (pair_fst, pair_snd) = z3.TupleSort("IntPair", [IntSort, IntSort])
PairSeqSort = z3.SeqSort(PairSort)


def list_kind_of_sort(sort):
    if sort == SeqSeqSort:
        return "byteslist"
    if sort == PairSeqSort:
        return "pairlist"
    return "intlist"


def elem_to_term(interp, x, kind):
    """element of a list of the given kind -> z3 term of the element sort"""
    if kind == "intlist":
        if not is_intlike(x):
            raise Unsupported("list of ints expected")
        return zi(as_int(x))
    if kind == "byteslist":
        if not isinstance(x, BytesV):
            raise Unsupported("list of octet strings expected")
        return ops.rope_term(x.rope)
    if kind == "pairlist":
        if not (isinstance(x, tuple) and len(x) == 2 and all(is_intlike(c) for c in x)):
            raise Unsupported("list of pairs of ints expected")
        return mk_pair(zi(as_int(x[0])), zi(as_int(x[1])))
    raise Unsupported(f"list kind {kind}")


def term_to_elem(interp, t, kind):
    if kind == "intlist":
        return ops.mk(t)
    if kind == "byteslist":
        n = interp.ctx.fresh_int("elen", 0)
        interp.ctx.assume(z3.Length(t) == n)
        return BytesV([Blk(t, n, str(t)[:30], True)], "bytes")
    if kind == "pairlist":
        return (ops.mk(pair_fst(t)), ops.mk(pair_snd(t)))
    raise Unsupported(f"list kind {kind}")


def list_term(interp, l, kind):
    """whole list (open or not) as a z3 sequence term"""
    sort = {"intlist": SeqSort, "byteslist": SeqSeqSort, "pairlist": PairSeqSort}[kind]
    parts = [] if l.prefix is None else [l.prefix]
    parts += [z3.Unit(elem_to_term(interp, x, kind)) for x in l._items]
    if not parts:
        return z3.Empty(sort)
    return parts[0] if len(parts) == 1 else z3.Concat(*parts)


def open_list_len(interp, l):
    n = interp.ctx.fresh_int("llen", 0)
    interp.ctx.assume(z3.Length(l.prefix) == n)
    return ops.add(ops.mk(n, 0, None, 0), len(l._items))


def split_last(interp, l):
    """open list known to be non-empty -> (init list, last element)"""
    if l._items:
        return PyList(l._items[:-1], l.prefix), l._items[-1]
    kind = list_kind_of_sort(l.prefix.sort())
    ctx = interp.ctx
    pre = z3.Const(ctx.fresh_name("init"), l.prefix.sort())
    e = z3.Const(ctx.fresh_name("last"), l.prefix.sort().basis())
    ctx.assume(l.prefix == z3.Concat(pre, z3.Unit(e)))
    return PyList([], prefix=pre), term_to_elem(interp, e, kind)


# ------------------------------------------------------------------------------------------------
# locating loop contracts
# ------------------------------------------------------------------------------------------------
def _loops_in_order(fnode):
    out = []

    def visit(n):
        for child in ast.iter_child_nodes(n):
            if isinstance(child, (ast.FunctionDef, ast.AsyncFunctionDef, ast.Lambda, ast.ClassDef)):
                continue
            if isinstance(child, (ast.While, ast.For)):
                out.append(child)
            visit(child)
    visit(fnode)
    return out


def loop_spec(interp, node, fr):
    specs = getattr(interp, "loop_specs", None)
    if not specs or fr.func is None:
        return None
    q = fr.func.qualname
    cands = [k for k in specs if k[0] == q]
    if not cands:
        return None
    cache = getattr(interp, "_loop_ord", None)
    if cache is None:
        cache = interp._loop_ord = {}
    key = id(fr.func.node)
    if key not in cache:
        cache[key] = {id(n): i for i, n in enumerate(_loops_in_order(fr.func.node))}
    ordinal = cache[key].get(id(node))
    spec = specs.get((q, ordinal))
    if spec is None:
        return None
    # a contract that names locals the (refactored) function no longer has cannot be applied: fall back to plain execution of the
    # loop (unrolling), which decides the bounded harnesses and leaves the unbounded ones undecided - never a violation
    opts, f = spec
    hv = opts.get("havoc")
    names = [k for k, _ in (hv.pairs if isinstance(hv, PyDict) else list((hv or {}).items()))]
    names += [p.arg for p in f.node.args.args if p.arg not in ("entry", "loop_seen", "loop_item")]
    missing = [n for n in dict.fromkeys(names) if n not in fr.locals]
    if missing:
        re = _rebind(interp, fr, node, q, ordinal, spec, names, missing)
        if os.environ.get("PYVC_DEBUG"):
            print(f"[loops] {q}#{ordinal} missing={missing} rebind={'yes' if re else 'no'} locals={sorted(fr.locals)}", file=sys.stderr)
        if re is None:
            interp.ctx.notes.append(f"loop contract {q}#{ordinal} not applicable: the function has no local(s) {missing}; loop executed by unrolling")
        return re
    return spec


# ------------------------------------------------------------------------------------------------
# renamed locals: re-binding the names of a loop contract
# ------------------------------------------------------------------------------------------------
_SCALAR = ("int", "bool")


def _compatible(val, kind):
    if kind is None:
        return True
    if kind == "int":
        return is_intlike(val) and not isinstance(val, (bool, SBool))
    if kind == "bool":
        return isinstance(val, (bool, SBool))
    if kind == "bytes":
        return isinstance(val, BytesV)
    if kind == "bytearray":
        return isinstance(val, BytesV) and val.kind == "bytearray"
    if kind in ("byteslist", "pairlist", "list"):
        return isinstance(val, PyList)
    if kind == "chunks":
        return isinstance(val, PyDeque)
    return False


def _stored_names(node):
    out = set()
    for n in ast.walk(node):
        if isinstance(n, ast.Name) and isinstance(n.ctx, (ast.Store, ast.Del)):
            out.add(n.id)
    return out


class _Rename(ast.NodeTransformer):
    def __init__(self, m):
        self.m = m

    def visit_Name(self, n):
        if n.id in self.m:
            return ast.copy_location(ast.Name(self.m[n.id], n.ctx), n)
        return n

    def visit_arg(self, n):
        if n.arg in self.m:
            n.arg = self.m[n.arg]
        return n

    def visit_Attribute(self, n):
        self.generic_visit(n)
        if isinstance(n.value, ast.Name) and n.value.id == "entry" and n.attr in self.m:
            n.attr = self.m[n.attr]
        return n


def _rebind(interp, fr, node, q, ordinal, spec, names, missing):
    """The function was refactored and no longer has some locals the contract names.  A contract is a statement about
    the loop's state, not about identifiers: try to re-bind each missing name to the one local of the function that can
    play its role (same kind of value; a havoc'd scalar must be assigned in the loop body, a name the contract does not
    havoc must not be).  The re-bound contract is then checked like any other - a wrong binding fails its obligations, it
    cannot make a proof pass that should not.  Ambiguous or impossible: None (plain execution of the loop)."""
    import copy
    cache = getattr(interp, "_loop_rebind", None)
    if cache is None:
        cache = interp._loop_rebind = {}
    key = (q, ordinal, id(fr.func.node))
    if key in cache:
        return cache[key]
    opts, f = spec
    kinds = {}
    for (q2, _), (o2, _f2) in interp.loop_specs.items():       # kinds of the names, from every contract of this function
        if q2 != q:
            continue
        hv2 = o2.get("havoc")
        for k, td in (hv2.pairs if isinstance(hv2, PyDict) else list((hv2 or {}).items())):
            kinds.setdefault(k, getattr(td, "kind", None))
    hv = opts.get("havoc")
    pairs = hv.pairs if isinstance(hv, PyDict) else list((hv or {}).items())
    havocd = {k for k, _ in pairs}
    stored = _stored_names(node)
    taken = set(names) - set(missing)
    # names of the function's other loop contracts stay reserved for them
    mapping = {}
    result = None
    ok = True
    for n in missing:
        kind = kinds.get(n)
        cands = []
        for loc, val in fr.locals.items():
            if loc in taken or loc in mapping.values() or loc in ("entry", "loop_seen", "loop_item"):
                continue
            if kind is None or not _compatible(val, kind):
                continue
            if n in havocd and kind in _SCALAR and loc not in stored:
                continue
            if n not in havocd and loc in stored:
                continue
            cands.append(loc)
        if len(cands) != 1:
            ok = False
            break
        mapping[n] = cands[0]
    if ok:
        nf = FuncV(_Rename(mapping).visit(copy.deepcopy(f.node)), f.globs, f.qualname, f.defcls, f.closure, f.module)
        nf.defaults, nf.kw_defaults = f.defaults, f.kw_defaults
        nopts = dict(opts) if not isinstance(opts, PyDict) else opts
        if hv is not None:
            npairs = [(mapping.get(k, k), td) for k, td in pairs]
            nopts = dict(opts)
            nopts["havoc"] = PyDict(npairs) if isinstance(hv, PyDict) else dict(npairs)
        interp.ctx.notes.append(f"loop contract {q}#{ordinal}: contract names re-bound to renamed locals {mapping}")
        result = (nopts, nf)
    cache[key] = result
    return result


# ------------------------------------------------------------------------------------------------
# havoc
# ------------------------------------------------------------------------------------------------
def fresh_of(interp, name, td):
    """an arbitrary value of the described shape (not registered as a harness input)"""
    ctx = interp.ctx
    k = td.kind
    if k == "int":
        lo, hi = td.args
        v = ctx.fresh_int(name, lo, hi)
        return SInt(v, lo, hi, 0)
    if k == "bool":
        return SBool(ctx.fresh_bool(name))
    if k in ("bytes", "bytearray"):
        lo, hi = td.args
        n = ctx.fresh_int("len_" + name, lo if lo is not None else 0, hi)
        s = ctx.fresh_seq(name)
        ctx.assume(z3.Length(s) == n)
        return BytesV([Blk(s, n, str(s), True)], k)
    if k == "byteslist":
        return PyList([], prefix=z3.Const(ctx.fresh_name(name), SeqSeqSort))
    if k == "pairlist":
        return PyList([], prefix=z3.Const(ctx.fresh_name(name), PairSeqSort))
    if k == "list" and td.args[1] is None:
        return PyList([], prefix=ctx.fresh_seq(name))
    if k == "chunks":
        return PyDeque([], rest=ops.mk_open_rest(ctx, ctx.fresh_seq(name), ctx.fresh_int("n_" + name, 0)))
    raise Unsupported(f"havoc of a value described by {k}")


def havoc(interp, fr, name, td):
    cur = fr.locals.get(name)
    new = fresh_of(interp, name, td)
    if isinstance(cur, BytesV) and cur.kind == "bytearray" and isinstance(new, BytesV):
        cur.rope = list(new.rope)      # in place: aliases see the new content
    elif isinstance(cur, PyList) and isinstance(new, PyList):
        cur._items = list(new._items)
        cur.prefix = new.prefix
    elif isinstance(cur, PyDeque) and isinstance(new, PyDeque):
        cur._items = list(new._items)
        cur.rest = new.rest
    elif isinstance(cur, (Instance, PyDict)):
        raise Unsupported(f"havoc of object-valued variable {name}")
    else:
        fr.locals[name] = new


# ------------------------------------------------------------------------------------------------
# running the contract function in assert / assume mode
# ------------------------------------------------------------------------------------------------
class LoopMode:
    def __init__(self, mode, prefix):
        self.mode = mode        # "assert" | "assume"
        self.prefix = prefix
        self.variant = None


def run_spec(interp, spec, fr, mode, prefix, entry):
    opts, f = spec
    lm = LoopMode(mode, prefix)
    old = getattr(interp, "loop_mode", None)
    interp.loop_mode = lm
    try:
        kwargs = {}
        for p in f.node.args.args:
            if p.arg == "entry":
                kwargs["entry"] = entry
            elif p.arg in fr.locals:
                kwargs[p.arg] = fr.locals[p.arg]
            else:
                raise Unsupported(f"loop contract parameter {p.arg} is not a local of the function at the loop")
        interp.call(f, [], kwargs)
    finally:
        interp.loop_mode = old
    return lm.variant


def prim_invariant(interp, label, cond):
    lm = getattr(interp, "loop_mode", None)
    if lm is None:
        raise Unsupported("invariant() outside a loop contract")
    if lm.mode == "exit":
        return None
    v = interp.symtruth(cond)
    if lm.mode == "assume":
        if v is False:
            raise PathInfeasible()
        if v is not True:
            interp.ctx.assume(v.t, check=True)
        return None
    ok = interp.ctx.check(f"{lm.prefix}/{label}", True if v is True else (False if v is False else v.t), kind="loop")
    if not ok:
        if v is False:
            raise PathAbort()
        if v is not True:
            interp.ctx.assume(v.t, check=True)
    elif isinstance(v, SBool):
        interp.ctx.assume(v.t)
    return None


def loop_phase(interp):
    """'init' | 'assume' | 'preserved' | 'exit' inside a loop contract, else None"""
    lm = getattr(interp, "loop_mode", None)
    if lm is None:
        return None
    if lm.mode == "assert":
        return "init" if lm.prefix.endswith("/init") else "preserved"
    return lm.mode


def prim_decreases(interp, expr):
    lm = getattr(interp, "loop_mode", None)
    if lm is None:
        raise Unsupported("decreases() outside a loop contract")
    lm.variant = as_int(expr)
    return None


# ------------------------------------------------------------------------------------------------
# the loop rule
# ------------------------------------------------------------------------------------------------
def _frame_snapshot(interp, fr, havoc_names):
    from . import lib_models
    memo = {}
    snap = {}
    for k, v in fr.locals.items():
        if k in havoc_names:
            continue
        if isinstance(v, (FuncV, ClassV, ModuleV, Builtin, Dummy, BoundMethod)):
            continue
        snap[k] = (v, lib_models.copy_deepcopy(interp, v, memo))
    return snap


def _frame_check(interp, fr, snap, label):
    from .spec_prims import same_state
    conds = []
    for k, (obj, copy) in snap.items():
        cur = fr.locals.get(k, NOT_IMPLEMENTED)
        if cur is NOT_IMPLEMENTED:
            continue
        if isinstance(obj, (Instance, PyList, PyDict, PyDeque)) or (isinstance(obj, BytesV) and obj.kind == "bytearray"):
            if cur is not obj:
                conds.append(False)
                continue
        try:
            conds.append(interp.symtruth(same_state(interp, cur, copy)))
        except Unsupported:
            raise
    c = ops.b_and(*conds) if conds else True
    interp.ctx.check(label, True if c is True else (False if c is False else c.t), kind="loop",
                     detail="a variable outside the loop contract's havoc set is modified by the loop body")


def exec_while(interp, node, fr, spec):
    from .interp import BreakEx, ContinueEx
    from . import lib_models
    opts, f = spec
    ctx = interp.ctx
    hv = opts.get("havoc")
    if hv is None:
        hv = PyDict()
    pairs = hv.pairs if isinstance(hv, PyDict) else list(hv.items())
    names = [k for k, _ in pairs]
    q = fr.func.qualname.split(":")[-1]
    tag = f"loop {q}#{opts['ordinal']}"
    ctx.trusted.add("loop contracts: Floyd/Hoare loop rule with havoc set checked by a frame obligation; module globals are assumed not to be modified by loop bodies")
    entry = Instance(interp.object_cls, {k: lib_models.copy_deepcopy(interp, v) for k, v in fr.locals.items()
                                         if not isinstance(v, (FuncV, ClassV, ModuleV, Builtin, Dummy, BoundMethod))})
    # 1. the invariant holds on entry
    run_spec(interp, spec, fr, "assert", tag + "/init", entry)
    # 2. an arbitrary iteration
    for k, td in pairs:
        havoc(interp, fr, k, td)
    v0 = run_spec(interp, spec, fr, "assume", tag, entry)
    snap = _frame_snapshot(interp, fr, set(names))
    if not interp.truth(interp.eval(node.test, fr)):
        run_spec(interp, spec, fr, "exit", tag, entry)   # representation hints only (refine_as)
        interp.exec_block(node.orelse, fr)
        return
    try:
        interp.exec_block(node.body, fr)
    except BreakEx:
        return
    except ContinueEx:
        pass
    # 3. preserved, variant, frame
    v1 = run_spec(interp, spec, fr, "assert", tag + "/preserved", entry)
    if v0 is not None and v1 is not None:
        dec = ops.b_and(ops.cmp(">=", v0, 0), ops.cmp("<", v1, v0))
        ctx.check(tag + "/variant", True if dec is True else (False if dec is False else dec.t), kind="loop",
                  detail="loop variant not shown to decrease (termination)")
    elif opts.get("terminates", True):
        ctx.check(tag + "/variant", False, kind="loop", detail="loop contract gives no decreases() clause")
    _frame_check(interp, fr, snap, tag + "/frame")
    raise PathAbort()


def exec_for(interp, node, fr, spec, it):
    """`for x in L` over an open list L (unknown length) with a loop contract.  Ghost vocabulary for the contract
    function: parameter `loop_seen` = the elements already processed (an open list, L[:i]); `entry` as for while-loops.

        assert I(seen = [])
        havoc; pick any split L == seen ++ [x] ++ rest; assume I(seen); body with x
        assert I(seen ++ [x]), frame            (cut)
        havoc; assume I(seen = L); continue after the loop            (normal exit: the list is exhausted)
    `break` leaves the loop with the state at the break; termination is by the finiteness of the list."""
    from .interp import BreakEx, ContinueEx
    from . import lib_models
    if not (isinstance(it, PyList) and it.prefix is not None):
        raise Unsupported("loop contract on a for-loop that does not iterate over a list of unknown length")
    if node.orelse:
        raise Unsupported("for-else with a loop contract")
    opts, f = spec
    ctx = interp.ctx
    hv = opts.get("havoc")
    pairs = (hv.pairs if isinstance(hv, PyDict) else list(hv.items())) if hv is not None else []
    names = [k for k, _ in pairs]
    q = fr.func.qualname.split(":")[-1]
    tag = f"loop {q}#{opts['ordinal']}"
    ctx.trusted.add("loop contracts: Floyd/Hoare loop rule with havoc set checked by a frame obligation; module globals are assumed not to be modified by loop bodies")
    kind = list_kind_of_sort(it.prefix.sort())
    whole = list_term(interp, it, kind)
    entry = Instance(interp.object_cls, {k: lib_models.copy_deepcopy(interp, v) for k, v in fr.locals.items()
                                         if not isinstance(v, (FuncV, ClassV, ModuleV, Builtin, Dummy, BoundMethod))})

    def run(mode, prefix, seen, item=None):
        fr.locals["loop_seen"] = seen
        fr.locals["loop_item"] = item      # the element about to be processed (assume phase), else None
        try:
            return run_spec(interp, spec, fr, mode, prefix, entry)
        finally:
            fr.locals.pop("loop_seen", None)
            fr.locals.pop("loop_item", None)

    run("assert", tag + "/init", PyList([]))
    for k, td in pairs:
        havoc(interp, fr, k, td)
    # which continuation?  the list is exhausted, or there is a next element
    done = ctx.fresh_bool("for_done")
    if ctx.branch(done):
        run("assume", tag, PyList([], prefix=whole))
        return
    sort = it.prefix.sort()
    seen_t = z3.Const(ctx.fresh_name("seen"), sort)
    rest_t = z3.Const(ctx.fresh_name("rest"), sort)
    x_t = z3.Const(ctx.fresh_name("item"), sort.basis())
    ctx.assume(whole == z3.Concat(seen_t, z3.Unit(x_t), rest_t))
    seen = PyList([], prefix=seen_t)
    item = term_to_elem(interp, x_t, kind)
    run("assume", tag, seen, item)
    snap = _frame_snapshot(interp, fr, set(names) | {_target_name(node)})
    interp.assign(node.target, item, fr)
    try:
        interp.exec_block(node.body, fr)
    except BreakEx:
        return
    except ContinueEx:
        pass
    run("assert", tag + "/preserved", PyList([term_to_elem(interp, x_t, kind)], prefix=seen_t))
    _frame_check(interp, fr, snap, tag + "/frame")
    raise PathAbort()


def _target_name(node):
    return node.target.id if isinstance(node.target, ast.Name) else None


# ------------------------------------------------------------------------------------------------
# ghost functions
# ------------------------------------------------------------------------------------------------
def _sort_of(kind):
    return {"int": IntSort, "bool": z3.BoolSort(), "bytes": SeqSort, "intlist": SeqSort, "byteslist": SeqSeqSort,
            "pairlist": PairSeqSort}[kind]


def encode(interp, v, kind):
    if kind == "int":
        return zi(as_int(v))
    if kind == "bool":
        v = interp.symtruth(v)
        return z3.BoolVal(v) if isinstance(v, bool) else v.t
    if kind == "bytes":
        if not isinstance(v, BytesV):
            raise Unsupported("ghost function argument is not an octet string")
        return ops.rope_term(v.rope)
    if kind in ("intlist", "byteslist", "pairlist"):
        if isinstance(v, tuple):
            v = PyList(list(v))
        if not isinstance(v, PyList):
            raise Unsupported("ghost function value is not a list")
        return list_term(interp, v, kind)
    raise Unsupported(f"ghost sort {kind}")


def decode(interp, t, kind):
    if kind == "int":
        return ops.mk(t)
    if kind == "bool":
        return ops.mkbool(t)
    if kind == "bytes":
        n = interp.ctx.fresh_int("glen", 0)
        interp.ctx.assume(z3.Length(t) == n)
        return BytesV([Blk(t, n, str(t)[:40], True)], "bytes")
    if kind == "intlist":
        return PyList([], prefix=t)
    if kind in ("byteslist", "pairlist"):
        return PyList([], prefix=t)
    raise Unsupported(f"ghost sort {kind}")


class GhostFn:
    def __init__(self, f, arg_kinds, result_kind, measure):
        self.f = f
        self.arg_kinds = arg_kinds
        self.result_kind = result_kind
        self.measure = measure
        self.decl = z3.Function("ghost_" + f.name, *[_sort_of(k) for k in arg_kinds], _sort_of(result_kind))


def ghost_apply(interp, g, args, kwargs):
    if kwargs:
        raise Unsupported("keyword arguments to a ghost function")
    if len(args) != len(g.arg_kinds):
        interp.throw("TypeError", f"ghost function {g.f.name} takes {len(g.arg_kinds)} arguments")
    interp.ctx.trusted.add(f"ghost function {g.f.name}: uninterpreted, defined by well-founded recursion (obligation ghost-wf), unfolded on demand")
    ts = [encode(interp, a, k) for a, k in zip(args, g.arg_kinds)]
    unf = getattr(interp, "_unfolding", None)
    if unf is not None and unf[0] is g:
        # recursive call inside an unfolding: the measure must go down
        m_new = as_int(interp.call(g.measure, list(args), {}))
        dec = ops.b_and(ops.cmp(">=", m_new, 0), ops.cmp("<", m_new, unf[1]))
        interp.ctx.check(f"ghost-wf/{g.f.name}", True if dec is True else (False if dec is False else dec.t), kind="auto",
                         detail="recursive call of a ghost function without a decreasing measure")
    return decode(interp, g.decl(*ts), g.result_kind)


def unfold(interp, g, args):
    """assume g(args) == body(args), executing the body once"""
    lm = getattr(interp, "loop_mode", None)
    if lm is not None and lm.mode == "exit":
        return None
    ts = [encode(interp, a, k) for a, k in zip(args, g.arg_kinds)]
    m0 = as_int(interp.call(g.measure, list(args), {}))
    old = getattr(interp, "_unfolding", None)
    interp._unfolding = (g, m0)
    try:
        r = interp.call_function(g.f, list(args), {})
    finally:
        interp._unfolding = old
    interp.ctx.assume(g.decl(*ts) == encode(interp, r, g.result_kind))
    return None
