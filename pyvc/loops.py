"""Loops with invariants (side-car loop contracts).  Filled in for C13 / list encodings."""
from __future__ import annotations
from .explore import Unsupported


def loop_spec(interp, node, fr):
    return None


def exec_while(interp, node, fr, spec):
    raise Unsupported("loop invariants")


def exec_for(interp, node, fr, spec, it):
    raise Unsupported("loop invariants")
