"""Value representations of the symbolic interpreter.

Concrete Python values (int, bool, str, None, tuple, float) are kept as they are.  Everything
else is one of the classes below.  Object identity of Instance / BytesV(bytearray) / PyList /
PyDict / PyDeque is Python object identity, so aliasing is exact.
"""
from __future__ import annotations
import z3

IntSort = z3.IntSort()
SeqSort = z3.SeqSort(IntSort)
EMPTY_SEQ = z3.Empty(SeqSort)


class SInt:
    """Symbolic mathematical integer.  lo/hi: syntactically known bounds (or None); tz: number of
    low bits known to be zero."""
    __slots__ = ("t", "lo", "hi", "tz", "parts")

    def __init__(self, t, lo=None, hi=None, tz=0):
        self.t = t
        self.lo = lo
        self.hi = hi
        self.tz = tz
        self.parts = None   # optional bit-field decomposition: ((shift, width, piece), ...), value == sum(piece << shift),
        #                     0 <= piece < 2**width, bit ranges disjoint (set for words assembled from octets, see ops.from_parts)

    def __repr__(self):
        return f"SInt({self.t})"


class SBool:
    __slots__ = ("t",)

    def __init__(self, t):
        self.t = t

    def __repr__(self):
        return f"SBool({self.t})"


class SReal:
    """Symbolic real (model of a binary64 value, see trusted base: floats)."""
    __slots__ = ("t",)

    def __init__(self, t):
        self.t = t

    def __repr__(self):
        return f"SReal({self.t})"


class EnumV:
    """Member of an enum class; v is int / SInt (IntEnum) or any concrete value (Enum)."""
    __slots__ = ("cls", "v", "name")

    def __init__(self, cls, v, name=None):
        self.cls = cls
        self.v = v
        self.name = name

    def __repr__(self):
        return f"<{self.cls.name}.{self.name}: {self.v}>"


class Blk:
    """Symbolic block of octets (z3 Seq(Int)) of length n (int or z3 term).  A block may be refined
    in place into `parts` (a rope); the defining equation is asserted when that happens."""
    __slots__ = ("seq", "n", "parts", "name", "octets")

    def __init__(self, seq, n, name, octets=True):
        self.seq = seq
        self.n = n
        self.parts = None
        self.name = name
        self.octets = octets

    def __repr__(self):
        return f"Blk({self.name},{self.n})"


class BytesV:
    """bytes or bytearray.  rope: list whose entries are elements (int or z3 Int term) or Blk."""
    __slots__ = ("rope", "kind")

    def __init__(self, rope, kind="bytes"):
        self.rope = rope
        self.kind = kind

    def __repr__(self):
        return f"{self.kind}{self.rope!r}"


class StrV:
    """Abstract string, represented by its UTF-8 encoding (injective) and a symbolic character
    count."""
    __slots__ = ("utf8", "chars")

    def __init__(self, utf8, chars):
        self.utf8 = utf8  # BytesV
        self.chars = chars  # int | SInt

    def __repr__(self):
        return f"StrV({self.utf8})"


class FStrV:
    """Result of an f-string with a symbolic hole: opaque text, parts kept for structural
    comparison: list of str | (value, conversion, format_spec)."""
    __slots__ = ("parts",)

    def __init__(self, parts):
        self.parts = parts


class PyList:
    """list.  `prefix` (None or a z3 Seq(Int) term) stands for an unknown number of leading int
    elements ("open" list: an arbitrary initial list followed by the concrete `_items`).  Every
    consumer that reads `.items` of an open list gets Unsupported, so only the operations that
    handle the prefix explicitly (append, extend, +, ==, copy, same_state) work on open lists."""
    __slots__ = ("_items", "prefix")

    def __init__(self, items=None, prefix=None):
        self._items = list(items) if items is not None else []
        self.prefix = prefix

    @property
    def items(self):
        if self.prefix is not None:
            from .explore import Unsupported
            raise Unsupported("operation on a list of unknown length (open list)")
        return self._items

    @items.setter
    def items(self, v):
        if self.prefix is not None:
            from .explore import Unsupported
            raise Unsupported("operation on a list of unknown length (open list)")
        self._items = v

    def __repr__(self):
        return f"PyList({'<open>+' if self.prefix is not None else ''}{self._items!r})"


class PyDict:
    """dict with insertion order; keys compared through the interpreter's equality."""
    __slots__ = ("pairs",)

    def __init__(self, pairs=None):
        self.pairs = list(pairs) if pairs is not None else []


class OpenRest:
    """unknown front part of an open deque: `cnt` chunks whose concatenation is `seq`; `blk` is the
    rope block standing for that concatenation (one object, so ropes built from it align)."""
    __slots__ = ("seq", "cnt", "blk")

    def __init__(self, seq, cnt, n):
        self.seq = seq
        self.cnt = cnt
        self.blk = Blk(seq, n, str(seq)[:30], True)

    def __iter__(self):
        return iter((self.seq, self.cnt))

    def __getitem__(self, i):
        return (self.seq, self.cnt)[i]


class PyDeque:
    """deque.  `rest` (None or (seq, count)): an unknown number `count` >= 0 (z3 Int) of byte-string
    chunks at the FRONT of the deque whose concatenation is the z3 Seq(Int) term `seq` ("open"
    deque); `_items` follow them.  Consumers that read `.items` of an open deque get Unsupported."""
    __slots__ = ("_items", "rest")

    def __init__(self, items=None, rest=None):
        self._items = list(items) if items is not None else []
        self.rest = rest

    @property
    def items(self):
        if self.rest is not None:
            from .explore import Unsupported
            raise Unsupported("operation on a deque of unknown length (open deque)")
        return self._items

    @items.setter
    def items(self, v):
        if self.rest is not None:
            from .explore import Unsupported
            raise Unsupported("operation on a deque of unknown length (open deque)")
        self._items = v


class PySet:
    __slots__ = ("items",)

    def __init__(self, items=None):
        self.items = list(items) if items is not None else []


class Instance:
    __slots__ = ("cls", "fields", "tag")

    def __init__(self, cls, fields=None):
        self.cls = cls
        self.fields = fields if fields is not None else {}
        self.tag = None

    def __repr__(self):
        return f"<{self.cls.name} instance>"


class ClassV:
    def __init__(self, name, bases, ns, module, qualname=None):
        self.name = name
        self.bases = bases
        self.ns = ns
        self.module = module
        self.qualname = qualname or name
        self.mro = None
        self.is_enum = False
        self.is_intenum = False
        self.members = None  # name -> EnumV (enum classes)
        self.dataclass_fields = None
        self.builtin = None  # name of builtin type modelled (exceptions, object)
        self.abstract = False

    def __repr__(self):
        return f"<class {self.qualname}>"


class FuncV:
    def __init__(self, node, globs, qualname, defcls=None, closure=None, module=None):
        self.node = node
        self.globs = globs
        self.qualname = qualname
        self.defcls = defcls
        self.closure = closure
        self.module = module
        self.defaults = None  # list aligned with positional params
        self.kw_defaults = None
        self.name = getattr(node, "name", "<lambda>")

    def __repr__(self):
        return f"<function {self.qualname}>"


class BoundMethod:
    __slots__ = ("self", "func")

    def __init__(self, self_, func):
        self.self = self_
        self.func = func


class PropertyV:
    def __init__(self, fget=None, fset=None):
        self.fget = fget
        self.fset = fset
        self.abstract = False


class ClassMethodV:
    def __init__(self, func):
        self.func = func


class StaticMethodV:
    def __init__(self, func):
        self.func = func


class Builtin:
    """Python-implemented callable: fn(interp, args, kwargs)."""

    def __init__(self, name, fn, type_name=None):
        self.name = name
        self.fn = fn
        self.type_name = type_name  # set when the builtin doubles as a type (int, bytes, ...)

    def __repr__(self):
        return f"<builtin {self.name}>"


class ModuleV:
    def __init__(self, name, ns=None, path=None):
        self.name = name
        self.ns = ns if ns is not None else {}
        self.path = path
        self.stub = False

    def __repr__(self):
        return f"<module {self.name}>"


class UnmodelledV:
    """A library object the engine has no model of (an attribute of an unmodelled standard-library module, or what calling it
    returned).  It may be bound to names and passed around - e.g. created at import time - but any use of it (attribute,
    subscript, truth value, comparison, iteration, membership) makes the obligation undecided."""
    def __init__(self, name):
        self.name = name

    def __repr__(self):
        return f"<unmodelled {self.name}>"


class Dummy:
    """Inert placeholder (typing constructs, logging, ...): attribute access, subscription and
    calls all return a Dummy."""

    def __init__(self, name="dummy"):
        self.name = name

    def __repr__(self):
        return f"<dummy {self.name}>"


class Outcome:
    """Result of the spec primitive outcome(f): how a call ended."""
    __slots__ = ("value", "exc")

    def __init__(self, value=None, exc=None):
        self.value = value
        self.exc = exc


class SuperV:
    __slots__ = ("cls", "obj")

    def __init__(self, cls, obj):
        self.cls = cls
        self.obj = obj


class SliceV:
    __slots__ = ("lo", "hi", "step")

    def __init__(self, lo, hi, step):
        self.lo = lo
        self.hi = hi
        self.step = step


class NotImplementedV:
    def __repr__(self):
        return "NotImplemented"


NOT_IMPLEMENTED = NotImplementedV()
