"""Floats (reals with IEEE-754 error bounds), math, time, datetime models.  Filled in for C14."""
from __future__ import annotations
from .values import *  # noqa
from .values import NOT_IMPLEMENTED
from .explore import Unsupported


def _conc(v):
    """concrete Python number of a concrete value (bool/int/float), else None"""
    if isinstance(v, bool):
        return int(v)
    if isinstance(v, (int, float)):
        return v
    if isinstance(v, EnumV) and v.cls.is_intenum and isinstance(v.v, int):
        return v.v
    return None


def real_binop(interp, t, a, b):
    import ast
    x, y = _conc(a), _conc(b)
    if x is not None and y is not None:
        # concrete operands: CPython's own float arithmetic is the semantics
        try:
            if t is ast.Div:
                return x / y
            if t is ast.Add:
                return x + y
            if t is ast.Sub:
                return x - y
            if t is ast.Mult:
                return x * y
            if t is ast.FloorDiv:
                return x // y
            if t is ast.Mod:
                return x % y
            if t is ast.Pow:
                return x ** y
        except ZeroDivisionError:
            interp.throw("ZeroDivisionError", "division by zero")
    raise Unsupported("float arithmetic")


def real_cmp(interp, sym, a, b):
    raise Unsupported("float comparison")


def real_neg(interp, v):
    raise Unsupported("float arithmetic")


def real_abs(interp, v):
    raise Unsupported("float arithmetic")


def trunc(interp, v):
    if isinstance(v, float):
        return int(v)
    raise Unsupported("float to int")


def to_float(interp, v):
    c = _conc(v)
    if c is not None:
        return float(c)
    raise Unsupported("float()")


def round_(interp, v, nd):
    c = _conc(v)
    if c is not None and (nd is None or isinstance(nd, int)):
        return round(c) if nd is None else round(c, nd)
    raise Unsupported("round()")


def float_attr(interp, obj, name):
    return NOT_IMPLEMENTED


def datetime_binop(interp, t, a, b):
    return NOT_IMPLEMENTED


def datetime_cmp(interp, sym, a, b):
    return NOT_IMPLEMENTED


def stub_module(interp, name):
    m = ModuleV(name, {})
    m.stub = True
    return m
