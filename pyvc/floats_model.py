"""Floats (reals with IEEE-754 error bounds), math, time, datetime models.  Filled in for C14."""
from __future__ import annotations
from .values import *  # noqa
from .values import NOT_IMPLEMENTED
from .explore import Unsupported


def _conc(*vs):
    """all operands are concrete Python numbers (int / float, no bool-as-symbolic): CPython itself is the exact model"""
    return all(isinstance(v, (int, float)) for v in vs)


def concrete_binop(interp, t, a, b):
    """exact arithmetic on CONCRETE int/float operands, evaluated by CPython (so: binary64, true division of ints
    correctly rounded, ...).  Raises the Python exception the operation raises."""
    import ast as _ast
    import operator as _op
    f = {_ast.Add: _op.add, _ast.Sub: _op.sub, _ast.Mult: _op.mul, _ast.Div: _op.truediv, _ast.FloorDiv: _op.floordiv,
         _ast.Mod: _op.mod, _ast.Pow: _op.pow}.get(t)
    if f is None:
        if isinstance(a, float) or isinstance(b, float):
            interp.throw("TypeError", "unsupported operand type(s) for float")
        raise Unsupported("float arithmetic")
    try:
        r = f(a, b)
    except ZeroDivisionError:
        interp.throw("ZeroDivisionError", "division by zero")
    except OverflowError:
        interp.throw("OverflowError", "result too large")
    if isinstance(r, complex):
        raise Unsupported("complex arithmetic")
    return r


def real_binop(interp, t, a, b):
    if _conc(a, b):
        return concrete_binop(interp, t, a, b)
    raise Unsupported("float arithmetic")


def real_cmp(interp, sym, a, b):
    if _conc(a, b):
        return {"<": a < b, "<=": a <= b, ">": a > b, ">=": a >= b, "==": a == b, "!=": a != b}[sym]
    raise Unsupported("float comparison")


def real_neg(interp, v):
    if _conc(v):
        return -v
    raise Unsupported("float arithmetic")


def real_abs(interp, v):
    if _conc(v):
        return abs(v)
    raise Unsupported("float arithmetic")


def trunc(interp, v):
    if isinstance(v, float):
        if v != v:
            interp.throw("ValueError", "cannot convert float NaN to integer")
        if v in (float("inf"), float("-inf")):
            interp.throw("OverflowError", "cannot convert float infinity to integer")
        return int(v)
    raise Unsupported("float to int")


def to_float(interp, v):
    if isinstance(v, bool) or _conc(v):
        try:
            return float(v)
        except OverflowError:
            interp.throw("OverflowError", "int too large to convert to float")
    raise Unsupported("float()")


def round_(interp, v, nd):
    if _conc(v) and (nd is None or isinstance(nd, int)):
        try:
            return round(v) if nd is None else round(v, nd)
        except (OverflowError, ValueError) as e:
            interp.throw(type(e).__name__, str(e))
    raise Unsupported("round()")


def float_attr(interp, obj, name):
    return NOT_IMPLEMENTED


def datetime_binop(interp, t, a, b):
    # unmodelled datetime / timedelta placeholders stay inert placeholders under + and -
    if isinstance(a, Dummy) and isinstance(b, Dummy) and a.name.startswith("datetime.") and b.name.startswith("datetime.") \
            and t.__name__ in ("Add", "Sub"):
        return Dummy(f"datetime.({a.name} {t.__name__} {b.name})")
    return NOT_IMPLEMENTED


def datetime_cmp(interp, sym, a, b):
    return NOT_IMPLEMENTED


def stub_module(interp, name):
    m = ModuleV(name, {})
    m.stub = True
    return m
