"""Floats (reals with IEEE-754 error bounds), math, time, datetime models.  Filled in for C14."""
from __future__ import annotations
from .values import *  # noqa
from .values import NOT_IMPLEMENTED
from .explore import Unsupported


def real_binop(interp, t, a, b):
    raise Unsupported("float arithmetic")


def real_cmp(interp, sym, a, b):
    raise Unsupported("float comparison")


def real_neg(interp, v):
    raise Unsupported("float arithmetic")


def real_abs(interp, v):
    raise Unsupported("float arithmetic")


def trunc(interp, v):
    raise Unsupported("float to int")


def to_float(interp, v):
    raise Unsupported("float()")


def round_(interp, v, nd):
    raise Unsupported("round()")


def float_attr(interp, obj, name):
    return NOT_IMPLEMENTED


def datetime_binop(interp, t, a, b):
    return NOT_IMPLEMENTED


def datetime_cmp(interp, sym, a, b):
    return NOT_IMPLEMENTED


def stub_module(interp, name):
    m = ModuleV(name, {})
    m.stub = True
    return m
