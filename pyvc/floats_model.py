"""Floats (reals with IEEE-754 error bounds), math, time, datetime models.  Filled in for C14.

Trusted model (recorded in ctx.trusted when used):

* float: a binary64 value is modelled by the real number it denotes (SReal).  Concrete operands are
  computed by CPython itself (exact IEEE semantics).  A symbolic arithmetic result with exact value e
  is a fresh real r constrained by facts that hold for round-to-nearest in binary64:
      |r - e| <= 2^-53 |e| + 2^-1075                       (relative bound; the absolute term covers underflow)
      |e| <= 2^k  ==>  |r - e| <= 2^(k-54)                 (half an ulp of the binade below 2^k; instantiated for the
                                                            binades just below a syntactically known bound of |e|,
                                                            or for k = -8..62 if no bound is known)
      e >= 0 ==> r >= 0,  e <= 0 ==> r <= 0
  and rounding is a function (equal exact values give equal results).
  Overflow is excluded by a checked side condition (|e| < 2^1000 must be provable, else the obligation is
  undecided).  NaN, infinities and the sign of zero are not modelled.  int -> float conversion is exact
  for |v| <= 2^53 (checked), rounded otherwise; int / int is the correctly rounded exact quotient;
  comparisons, unary minus, abs, math.floor / math.ceil / int() are exact on the real value; round(x)
  is round-half-even.  This over-approximates binary64: a proof in the model is a proof for the real
  floats (under the no-overflow side condition); a counter-model may be spurious and is decided by
  native replay.
* datetime: datetime.datetime / datetime.timedelta values are exact integers of microseconds
  (datetime: since 1970-01-01T00:00 of its own clock, with tzinfo None or datetime.timezone.utc;
  other time zones are unsupported).  Arithmetic and comparisons are integer arithmetic with the
  documented range checks (OverflowError).  Conversions from a float number of seconds
  (timedelta(seconds=x), fromtimestamp(x, tz=utc)) follow CPython: the integral part is taken exactly,
  the fractional part is multiplied by 10^6 in binary64 and rounded to the nearest integer (ties:
  either neighbour is admitted by the model).  timestamp() / total_seconds() are the correctly rounded
  quotient microseconds / 10^6.
"""
from __future__ import annotations
import ast
import datetime as _dt
import math as _math
from fractions import Fraction
import z3
from .values import *  # noqa
from .values import NOT_IMPLEMENTED
from . import ops
from .ops import as_int, is_intlike, zi
from .explore import Unsupported, PathInfeasible

T_FLOAT = ("floats: binary64 modelled as reals; every symbolic arithmetic result r of exact value e satisfies |r-e| <= 2^-53|e| + 2^-1075, "
           "|r-e| <= 2^(k-54) if |e| <= 2^k, sign preserved, rounding is a function; overflow excluded by a "
           "checked side condition; NaN/inf/-0.0 not modelled; int->float exact up to 2^53 (checked); comparisons, floor, ceil, int() exact on the real value")
T_DT = ("datetime: datetime/timedelta are exact integer microseconds (tzinfo None or timezone.utc only); float seconds -> microseconds as in "
        "CPython (integral part exact, fractional part * 10^6 in binary64, rounded to nearest, ties unspecified); timestamp()/total_seconds() "
        "= correctly rounded microseconds / 10^6; range checks raise OverflowError")

RN64 = z3.Function("rn64", z3.RealSort(), z3.RealSort())      # round to nearest binary64
RINT = z3.Function("rint", z3.RealSort(), z3.IntSort())        # round to a nearest integer
U53 = z3.Q(1, 2 ** 53)
TINY = z3.Q(1, 2 ** 1075)
LADDER = list(range(-8, 63))  # used only when no bound on the operand is known syntactically


def _b(name):
    def deco(fn):
        return Builtin(name, lambda interp, args, kwargs: fn(interp, *args, **kwargs))
    return deco


# ------------------------------------------------------------------------------------------------
# reals
# ------------------------------------------------------------------------------------------------

def rv(x):
    """exact z3 numeral of a concrete int / float"""
    if isinstance(x, bool):
        x = int(x)
    if isinstance(x, int):
        return z3.RealVal(x)
    if _math.isnan(x) or _math.isinf(x):
        raise Unsupported("NaN / infinity")
    f = Fraction(x)
    return z3.Q(f.numerator, f.denominator)


def is_num(v):
    return isinstance(v, (float, SReal)) or is_intlike(v)


def is_concrete_num(v):
    return isinstance(v, (int, float)) and not isinstance(v, (SInt, SReal))


def numeral_value(t):
    """Fraction of a z3 rational numeral term, else None"""
    t = z3.simplify(t)
    if z3.is_rational_value(t):
        return Fraction(t.numerator_as_long(), t.denominator_as_long())
    if z3.is_int_value(t):
        return Fraction(t.as_long())
    return None


def _abs(e):
    return z3.If(e >= 0, e, -e)


def _pow2_q(k):
    return z3.Q(2 ** k, 1) if k >= 0 else z3.Q(1, 2 ** -k)


def _bits_for(bound):
    """smallest k with bound <= 2^k (bound: Fraction >= 0)"""
    k = 0
    while Fraction(2) ** k < bound:
        k += 1
    while k > -1080 and Fraction(2) ** (k - 1) >= bound:
        k -= 1
    return k


def get_bound(interp, t):
    """known bound B (Fraction) with |t| <= B for a real term, or None"""
    q = numeral_value(t)
    if q is not None:
        return abs(q)
    return interp.ctx.ghost.get(("rbound", t.get_id()))


def set_bound(interp, t, b):
    if b is not None:
        interp.ctx.ghost[("rbound", t.get_id())] = b
        interp.ctx.ghost[("rbound-keep", t.get_id())] = t


def rnd(interp, e, bound=None):
    """the binary64 value nearest to the exact real e, as a z3 real term; bound: known B >= |e| (Fraction) or None"""
    ctx = interp.ctx
    e = z3.simplify(e)
    q = numeral_value(e)
    if q is not None:
        try:
            return rv(q.numerator / q.denominator)  # int / int: correctly rounded
        except OverflowError:
            raise Unsupported("float overflow")
    ctx.trusted.add(T_FLOAT)
    ae = _abs(e)
    if bound is None:
        bound = get_bound(interp, e)
    if bound is None or bound >= 2 ** 1000:
        if not ctx.valid(ae < z3.RealVal(2 ** 1000)):
            raise Unsupported("float overflow not excluded")
    # rounding is a function: equal exact values give equal results
    key = ("rn64", e.get_id())
    if key in ctx.ghost:
        return ctx.ghost[key][0]
    r = RN64(e)
    ctx.ghost[key] = (r, e)
    d = r - e
    cons = [d <= U53 * ae + TINY, -d <= U53 * ae + TINY, z3.Implies(e >= 0, r >= 0), z3.Implies(e <= 0, r <= 0)]
    if bound is not None and bound < 2 ** 1000:
        k0 = max(_bits_for(bound), -1021)
        # |e| <= 2^k0 always: half an ulp of the binade below 2^k0, unconditionally; a few finer binades conditionally
        cons.append(z3.And(d <= _pow2_q(k0 - 54), -d <= _pow2_q(k0 - 54), r <= _pow2_q(k0), -r <= _pow2_q(k0)))
        for k in range(k0 - 1, max(k0 - 25, -1021), -1):
            cons.append(z3.Implies(ae <= _pow2_q(k), z3.And(d <= _pow2_q(k - 54), -d <= _pow2_q(k - 54))))
        set_bound(interp, r, Fraction(2) ** k0)
    else:
        for k in LADDER:
            cons.append(z3.Implies(ae <= _pow2_q(k), z3.And(d <= _pow2_q(k - 54), -d <= _pow2_q(k - 54))))
    ctx.assume(z3.And(*cons))
    return r


def value_bound(interp, v):
    """B >= |v| for a numeric value, from syntactic information (Fraction) or None"""
    if isinstance(v, SReal):
        return get_bound(interp, v.t)
    if isinstance(v, float):
        return abs(Fraction(v))
    v = as_int(v)
    if isinstance(v, int):
        return Fraction(abs(v))
    if v.lo is not None and v.hi is not None:
        return Fraction(max(abs(v.lo), abs(v.hi)))
    return None


def int_operand(interp, v):
    """real term of an int converted to float (exact up to 2^53, rounded beyond)"""
    v = as_int(v)
    if isinstance(v, int):
        try:
            return rv(float(v))
        except OverflowError:
            interp.throw("OverflowError", "int too large to convert to float")
    t = z3.ToReal(v.t)
    lim = 2 ** 53
    if v.lo is not None and v.hi is not None and -lim <= v.lo and v.hi <= lim:
        set_bound(interp, t, value_bound(interp, v))
        return t
    if interp.ctx.valid(z3.And(v.t >= -lim, v.t <= lim)):
        set_bound(interp, t, Fraction(lim))
        return t
    return rnd(interp, t, value_bound(interp, v))


def operand(interp, v):
    if isinstance(v, SReal):
        return v.t
    if isinstance(v, float):
        return rv(v)
    if is_intlike(v):
        return int_operand(interp, v)
    raise Unsupported(f"float operand {type(v).__name__}")


def exact_term(interp, v):
    """real term of the exact mathematical value (no conversion rounding): for comparisons"""
    if isinstance(v, SReal):
        return v.t
    if isinstance(v, float):
        return rv(v)
    v = as_int(v)
    if isinstance(v, int):
        return z3.RealVal(v)
    return z3.ToReal(v.t)


def mk_real(t):
    t = z3.simplify(t)
    q = numeral_value(t)
    if q is not None:
        f = q.numerator / q.denominator
        if Fraction(f) == q:
            return f
    return SReal(t)


_PYOPS = {ast.Add: lambda a, b: a + b, ast.Sub: lambda a, b: a - b, ast.Mult: lambda a, b: a * b, ast.Div: lambda a, b: a / b,
          ast.FloorDiv: lambda a, b: a // b, ast.Mod: lambda a, b: a % b, ast.Pow: lambda a, b: a ** b}


def _is_pow2(q):
    if q is None or q == 0:
        return False
    q = abs(q)
    n, d = q.numerator, q.denominator
    return (n & (n - 1)) == 0 and (d & (d - 1)) == 0


def real_binop(interp, t, a, b):
    if not (is_num(a) and is_num(b)):
        interp.throw("TypeError", "unsupported operand type(s) for a float operation")
    if isinstance(a, (bool, SBool)):
        a = as_int(a)
    if isinstance(b, (bool, SBool)):
        b = as_int(b)
    if isinstance(a, EnumV):
        a = as_int(a)
    if isinstance(b, EnumV):
        b = as_int(b)
    if is_concrete_num(a) and is_concrete_num(b):
        f = _PYOPS.get(t)
        if f is None:
            raise Unsupported(f"float operator {t.__name__}")
        try:
            r = f(a, b)
        except ZeroDivisionError:
            interp.throw("ZeroDivisionError", "division by zero")
        except OverflowError:
            interp.throw("OverflowError", "numerical result out of range")
        if isinstance(r, complex):
            raise Unsupported("complex result")
        return r
    ctx = interp.ctx
    if t is ast.Div and is_intlike(a) and is_intlike(b):
        x, y = exact_term(interp, a), exact_term(interp, b)  # int / int: correctly rounded exact quotient
    else:
        x, y = operand(interp, a), operand(interp, b)
    qx, qy = numeral_value(x), numeral_value(y)
    bx = value_bound(interp, a) if not isinstance(a, SReal) else get_bound(interp, x)
    by = value_bound(interp, b) if not isinstance(b, SReal) else get_bound(interp, y)
    bound = None
    exact = False
    if t is ast.Add:
        e = x + y
        if bx is not None and by is not None:
            bound = bx + by
    elif t is ast.Sub:
        e = x - y
        if bx is not None and by is not None:
            bound = bx + by
    elif t is ast.Mult:
        e = x * y
        exact = _is_pow2(qx) or _is_pow2(qy)
        if bx is not None and by is not None:
            bound = bx * by
    elif t is ast.Div:
        if qy is not None:
            if qy == 0:
                interp.throw("ZeroDivisionError", "division by zero")
        elif ctx.branch(y == 0):
            interp.throw("ZeroDivisionError", "division by zero")
        e = x / y
        exact = _is_pow2(qy)
        if bx is not None and qy is not None:
            bound = bx / abs(qy)
    else:
        raise Unsupported(f"float operator {t.__name__} on symbolic operands")
    if exact:
        # scaling by a power of two is exact unless the result is subnormal
        es = z3.simplify(e)
        if ctx.valid(z3.And(z3.Or(es == 0, _abs(es) >= z3.Q(1, 2 ** 1000)), _abs(es) < z3.RealVal(2 ** 1000))):
            ctx.trusted.add(T_FLOAT)
            set_bound(interp, es, bound)
            return mk_real(es)
    return mk_real(rnd(interp, e, bound))


def real_cmp(interp, sym, a, b):
    if not (is_num(a) and is_num(b)):
        if sym == "==":
            return False
        if sym == "!=":
            return True
        interp.throw("TypeError", f"'{sym}' not supported between these operands")
    if isinstance(a, (int, float)) and isinstance(b, (int, float)):
        return {"<": a < b, "<=": a <= b, ">": a > b, ">=": a >= b, "==": a == b, "!=": a != b}[sym]
    x, y = exact_term(interp, a), exact_term(interp, b)
    t = {"<": x < y, "<=": x <= y, ">": x > y, ">=": x >= y, "==": x == y, "!=": x != y}[sym]
    return ops.mkbool(t)


def real_neg(interp, v):
    if isinstance(v, float):
        return -v
    return mk_real(-v.t)


def real_abs(interp, v):
    if isinstance(v, float):
        return abs(v)
    return mk_real(_abs(v.t))


def _mk_int(t, bound=None):
    if bound is not None:
        b = int(bound) + 1
        return ops.mk(t, -b, b, 0)
    return ops.mk(t, None, None, 0)


def floor(interp, v):
    if isinstance(v, float):
        return _math.floor(v)
    if is_intlike(v):
        return as_int(v)
    if isinstance(v, SReal):
        interp.ctx.trusted.add(T_FLOAT)
        return _mk_int(z3.ToInt(v.t), get_bound(interp, v.t))
    interp.throw("TypeError", "must be real number")


def ceil(interp, v):
    if isinstance(v, float):
        return _math.ceil(v)
    if is_intlike(v):
        return as_int(v)
    if isinstance(v, SReal):
        interp.ctx.trusted.add(T_FLOAT)
        return _mk_int(-z3.ToInt(-v.t), get_bound(interp, v.t))
    interp.throw("TypeError", "must be real number")


def trunc(interp, v):
    if isinstance(v, float):
        return int(v)
    if isinstance(v, SReal):
        interp.ctx.trusted.add(T_FLOAT)
        return _mk_int(z3.If(v.t >= 0, z3.ToInt(v.t), -z3.ToInt(-v.t)), get_bound(interp, v.t))
    return as_int(v)


def to_float(interp, v):
    if isinstance(v, (float, SReal)):
        return v
    if isinstance(v, str):
        try:
            return float(v)
        except ValueError:
            interp.throw("ValueError", "could not convert string to float")
    if is_intlike(v):
        return mk_real(int_operand(interp, v))
    if isinstance(v, Instance):
        f, _ = interp.class_lookup(v.cls, "__float__")
        if f is not None:
            return interp.call(interp.bind(v, f), [], {})
    interp.throw("TypeError", "float() argument must be a string or a real number")


def round_(interp, v, nd):
    if nd is not None:
        if isinstance(v, (int, float)) and isinstance(nd, int):
            return round(v, nd)
        raise Unsupported("round() with digits on a symbolic value")
    if isinstance(v, (int, float)) and not isinstance(v, bool):
        return round(v)
    if is_intlike(v):
        return as_int(v)
    if isinstance(v, SReal):
        interp.ctx.trusted.add(T_FLOAT)
        f = z3.ToInt(v.t + z3.Q(1, 2))
        tie = z3.ToReal(f) == v.t + z3.Q(1, 2)
        return _mk_int(z3.If(z3.And(tie, f % 2 != 0), f - 1, f))
    if isinstance(v, Instance):
        return interp.call(interp.getattr(v, "__round__"), [], {})
    interp.throw("TypeError", "type doesn't define __round__ method")


def float_attr(interp, obj, name):
    if name == "is_integer":
        def is_integer(interp_, args, kwargs):
            if isinstance(obj, float):
                return obj.is_integer()
            return ops.mkbool(z3.ToReal(z3.ToInt(obj.t)) == obj.t)
        return Builtin("float.is_integer", is_integer)
    if name == "real":
        return obj
    return NOT_IMPLEMENTED


def within(interp, x, p, q, a, b):
    """spec primitive: |x - p/q| <= a/b exactly (x: int | float; p, q, a, b integers, q > 0, b > 0)"""
    if not (isinstance(q, int) and isinstance(a, int) and isinstance(b, int) and q > 0 and b > 0):
        raise Unsupported("within(): q, a, b must be positive literal integers")
    xt = exact_term(interp, x)
    pt = exact_term(interp, p)
    d = xt - pt / z3.RealVal(q)
    tol = z3.Q(a, b)
    return ops.mkbool(z3.And(d <= tol, -d <= tol))


# ------------------------------------------------------------------------------------------------
# datetime
# ------------------------------------------------------------------------------------------------
_EPOCH = _dt.datetime(1970, 1, 1)
_ONE_US = _dt.timedelta(microseconds=1)
MIN_US = (_dt.datetime.min - _EPOCH) // _ONE_US
MAX_US = (_dt.datetime.max - _EPOCH) // _ONE_US
TD_MAX_US = (999999999 * 86400 + 86399) * 10 ** 6 + 999999
TD_MIN_US = -999999999 * 86400 * 10 ** 6
US_DAY = 86400 * 10 ** 6


def _mod(interp):
    return interp.import_module("datetime")


def _is(interp, v, clsname):
    return isinstance(v, Instance) and v.cls is _mod(interp).ns[clsname]


def _range_ok(v, lo, hi):
    """lo <= v <= hi as bool | SBool, decided from the syntactic bounds where possible"""
    v = as_int(v)
    if isinstance(v, SInt) and v.lo is not None and v.hi is not None and lo <= v.lo and v.hi <= hi:
        return True
    return ops.b_and(ops.cmp(">=", v, lo), ops.cmp("<=", v, hi))


def mk_td(interp, us):
    """timedelta of `us` microseconds (range-checked)"""
    us = as_int(us)
    ok = _range_ok(us, TD_MIN_US, TD_MAX_US)
    if not interp.truth(ok):
        interp.throw("OverflowError", "days out of range for timedelta")
    interp.ctx.trusted.add(T_DT)
    return Instance(_mod(interp).ns["timedelta"], {"_us": us})


def mk_dt(interp, us, tz):
    us = as_int(us)
    ok = _range_ok(us, MIN_US, MAX_US)
    if not interp.truth(ok):
        interp.throw("OverflowError", "date value out of range")
    interp.ctx.trusted.add(T_DT)
    return Instance(_mod(interp).ns["datetime"], {"_us": us, "tzinfo": tz})


def float_to_us(interp, x, factor, unit):
    """microseconds of x units (factor microseconds each), x a float: CPython's split into an exact
    integral part and a fractional part scaled in binary64 and rounded to the nearest integer"""
    if isinstance(x, float):
        try:
            return _dt.timedelta(**{unit: x}) // _ONE_US
        except OverflowError as e:
            interp.throw("OverflowError", str(e))
        except ValueError as e:
            interp.throw("ValueError", str(e))
    ctx = interp.ctx
    ctx.trusted.add(T_DT)
    whole = trunc(interp, x)
    frac = x.t - exact_term(interp, whole)
    y = rnd(interp, frac * z3.RealVal(factor), Fraction(factor))
    n = RINT(y)
    ctx.assume(z3.And(z3.ToReal(n) - y <= z3.Q(1, 2), y - z3.ToReal(n) <= z3.Q(1, 2)))
    return ops.add(ops.mul(whole, factor), _mk_int(n, get_bound(interp, y)))


_TD_FACTORS = (("days", US_DAY), ("seconds", 10 ** 6), ("microseconds", 1), ("milliseconds", 1000), ("minutes", 60 * 10 ** 6),
               ("hours", 3600 * 10 ** 6), ("weeks", 7 * US_DAY))


def make_timedelta_cls(interp):
    cls = ClassV("timedelta", [interp.builtins["object"]], {}, "datetime")

    def method(name):
        def deco(fn):
            b = Builtin("timedelta." + name, lambda interp_, args, kwargs: fn(interp_, *args, **kwargs))
            b.is_method = True
            cls.ns[name] = b
            return fn
        return deco

    def prop(name):
        def deco(fn):
            cls.ns[name] = PropertyV(Builtin("timedelta." + name, lambda interp_, args, kwargs: fn(interp_, *args, **kwargs)), None)
            return fn
        return deco

    @method("__init__")
    def init(interp, self, *args, **kw):
        vals = {}
        names = [n for n, _ in _TD_FACTORS]
        if len(args) > len(names):
            interp.throw("TypeError", "timedelta() takes at most 7 arguments")
        for n, v in zip(names, args):
            vals[n] = v
        for k, v in kw.items():
            if k not in names or k in vals:
                interp.throw("TypeError", f"timedelta(): bad argument {k}")
            vals[k] = v
        total = 0
        n_float = 0
        for n, f in _TD_FACTORS:
            v = vals.get(n, 0)
            if isinstance(v, (float, SReal)):
                n_float += 1
                if n_float > 1:
                    raise Unsupported("timedelta() with more than one float argument")
                if isinstance(v, float) and (_math.isnan(v) or _math.isinf(v)):
                    interp.throw("ValueError" if _math.isnan(v) else "OverflowError", "cannot convert float to integer")
                total = ops.add(total, float_to_us(interp, v, f, n))
            elif is_intlike(v):
                total = ops.add(total, ops.mul(as_int(v), f))
            else:
                interp.throw("TypeError", f"unsupported type for timedelta {n} component")
        ok = _range_ok(total, TD_MIN_US, TD_MAX_US)
        if not interp.truth(ok):
            interp.throw("OverflowError", "days out of range for timedelta")
        interp.ctx.trusted.add(T_DT)
        self.fields["_us"] = total
        return None

    @prop("days")
    def days(interp, self):
        return ops.floordiv_const(self.fields["_us"], US_DAY)

    @prop("seconds")
    def seconds(interp, self):
        return ops.floordiv_const(ops.mod_const(self.fields["_us"], US_DAY), 10 ** 6)

    @prop("microseconds")
    def microseconds(interp, self):
        return ops.mod_const(self.fields["_us"], 10 ** 6)

    @method("total_seconds")
    def total_seconds(interp, self):
        return real_binop(interp, ast.Div, self.fields["_us"], 10 ** 6)

    def other_us(interp, o):
        return o.fields["_us"] if _is(interp, o, "timedelta") else None

    @method("__add__")
    def add(interp, self, o):
        u = other_us(interp, o)
        if u is None:
            return NOT_IMPLEMENTED
        return mk_td(interp, ops.add(self.fields["_us"], u))
    cls.ns["__radd__"] = cls.ns["__add__"]

    @method("__sub__")
    def sub(interp, self, o):
        u = other_us(interp, o)
        if u is None:
            return NOT_IMPLEMENTED
        return mk_td(interp, ops.sub(self.fields["_us"], u))

    @method("__rsub__")
    def rsub(interp, self, o):
        u = other_us(interp, o)
        if u is None:
            return NOT_IMPLEMENTED
        return mk_td(interp, ops.sub(u, self.fields["_us"]))

    @method("__neg__")
    def neg(interp, self):
        return mk_td(interp, ops.neg(self.fields["_us"]))

    @method("__abs__")
    def abs_(interp, self):
        if interp.truth(ops.cmp("<", self.fields["_us"], 0)):
            return mk_td(interp, ops.neg(self.fields["_us"]))
        return self

    @method("__mul__")
    def mul(interp, self, o):
        if is_intlike(o):
            return mk_td(interp, ops.mul(self.fields["_us"], as_int(o)))
        if isinstance(o, (float, SReal)):
            raise Unsupported("timedelta * float")
        return NOT_IMPLEMENTED
    cls.ns["__rmul__"] = cls.ns["__mul__"]

    @method("__floordiv__")
    def floordiv(interp, self, o):
        u = other_us(interp, o)
        if u is not None:
            if not interp.truth(ops.cmp("!=", u, 0)):
                interp.throw("ZeroDivisionError", "integer division or modulo by zero")
            return ops.floordiv(interp, self.fields["_us"], u)
        if is_intlike(o):
            if not interp.truth(ops.cmp("!=", o, 0)):
                interp.throw("ZeroDivisionError", "integer division or modulo by zero")
            return mk_td(interp, ops.floordiv(interp, self.fields["_us"], as_int(o)))
        return NOT_IMPLEMENTED

    @method("__bool__")
    def bool_(interp, self):
        return ops.cmp("!=", self.fields["_us"], 0)

    @method("__eq__")
    def eq(interp, self, o):
        u = other_us(interp, o)
        if u is None:
            return NOT_IMPLEMENTED
        return ops.cmp("==", self.fields["_us"], u)

    @method("__hash__")
    def hash_(interp, self):
        return ("hash", "timedelta", self.fields["_us"])

    def order(sym, name):
        @method(name)
        def f(interp, self, o):
            u = other_us(interp, o)
            if u is None:
                interp.throw("TypeError", f"'{sym}' not supported between timedelta and this operand")
            return ops.cmp(sym, self.fields["_us"], u)
    for sym, name in (("<", "__lt__"), ("<=", "__le__"), (">", "__gt__"), (">=", "__ge__")):
        order(sym, name)
    return cls


def make_timezone_cls(interp, td_cls):
    cls = ClassV("timezone", [interp.builtins["object"]], {}, "datetime")

    def method(name):
        def deco(fn):
            b = Builtin("timezone." + name, lambda interp_, args, kwargs: fn(interp_, *args, **kwargs))
            b.is_method = True
            cls.ns[name] = b
            return fn
        return deco

    @method("__init__")
    def init(interp, self, offset=None, name=None):
        if not (isinstance(offset, Instance) and offset.cls is td_cls and isinstance(offset.fields["_us"], int) and offset.fields["_us"] == 0):
            raise Unsupported("time zones other than UTC")
        self.fields["_off"] = 0
        return None

    @method("utcoffset")
    def utcoffset(interp, self, dt=None):
        return Instance(td_cls, {"_us": 0})

    @method("__eq__")
    def eq(interp, self, o):
        if isinstance(o, Instance) and o.cls is cls:
            return True
        return NOT_IMPLEMENTED

    @method("__hash__")
    def hash_(interp, self):
        return ("hash", "timezone.utc")
    utc = Instance(cls, {"_off": 0})
    cls.ns["utc"] = utc
    return cls, utc


def make_datetime_cls(interp, td_cls, tz_cls, utc):
    cls = ClassV("datetime", [interp.builtins["object"]], {}, "datetime")

    def method(name):
        def deco(fn):
            b = Builtin("datetime." + name, lambda interp_, args, kwargs: fn(interp_, *args, **kwargs))
            b.is_method = True
            cls.ns[name] = b
            return fn
        return deco

    def cmethod(name):
        def deco(fn):
            b = Builtin("datetime." + name, lambda interp_, args, kwargs: fn(interp_, *args, **kwargs))
            cls.ns[name] = ClassMethodV(b)
            return fn
        return deco

    def check_tz(interp, tz):
        if tz is None:
            return None
        if isinstance(tz, Instance) and tz.cls is tz_cls:
            return utc
        raise Unsupported("tzinfo other than None / timezone.utc")

    @method("__init__")
    def init(interp, self, year, month=None, day=None, hour=0, minute=0, second=0, microsecond=0, tzinfo=None, **kw):
        if kw and set(kw) - {"fold"}:
            interp.throw("TypeError", "datetime(): unexpected keyword argument")
        parts = (year, month, day, hour, minute, second, microsecond)
        if not all(isinstance(p, int) and not isinstance(p, bool) for p in parts):
            if month is None or day is None:
                interp.throw("TypeError", "function missing required argument")
            raise Unsupported("datetime() from symbolic calendar fields")
        tz = check_tz(interp, tzinfo)
        try:
            d = _dt.datetime(*parts)
        except ValueError as e:
            interp.throw("ValueError", str(e))
        except OverflowError as e:
            interp.throw("OverflowError", str(e))
        interp.ctx.trusted.add(T_DT)
        self.fields["_us"] = (d - _EPOCH) // _ONE_US
        self.fields["tzinfo"] = tz
        return None

    @cmethod("fromtimestamp")
    def fromtimestamp(interp, c, ts, tz=None):
        tz = check_tz(interp, tz)
        if tz is None:
            raise Unsupported("datetime.fromtimestamp in local time")
        if isinstance(ts, float) or (isinstance(ts, int) and not isinstance(ts, bool)):
            try:
                us = (_dt.datetime.fromtimestamp(ts, tz=_dt.timezone.utc).replace(tzinfo=None) - _EPOCH) // _ONE_US
            except (OverflowError, OSError) as e:
                interp.throw("OverflowError", str(e))
            except ValueError as e:
                interp.throw("ValueError", str(e))
            return mk_dt(interp, us, tz)
        if isinstance(ts, SReal):
            us = float_to_us(interp, ts, 10 ** 6, "seconds")
        elif is_intlike(ts):
            us = ops.mul(as_int(ts), 10 ** 6)
        else:
            interp.throw("TypeError", "an integer or float is required")
        ok = _range_ok(us, MIN_US, MAX_US)
        if isinstance(ok, bool):
            in_range = ok
        else:
            in_range = interp.ctx.valid(ops.zb(ok))
        if not in_range:
            raise Unsupported("datetime.fromtimestamp: year range not established")
        return mk_dt(interp, us, tz)

    @cmethod("utcfromtimestamp")
    def utcfromtimestamp(interp, c, ts):
        raise Unsupported("datetime.utcfromtimestamp")

    @cmethod("now")
    def now(interp, c, tz=None):
        raise Unsupported("datetime.now (wall clock)")

    @cmethod("utcnow")
    def utcnow(interp, c):
        raise Unsupported("datetime.utcnow (wall clock)")

    def aware(self):
        return self.fields["tzinfo"] is not None

    @method("timestamp")
    def timestamp(interp, self):
        if not aware(self):
            raise Unsupported("timestamp() of a naive datetime (local time)")
        return real_binop(interp, ast.Div, self.fields["_us"], 10 ** 6)

    @method("utcoffset")
    def utcoffset(interp, self):
        if not aware(self):
            return None
        return Instance(td_cls, {"_us": 0})

    @method("astimezone")
    def astimezone(interp, self, tz=None):
        tz = check_tz(interp, tz)
        if not aware(self) or tz is None:
            raise Unsupported("astimezone involving local time")
        return self

    @method("replace")
    def replace(interp, self, **kw):
        if set(kw) - {"tzinfo"}:
            raise Unsupported("datetime.replace of calendar fields")
        return Instance(cls, {"_us": self.fields["_us"], "tzinfo": check_tz(interp, kw.get("tzinfo", self.fields["tzinfo"]))})

    @method("__add__")
    def add(interp, self, o):
        if not (isinstance(o, Instance) and o.cls is td_cls):
            return NOT_IMPLEMENTED
        return mk_dt(interp, ops.add(self.fields["_us"], o.fields["_us"]), self.fields["tzinfo"])
    cls.ns["__radd__"] = cls.ns["__add__"]

    @method("__sub__")
    def sub(interp, self, o):
        if isinstance(o, Instance) and o.cls is td_cls:
            return mk_dt(interp, ops.sub(self.fields["_us"], o.fields["_us"]), self.fields["tzinfo"])
        if isinstance(o, Instance) and o.cls is cls:
            if aware(self) != aware(o):
                interp.throw("TypeError", "can't subtract offset-naive and offset-aware datetimes")
            return mk_td(interp, ops.sub(self.fields["_us"], o.fields["_us"]))
        return NOT_IMPLEMENTED

    @method("__eq__")
    def eq(interp, self, o):
        if not (isinstance(o, Instance) and o.cls is cls):
            return NOT_IMPLEMENTED
        if aware(self) != aware(o):
            return False
        return ops.cmp("==", self.fields["_us"], o.fields["_us"])

    @method("__hash__")
    def hash_(interp, self):
        return ("hash", "datetime", self.fields["_us"], aware(self))

    def order(sym, name):
        @method(name)
        def f(interp, self, o):
            if not (isinstance(o, Instance) and o.cls is cls):
                interp.throw("TypeError", f"'{sym}' not supported between datetime and this operand")
            if aware(self) != aware(o):
                interp.throw("TypeError", "can't compare offset-naive and offset-aware datetimes")
            return ops.cmp(sym, self.fields["_us"], o.fields["_us"])
    for sym, name in (("<", "__lt__"), ("<=", "__le__"), (">", "__gt__"), (">=", "__ge__")):
        order(sym, name)

    def field(name):
        def get(interp, self):
            us = self.fields["_us"]
            if not isinstance(us, int):
                raise Unsupported(f"calendar field .{name} of a symbolic datetime")
            return getattr(_EPOCH + _dt.timedelta(microseconds=us), name)
        cls.ns[name] = PropertyV(Builtin("datetime." + name, lambda interp_, args, kwargs: get(interp_, *args, **kwargs)), None)
    for n in ("year", "month", "day", "hour", "minute", "second", "microsecond"):
        field(n)
    return cls


def make_datetime_module(interp):
    m = ModuleV("datetime", {})
    m.stub = True
    td = make_timedelta_cls(interp)
    tz, utc = make_timezone_cls(interp, td)
    dt = make_datetime_cls(interp, td, tz, utc)
    m.ns.update({"timedelta": td, "timezone": tz, "datetime": dt, "UTC": utc})
    return m


def datetime_binop(interp, t, a, b):
    return NOT_IMPLEMENTED


def datetime_cmp(interp, sym, a, b):
    return NOT_IMPLEMENTED


def stub_module(interp, name):
    if name == "datetime":
        return make_datetime_module(interp)
    m = ModuleV(name, {})
    m.stub = True
    if name == "math":
        m.ns["floor"] = _b("math.floor")(floor)
        m.ns["ceil"] = _b("math.ceil")(ceil)
        m.ns["trunc"] = _b("math.trunc")(trunc)
        m.ns["fabs"] = _b("math.fabs")(lambda interp_, v: real_abs(interp_, to_float(interp_, v)))
        m.ns["pi"] = _math.pi
        m.ns["inf"] = _math.inf
    if name == "time":
        def wall(interp_, *a, **k):
            raise Unsupported("wall clock (time module)")
        for n in ("time", "time_ns", "monotonic", "perf_counter", "sleep"):
            m.ns[n] = _b("time." + n)(wall)
    return m
