"""Path exploration by re-execution with a decision prefix, path condition, solver access.

A harness is run once per path.  At a symbolic branch the context first follows the recorded
prefix; beyond it, feasibility of both sides is asked from the solver, the `True` side is taken and
the other side is queued.  Re-execution is deterministic (fresh names come from a per-path counter).
"""
from __future__ import annotations
import os
import time
import z3
from .values import IntSort, SeqSort
from . import solve


class PathInfeasible(Exception):
    """The path condition became unsatisfiable (e.g. a `requires` that does not hold here)."""


class Unsupported(Exception):
    """Construct outside the modelled subset: the obligation is undecided, never assumed."""


class PathAbort(Exception):
    """Path ended deliberately (cut point)."""


class OtherShard(Exception):
    """The path belongs to another shard of a harness that is explored by several processes."""


_VALID_MEMO = {}    # (ids of the pc terms, id of the goal) -> (backend, pc, goal) for proved obligations (terms kept alive)
_SEQFREE = {}       # AST id -> "has no sequence-sorted sub-term" (process-wide memo of PathCtx.seq_free)
_SEQFREE_KEEP = []  # references to the memoised ASTs (z3 may recycle the id of a freed AST)


class Config:
    def __init__(self, **kw):
        self.branch_timeout_ms = kw.get("branch_timeout_ms", 4000)
        self.branch_probe_ms = kw.get("branch_probe_ms", 1500)  # full-solver pruning probe at a fork the LIA abstraction leaves open
        self.check_timeout_ms = kw.get("check_timeout_ms", 10000)
        self.max_paths = kw.get("max_paths", 4000)
        self.max_decisions = kw.get("max_decisions", 3000)
        self.loop_unroll = kw.get("loop_unroll", 12)
        self.call_depth = kw.get("call_depth", 60)
        self.tier = kw.get("tier", "quick")
        self.use_fallback = kw.get("use_fallback", True)
        self.concrete = kw.get("concrete", False)
        # budget of the full (sequence-aware) solver for branch feasibility / consistency checks; an
        # "unknown" there only means that a possibly infeasible path is explored (sound, slower)
        self.feas_timeout_ms = kw.get("feas_timeout_ms", 1500)
        # sharded exploration of one harness: paths are partitioned by their first `shard_depth` decisions
        self.shard = kw.get("shard")            # None | (k, n)
        self.shard_depth = kw.get("shard_depth", 5)      # counted in real forks
        # "prefix": a shard explores only the paths whose first shard_depth decisions hash to it;
        # "obligations": every shard walks all paths (cheap feasibility queries) but solves the obligations only of
        # every n-th path (the expensive part); the skipped ones are assumed, their owner shard checks them
        self.shard_mode = kw.get("shard_mode", "prefix")
        # opt-in (per obligation): decide the feasibility of sequence-free branch conditions with the LIA abstraction only
        # (sound: a branch is only ever pruned on `unsat`; an infeasible path that survives has a false path condition)
        self.lia_branch = kw.get("lia_branch", False)


class Obl:
    __slots__ = ("label", "status", "model", "backend", "secs", "path", "detail", "kind")

    def __init__(self, label, status, model=None, backend="", secs=0.0, path=None, detail="", kind="ensures"):
        self.label = label
        self.status = status  # discharged | failed | unknown
        self.model = model
        self.backend = backend
        self.secs = secs
        self.path = path
        self.detail = detail
        self.kind = kind

    def to_json(self):
        return {"label": self.label, "status": self.status, "model": self.model, "backend": self.backend,
                "secs": round(self.secs, 4), "path": self.path, "detail": self.detail, "kind": self.kind}


class _Prefix(list):
    """decision prefix of a path to explore; `forced` marks the decisions whose other side was infeasible"""
    forced = None


class PathCtx:
    def __init__(self, prefix, cfg: Config):
        self.cfg = cfg
        self.prefix = prefix if isinstance(prefix, _Prefix) else _Prefix(prefix)
        self.decisions = []
        self.forced = []  # parallel to decisions: True if the other side was infeasible
        self.alternatives = []  # prefixes to explore
        self.solver = z3.Solver()
        self.solver.set("timeout", cfg.branch_timeout_ms)
        self.lia = z3.Solver()  # abstraction: only the assertions free of sequence terms
        self.lia.set("timeout", 2000)
        self._seqfree = _SEQFREE  # shared by all paths; the classified terms are kept alive so that AST ids stay valid
        self.pc = []
        self.counter = 0
        self.inputs = []  # (name, kind, payload)
        self.obls = []
        self.solver_secs = 0.0
        self.solver_calls = 0
        self.trusted = set()
        self.notes = []
        self.covers = set()
        self.ghost = {}

    # ---- names
    def fresh_name(self, base):
        self.counter += 1
        return f"{base}!{self.counter}"

    def fresh_int(self, base="i", lo=None, hi=None):
        v = z3.Int(self.fresh_name(base))
        if lo is not None:
            self.assume(v >= lo, check=False)
        if hi is not None:
            self.assume(v <= hi, check=False)
        return v

    def fresh_bool(self, base="p"):
        return z3.Bool(self.fresh_name(base))

    def fresh_seq(self, base="s"):
        return z3.Const(self.fresh_name(base), SeqSort)

    def fresh_real(self, base="r"):
        return z3.Real(self.fresh_name(base))

    # ---- path condition
    def assume(self, term, check=False):
        if term is True:
            return
        if term is False:
            raise PathInfeasible()
        self.pc.append(term)
        self.solver.add(term)
        if self.seq_free(term):
            self.lia.add(term)
        if check:
            if self.lia.check() == z3.unsat:
                raise PathInfeasible()
            self._cur_timeout = min(self.cfg.branch_timeout_ms, self.cfg.feas_timeout_ms)
            self.solver.set("timeout", self._cur_timeout)
            r = self._check()
            self._cur_timeout = self.cfg.branch_timeout_ms
            self.solver.set("timeout", self._cur_timeout)
            if r == z3.unsat:
                raise PathInfeasible()

    def seq_free(self, t):
        """True if no sub-term of t has a sequence or real sort (such assertions form the LIA abstraction)."""
        cache = self._seqfree
        if t.get_id() in cache:
            return cache[t.get_id()]
        stack = [t]
        order = []
        seen = set()  # shared sub-terms are visited once (terms are DAGs)
        while stack:
            e = stack.pop()
            i = e.get_id()
            if i in cache or i in seen:
                continue
            seen.add(i)
            order.append(e)
            _SEQFREE_KEEP.append(e)
            for c in e.children():
                ci = c.get_id()
                if ci not in cache and ci not in seen:
                    stack.append(c)
        for e in reversed(order):
            i = e.get_id()
            if i in cache:
                continue
            if z3.is_seq(e) or z3.is_real(e) or (z3.is_app(e) and e.decl().kind() == z3.Z3_OP_UNINTERPRETED and e.num_args() > 0):
                cache[i] = False
            else:
                cache[i] = all(cache.get(c.get_id(), True) for c in e.children())
        return cache[t.get_id()]

    def _lia_unsat(self, term):
        if not self.seq_free(term):
            return False
        t0 = time.time()
        r = self.lia.check(term)
        self.solver_secs += time.time() - t0
        self.solver_calls += 1
        return r == z3.unsat

    def _check(self, *assumptions):
        t0 = time.time()
        r = self.solver.check(*assumptions)
        dt = time.time() - t0
        self.solver_secs += dt
        self.solver_calls += 1
        if dt > float(os.environ.get("PYVC_DEBUG_T", "0.5")) and os.environ.get("PYVC_DEBUG"):
            import sys
            print(f"[slow {dt:.1f}s {r}] {[str(a)[:300] for a in assumptions]}", file=sys.stderr)
        if r == z3.unknown:
            # z3's sequence solver stays degraded after a timeout (later easy queries on the same solver object also
            # come back unknown): continue with a fresh solver holding the same path condition
            self.solver = z3.Solver()
            self.solver.set("timeout", getattr(self, "_cur_timeout", self.cfg.branch_timeout_ms))
            for a in self.pc:
                self.solver.add(a)
        return r

    def feasible(self, term):
        r = self._check(term)
        return r != z3.unsat

    def valid(self, term):
        """pc => term proved?  (no fork; unknown counts as not proved)"""
        if term is True:
            return True
        if term is False:
            return False
        if self._lia_unsat(z3.Not(term)):
            return True
        return self._check(z3.Not(term)) == z3.unsat

    def branch(self, term):
        """Decide a symbolic condition: follow the prefix, else fork."""
        if term is True or term is False:
            return term
        term = z3.simplify(term)
        if z3.is_true(term):
            return True
        if z3.is_false(term):
            return False
        i = len(self.decisions)
        if i >= self.cfg.max_decisions:
            raise Unsupported("decision budget exceeded on one path")
        if i < len(self.prefix):
            d = self.prefix[i]
            self.decisions.append(d)
            pf = getattr(self.prefix, "forced", None)
            self.forced.append(bool(pf[i]) if pf is not None and i < len(pf) else False)
            self.assume(term if d else z3.Not(term))
            self._shard_gate()
            return d
        nterm = z3.Not(term)
        # cheap abstraction first, then the full solver asked only for infeasibility
        can_t = not self._lia_unsat(term)
        can_f = can_t and not self._lia_unsat(nterm)
        if can_t and can_f and not (self.cfg.lia_branch and self.seq_free(term)):
            self._cur_timeout = min(self.cfg.branch_timeout_ms, self.cfg.feas_timeout_ms, self.cfg.branch_probe_ms)
            self.solver.set("timeout", self._cur_timeout)
            r_f = self._check(nterm)
            can_f = r_f != z3.unsat
            if can_f:
                if r_f == z3.unknown:
                    # no model found in time (typically: the path needs long sequences); the other side is only
                    # asked briefly for a refutation
                    self._cur_timeout = 300
                    self.solver.set("timeout", self._cur_timeout)
                can_t = self._check(term) != z3.unsat
            self._cur_timeout = self.cfg.branch_timeout_ms
            self.solver.set("timeout", self._cur_timeout)
        if not can_t:
            self.decisions.append(False)
            self.forced.append(True)
            self.assume(nterm)
            self._shard_gate()
            return False
        if not can_f:
            self.decisions.append(True)
            self.forced.append(True)
            self.assume(term)
            self._shard_gate()
            return True
        alt = _Prefix(self.decisions + [False])
        alt.forced = list(self.forced) + [False]
        self.alternatives.append(alt)
        self.decisions.append(True)
        self.forced.append(False)
        self.assume(term)
        self._shard_gate()
        return True

    def _shard_gate(self):
        sh = self.cfg.shard
        if sh is None or self.cfg.shard_mode != "prefix" or self.forced[-1]:
            return
        forks = [d for d, f in zip(self.decisions, self.forced) if not f]      # only real forks count
        if len(forks) != self.cfg.shard_depth:
            return
        k, n = sh
        bucket = (sum((1 << i) for i, d in enumerate(forks) if d) * 2654435761 >> 7) % n
        if bucket != k:
            raise OtherShard()

    def enumerate_values(self, term, limit=24):
        """All values of an Int term feasible under the pc (None if more than `limit`)."""
        vals = []
        sol = self.lia if self.seq_free(term) else self.solver
        sol.push()
        try:
            while True:
                r = sol.check()
                self.solver_calls += 1
                if r == z3.unsat:
                    return vals
                if r != z3.sat:
                    return None
                m = sol.model()
                v = m.eval(term, model_completion=True)
                if not z3.is_int_value(v):
                    return None
                vals.append(v.as_long())
                if len(vals) > limit:
                    return None
                sol.add(term != v)
        finally:
            sol.pop()

    # ---- inputs
    def register_input(self, name, kind, payload):
        self.inputs.append((name, kind, payload))

    # ---- obligations
    def check(self, label, term, kind="ensures", detail=""):
        """Obligation: pc => term."""
        if not getattr(self, "own", True):
            return True     # obligation-level sharding: another shard solves this path's obligations
        t0 = time.time()
        if term is True:
            self.obls.append(Obl(label, "discharged", backend="trivial", path=list(self.decisions), kind=kind))
            return True
        if term is False:
            goal = z3.BoolVal(False)
        else:
            goal = term
        # paths that share a prefix reach the same clause under the same path condition: a proved (pc => goal) is reused.
        # Only "valid" verdicts are memoised; the key is the identity of the z3 terms (kept alive in the memo).
        key = (tuple(a.get_id() for a in self.pc), goal.get_id())
        hit = _VALID_MEMO.get(key)
        if hit is not None:
            self.obls.append(Obl(label, "discharged", backend=hit[0], secs=0.0, path=list(self.decisions), kind=kind))
            return True
        res = solve.check_valid(self.pc, goal, self.cfg, inputs=self.inputs)
        if res.status == "unsat":
            _VALID_MEMO[key] = (res.backend, list(self.pc), goal)
        secs = time.time() - t0
        self.solver_secs += secs
        self.solver_calls += 1
        if res.status == "unsat":
            self.obls.append(Obl(label, "discharged", backend=res.backend, secs=secs, path=list(self.decisions), kind=kind))
            return True
        if res.status == "sat":
            self.obls.append(Obl(label, "failed", model=res.model, backend=res.backend, secs=secs,
                                 path=list(self.decisions), kind=kind, detail=detail))
            return False
        self.obls.append(Obl(label, "unknown", backend=res.backend, secs=secs, path=list(self.decisions), kind=kind,
                             detail=detail or res.detail))
        return False

    def fail(self, label, kind="ensures", detail=""):
        """Obligation that is violated whenever this point is reachable."""
        return self.check(label, False, kind=kind, detail=detail)


class PathResult:
    def __init__(self):
        self.decisions = None
        self.obls = []
        self.end = None  # 'ok' | 'infeasible' | 'unsupported:<msg>' | 'error:<msg>'
        self.solver_secs = 0.0
        self.solver_calls = 0
        self.trusted = set()
        self.covers = set()
        self.notes = []


def explore(run_path, cfg: Config):
    """run_path(ctx) executes one path.  Returns list[PathResult]."""
    work = [[]]
    results = []
    while work:
        prefix = work.pop()
        if len(results) >= cfg.max_paths:
            r = PathResult()
            r.end = "unsupported:path budget exceeded"
            r.decisions = prefix
            results.append(r)
            break
        ctx = PathCtx(prefix, cfg)
        if cfg.shard is not None and cfg.shard_mode == "obligations":
            ctx.own = (len(results) % cfg.shard[1]) == cfg.shard[0]
        res = PathResult()
        try:
            run_path(ctx)
            res.end = "ok"
        except PathInfeasible:
            res.end = "infeasible"
        except PathAbort:
            res.end = "ok"
        except OtherShard:
            res.end = "other-shard"
        except Unsupported as e:
            res.end = f"unsupported:{e}"
        except RecursionError:
            res.end = "unsupported:recursion depth"
        res.decisions = list(ctx.decisions)
        res.obls = ctx.obls
        if cfg.shard is not None and cfg.shard_mode == "prefix" and res.end != "other-shard" \
                and sum(1 for f in ctx.forced if not f) < cfg.shard_depth and cfg.shard[0] != 0:
            res.end = "other-shard"      # short paths belong to shard 0
        if cfg.shard is not None and cfg.shard_mode == "obligations" and not getattr(ctx, "own", True) and res.end in ("ok", "infeasible"):
            res.end = "other-shard"
        if res.end == "other-shard":
            res.obls = []
        res.solver_secs = ctx.solver_secs
        res.solver_calls = ctx.solver_calls
        res.trusted = ctx.trusted
        res.covers = ctx.covers
        res.notes = ctx.notes
        results.append(res)
        work.extend(ctx.alternatives)
        if os.environ.get("PYVC_TRACE"):
            import sys
            print(f"[path {len(results)} end={res.end[:80]} decisions={len(res.decisions)} obls={[(o.label, o.status, round(o.secs, 1)) for o in res.obls]} "
                  f"solver={res.solver_secs:.1f}s calls={res.solver_calls} queue={len(work)}]", file=sys.stderr)
    return results
