"""Path exploration by re-execution with a decision prefix, path condition, solver access.

A harness is run once per path.  At a symbolic branch the context first follows the recorded
prefix; beyond it, feasibility of both sides is asked from the solver, the `True` side is taken and
the other side is queued.  Re-execution is deterministic (fresh names come from a per-path counter).
"""
from __future__ import annotations
import os
import time
import z3
from .values import IntSort, SeqSort
from . import solve


class PathInfeasible(Exception):
    """The path condition became unsatisfiable (e.g. a `requires` that does not hold here)."""


class Unsupported(Exception):
    """Construct outside the modelled subset: the obligation is undecided, never assumed."""


class PathAbort(Exception):
    """Path ended deliberately (cut point)."""


class Config:
    def __init__(self, **kw):
        self.branch_timeout_ms = kw.get("branch_timeout_ms", 4000)
        self.check_timeout_ms = kw.get("check_timeout_ms", 10000)
        self.max_paths = kw.get("max_paths", 4000)
        self.max_decisions = kw.get("max_decisions", 3000)
        self.loop_unroll = kw.get("loop_unroll", 12)
        self.call_depth = kw.get("call_depth", 60)
        self.tier = kw.get("tier", "quick")
        self.use_fallback = kw.get("use_fallback", True)
        self.concrete = kw.get("concrete", False)


class Obl:
    __slots__ = ("label", "status", "model", "backend", "secs", "path", "detail", "kind")

    def __init__(self, label, status, model=None, backend="", secs=0.0, path=None, detail="", kind="ensures"):
        self.label = label
        self.status = status  # discharged | failed | unknown
        self.model = model
        self.backend = backend
        self.secs = secs
        self.path = path
        self.detail = detail
        self.kind = kind

    def to_json(self):
        return {"label": self.label, "status": self.status, "model": self.model, "backend": self.backend,
                "secs": round(self.secs, 4), "path": self.path, "detail": self.detail, "kind": self.kind}


class PathCtx:
    def __init__(self, prefix, cfg: Config):
        self.cfg = cfg
        self.prefix = list(prefix)
        self.decisions = []
        self.forced = []  # parallel to decisions: True if the other side was infeasible
        self.alternatives = []  # prefixes to explore
        self.solver = z3.Solver()
        self.solver.set("timeout", cfg.branch_timeout_ms)
        self.lia = z3.Solver()  # abstraction: only the assertions free of sequence terms
        self.lia.set("timeout", 2000)
        self._seqfree = {}
        self.pc = []
        self.counter = 0
        self.inputs = []  # (name, kind, payload)
        self.obls = []
        self.solver_secs = 0.0
        self.solver_calls = 0
        self.trusted = set()
        self.notes = []
        self.covers = set()
        self.ghost = {}

    # ---- names
    def fresh_name(self, base):
        self.counter += 1
        return f"{base}!{self.counter}"

    def fresh_int(self, base="i", lo=None, hi=None):
        v = z3.Int(self.fresh_name(base))
        if lo is not None:
            self.assume(v >= lo, check=False)
        if hi is not None:
            self.assume(v <= hi, check=False)
        return v

    def fresh_bool(self, base="p"):
        return z3.Bool(self.fresh_name(base))

    def fresh_seq(self, base="s"):
        return z3.Const(self.fresh_name(base), SeqSort)

    def fresh_real(self, base="r"):
        return z3.Real(self.fresh_name(base))

    # ---- path condition
    def assume(self, term, check=False):
        if term is True:
            return
        if term is False:
            raise PathInfeasible()
        self.pc.append(term)
        self.solver.add(term)
        if self.seq_free(term):
            self.lia.add(term)
        if check:
            if self.lia.check() == z3.unsat or self._check() == z3.unsat:
                raise PathInfeasible()

    def seq_free(self, t):
        """True if no sub-term of t has a sequence sort (such assertions form the LIA abstraction)."""
        cache = self._seqfree
        stack = [t]
        order = []
        while stack:
            e = stack.pop()
            i = e.get_id()
            if i in cache:
                continue
            order.append(e)
            for c in e.children():
                if c.get_id() not in cache:
                    stack.append(c)
        for e in reversed(order):
            i = e.get_id()
            if i in cache:
                continue
            if z3.is_seq(e) or (z3.is_app(e) and e.decl().kind() == z3.Z3_OP_UNINTERPRETED and e.num_args() > 0):
                cache[i] = False
            else:
                cache[i] = all(cache.get(c.get_id(), True) for c in e.children())
        return cache[t.get_id()]

    def _lia_unsat(self, term):
        if not self.seq_free(term):
            return False
        t0 = time.time()
        r = self.lia.check(term)
        self.solver_secs += time.time() - t0
        self.solver_calls += 1
        return r == z3.unsat

    def _check(self, *assumptions):
        t0 = time.time()
        r = self.solver.check(*assumptions)
        dt = time.time() - t0
        self.solver_secs += dt
        self.solver_calls += 1
        if dt > float(os.environ.get("PYVC_DEBUG_T", "0.5")) and os.environ.get("PYVC_DEBUG"):
            import sys
            print(f"[slow {dt:.1f}s {r}] {[str(a)[:300] for a in assumptions]}", file=sys.stderr)
        return r

    def feasible(self, term):
        r = self._check(term)
        return r != z3.unsat

    def valid(self, term):
        """pc => term proved?  (no fork; unknown counts as not proved)"""
        if term is True:
            return True
        if term is False:
            return False
        if self._lia_unsat(z3.Not(term)):
            return True
        return self._check(z3.Not(term)) == z3.unsat

    def branch(self, term):
        """Decide a symbolic condition: follow the prefix, else fork."""
        if term is True or term is False:
            return term
        term = z3.simplify(term)
        if z3.is_true(term):
            return True
        if z3.is_false(term):
            return False
        i = len(self.decisions)
        if i >= self.cfg.max_decisions:
            raise Unsupported("decision budget exceeded on one path")
        if i < len(self.prefix):
            d = self.prefix[i]
            self.decisions.append(d)
            self.forced.append(False)
            self.assume(term if d else z3.Not(term))
            return d
        nterm = z3.Not(term)
        # cheap abstraction first, then the full solver asked only for infeasibility
        can_t = not self._lia_unsat(term)
        can_f = can_t and not self._lia_unsat(nterm)
        if can_t and can_f:
            self.solver.set("timeout", min(self.cfg.branch_timeout_ms, 1500))
            can_f = self._check(nterm) != z3.unsat
            if can_f:
                can_t = self._check(term) != z3.unsat
            self.solver.set("timeout", self.cfg.branch_timeout_ms)
        if not can_t:
            self.decisions.append(False)
            self.forced.append(True)
            self.assume(nterm)
            return False
        if not can_f:
            self.decisions.append(True)
            self.forced.append(True)
            self.assume(term)
            return True
        self.alternatives.append(self.decisions + [False])
        self.decisions.append(True)
        self.forced.append(False)
        self.assume(term)
        return True

    def enumerate_values(self, term, limit=24):
        """All values of an Int term feasible under the pc (None if more than `limit`)."""
        vals = []
        sol = self.lia if self.seq_free(term) else self.solver
        sol.push()
        try:
            while True:
                r = sol.check()
                self.solver_calls += 1
                if r == z3.unsat:
                    return vals
                if r != z3.sat:
                    return None
                m = sol.model()
                v = m.eval(term, model_completion=True)
                if not z3.is_int_value(v):
                    return None
                vals.append(v.as_long())
                if len(vals) > limit:
                    return None
                sol.add(term != v)
        finally:
            sol.pop()

    # ---- inputs
    def register_input(self, name, kind, payload):
        self.inputs.append((name, kind, payload))

    # ---- obligations
    def check(self, label, term, kind="ensures", detail=""):
        """Obligation: pc => term."""
        t0 = time.time()
        if term is True:
            self.obls.append(Obl(label, "discharged", backend="trivial", path=list(self.decisions), kind=kind))
            return True
        if term is False:
            goal = z3.BoolVal(False)
        else:
            goal = term
        res = solve.check_valid(self.pc, goal, self.cfg, inputs=self.inputs)
        secs = time.time() - t0
        self.solver_secs += secs
        self.solver_calls += 1
        if res.status == "unsat":
            self.obls.append(Obl(label, "discharged", backend=res.backend, secs=secs, path=list(self.decisions), kind=kind))
            return True
        if res.status == "sat":
            self.obls.append(Obl(label, "failed", model=res.model, backend=res.backend, secs=secs,
                                 path=list(self.decisions), kind=kind, detail=detail))
            return False
        self.obls.append(Obl(label, "unknown", backend=res.backend, secs=secs, path=list(self.decisions), kind=kind,
                             detail=detail or res.detail))
        return False

    def fail(self, label, kind="ensures", detail=""):
        """Obligation that is violated whenever this point is reachable."""
        return self.check(label, False, kind=kind, detail=detail)


class PathResult:
    def __init__(self):
        self.decisions = None
        self.obls = []
        self.end = None  # 'ok' | 'infeasible' | 'unsupported:<msg>' | 'error:<msg>'
        self.solver_secs = 0.0
        self.solver_calls = 0
        self.trusted = set()
        self.covers = set()
        self.notes = []


def explore(run_path, cfg: Config):
    """run_path(ctx) executes one path.  Returns list[PathResult]."""
    work = [[]]
    results = []
    while work:
        prefix = work.pop()
        if len(results) >= cfg.max_paths:
            r = PathResult()
            r.end = "unsupported:path budget exceeded"
            r.decisions = prefix
            results.append(r)
            break
        ctx = PathCtx(prefix, cfg)
        res = PathResult()
        try:
            run_path(ctx)
            res.end = "ok"
        except PathInfeasible:
            res.end = "infeasible"
        except PathAbort:
            res.end = "ok"
        except Unsupported as e:
            res.end = f"unsupported:{e}"
        except RecursionError:
            res.end = "unsupported:recursion depth"
        res.decisions = list(ctx.decisions)
        res.obls = ctx.obls
        res.solver_secs = ctx.solver_secs
        res.solver_calls = ctx.solver_calls
        res.trusted = ctx.trusted
        res.covers = ctx.covers
        res.notes = ctx.notes
        results.append(res)
        work.extend(ctx.alternatives)
    return results
