"""Lemma library for CRC-16/CCITT-FALSE (poly 0x1021, init 0xFFFF, MSB first, no reflection, no final
xor), proved per run with z3 bit-vectors.  The packet-level VCs keep `crc16` uninterpreted and use
only the consequences proved here.

crc16(m) = fold(step, 0xFFFF, m) with step(s, b) the bit-serial byte step below.

  res-iff   step(step(s, h), l) == 0  <=>  s == 256*h + l            (all 2^32 cases)
            => crc16(m ++ [h, l]) == 0 <=> crc16(m) == 256*h + l      (two unfoldings of the fold)
  lin       step(s ^ d, b ^ e) == step(s, b) ^ step(d, e)             (GF(2)-linearity, no constant term)
  inj       d != 0 => step(d, 0) != 0
  b3        every non-zero error pattern confined to 16 adjacent bit positions of 3 consecutive octets
            leaves a non-zero state difference: step(step(step(0,e1),e2),e3) != 0
  burst     (from lin, inj, b3 by induction over the common suffix) two equal-length messages that
            differ by a burst of <= 16 adjacent bits have different crc16; in particular if one has
            residue 0 the other has not.

Each lemma has an executable twin (exhaustive where the domain allows, seeded sampling otherwise) used
by the native cross-check.
"""
from __future__ import annotations
import time
try:
    import z3
except ImportError:      # native twin side (/venv python): only the executable checks are used
    z3 = None

POLY = 0x1021


def step_bv(s, b):
    """one octet through the bit-serial CRC register (z3 BitVec(16) state, BitVec(8) octet)"""
    s = s ^ (z3.ZeroExt(8, b) << 8)
    for _ in range(8):
        s = z3.If(z3.Extract(15, 15, s) == 1, (s << 1) ^ z3.BitVecVal(POLY, 16), s << 1)
    return s


def step_py(s, b):
    s ^= (b << 8)
    for _ in range(8):
        s = ((s << 1) ^ POLY) & 0xFFFF if s & 0x8000 else (s << 1) & 0xFFFF
    return s


def crc16_py(data, state=0xFFFF):
    for b in data:
        state = step_py(state, b)
    return state


def _prove(goal, timeout_ms=60000):
    s = z3.Solver()
    s.set("timeout", timeout_ms)
    s.add(z3.Not(goal))
    t0 = time.time()
    r = s.check()
    return r, time.time() - t0, (s.model() if r == z3.sat else None)


def lemma_res_iff():
    s = z3.BitVec("s", 16)
    h, l = z3.BitVec("h", 8), z3.BitVec("l", 8)
    goal = (step_bv(step_bv(s, h), l) == 0) == (s == z3.Concat(h, l))
    return _prove(goal)


def lemma_lin():
    s, d = z3.BitVecs("s d", 16)
    b, e = z3.BitVecs("b e", 8)
    return _prove(step_bv(s ^ d, b ^ e) == step_bv(s, b) ^ step_bv(d, e))


def lemma_inj():
    d = z3.BitVec("d", 16)
    return _prove(z3.Implies(d != 0, step_bv(d, z3.BitVecVal(0, 8)) != 0))


def lemma_b3():
    """error pattern e (24 bits over 3 octets) non-zero and confined to a window of 16 adjacent bits"""
    e = z3.BitVec("e", 24)
    confined = z3.Or(*[(e & z3.BitVecVal(~(0xFFFF << k) & 0xFFFFFF, 24)) == 0 for k in range(0, 9)])
    e1, e2, e3 = z3.Extract(23, 16, e), z3.Extract(15, 8, e), z3.Extract(7, 0, e)
    z = z3.BitVecVal(0, 16)
    out = step_bv(step_bv(step_bv(z, e1), e2), e3)
    return _prove(z3.Implies(z3.And(e != 0, confined), out != 0))


def lemma_zero_state():
    """step(0, 0) == 0: equal prefixes keep the state difference at zero (sanity of the difference view)"""
    return _prove(step_bv(z3.BitVecVal(0, 16), z3.BitVecVal(0, 8)) == 0)


def lemma_table_step():
    """the table-driven byte update used by crcmod equals the bit-serial step:
       step(s, b) == T[(s >> 8) ^ b] ^ ((s << 8) & 0xFF00)   with   T[i] == step(i << 8, 0)   (all states, all octets)"""
    s = z3.BitVec("s", 16)
    b = z3.BitVec("b", 8)
    idx = z3.Extract(15, 8, s) ^ b
    t_entry = step_bv(z3.Concat(idx, z3.BitVecVal(0, 8)), z3.BitVecVal(0, 8))
    return _prove(step_bv(s, b) == (t_entry ^ (s << 8)))


def table_py():
    """the 256-entry table of the table-driven implementation, computed from the bit-serial step"""
    return [step_py(i << 8, 0) for i in range(256)]


LEMMAS = {"table-step": lemma_table_step, "res-iff": lemma_res_iff, "lin": lemma_lin, "inj": lemma_inj, "b3": lemma_b3, "zero-state": lemma_zero_state}


def prove(name):
    """-> (status 'unsat'|'sat'|'unknown', seconds, model text)"""
    r, secs, m = LEMMAS[name]()
    return str(r), secs, (str(m) if m is not None else None)


# ---- executable twins (native cross-check) -------------------------------------------------------
def native_check(name, seed=0, samples=20000):
    import random
    rnd = random.Random(seed)
    if name == "res-iff":
        for _ in range(samples):
            s, h, l = rnd.randrange(65536), rnd.randrange(256), rnd.randrange(256)
            if (step_py(step_py(s, h), l) == 0) != (s == 256 * h + l):
                return False
        for s in range(65536):   # the accepting direction exhaustively
            if step_py(step_py(s, s >> 8), s & 0xFF) != 0:
                return False
        return True
    if name == "lin":
        for _ in range(samples):
            s, d, b, e = rnd.randrange(65536), rnd.randrange(65536), rnd.randrange(256), rnd.randrange(256)
            if step_py(s ^ d, b ^ e) != step_py(s, b) ^ step_py(d, e):
                return False
        return True
    if name == "inj":
        return all(step_py(d, 0) != 0 for d in range(1, 65536))
    if name == "b3":
        for k in range(0, 9):
            for w in range(1, 65536):
                e = w << k
                if step_py(step_py(step_py(0, (e >> 16) & 0xFF), (e >> 8) & 0xFF), e & 0xFF) == 0:
                    return False
        return True
    if name == "zero-state":
        return step_py(0, 0) == 0
    if name == "table-step":
        t = table_py()
        return all(step_py(s_, b_) == (t[(s_ >> 8) ^ b_] ^ ((s_ << 8) & 0xFF00)) for s_ in range(0, 65536, 7) for b_ in range(256))
    raise KeyError(name)
