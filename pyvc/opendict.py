"""Open dictionaries: a dict of which only finitely many entries are known on a path.

`open_dict(name, key_td, mk_key, key_of, value_tds, mk_value)` (spec primitive) yields a dict in
an ARBITRARY state: besides the entries a path has looked at there is an unknown "rest".  A lookup
that matches no known key forks on "is the key in the rest?"; if so the entry is *materialised*:
its value object is built by `mk_value` from fresh symbolic inputs, so it is an arbitrary value of
the stated shape.  Because every harness input that is looked up is universally quantified, a
clause proved about `d.get(j)` for a symbolic `j` holds for every entry of every dict, of any size.

Derived dicts (`{k: v for k, v in d.items() if P(v)}`) share the rest with their source and carry
the filter; the filter is evaluated on the state an entry had when it was materialised, which is the
state it had at derivation time (an unmaterialised object is unreachable, hence unmodified).

Trusted: Python's dict semantics (lookup by __hash__/__eq__, insertion, deletion, comprehension
as a point-wise filter).  The abstraction "keys are equal iff key_of(.) is equal" is not trusted:
each key comparison emits the obligation `dict-key-consistent`.
"""
from __future__ import annotations
import z3

from .values import *  # noqa
from .values import NOT_IMPLEMENTED
from . import ops
from .ops import as_int, zi
from .explore import Unsupported

ABSENT = NOT_IMPLEMENTED


class Entry:
    __slots__ = ("key", "val", "snap")

    def __init__(self, key, val, snap):
        self.key = key
        self.val = val
        self.snap = snap


class OpenBase:
    def __init__(self, name, key_td, mk_key, key_of, value_tds, mk_value):
        self.name = name
        self.key_td = key_td
        self.mk_key = mk_key
        self.key_of = key_of
        self.value_tds = value_tds
        self.mk_value = mk_value
        self.entries = []  # materialised entries, shared by every dict on this base
        self.absent = []   # keys known not to be in the rest
        self.nlookups = 0


class OpenDict:
    """known: entries of this dict; absent: keys known to be missing from this dict."""

    def __init__(self, base, known=None, absent=None, filters=None, synced=0):
        self.base = base
        self.known = list(known or [])
        self.absent = list(absent or [])
        self.filters = list(filters or [])  # (generator node, frame) of dict comprehensions
        self.synced = synced


class OpenItems:
    def __init__(self, d):
        self.d = d


def key_eq(interp, d, a, b):
    """a == b for two key objects, through the real __eq__, with the abstraction check."""
    if a is b:
        return True
    e = interp.symtruth(interp.eq(a, b))
    base = d.base
    if base is not None and base.key_of is not None:
        ka = as_int(interp.call(base.key_of, [a], {}))
        kb = as_int(interp.call(base.key_of, [b], {}))
        same = ops.cmp("==", ka, kb)
        cons = ops.mkbool(ops.zb(e) == ops.zb(same)) if not (isinstance(e, bool) and isinstance(same, bool)) else (e == same)
        if cons is not True:
            interp.ctx.check("dict-key-consistent", False if cons is False else cons.t, kind="auto",
                             detail="__eq__ of dictionary keys differs from equality of the abstract key")
        # hash must agree on equal keys (a dict finds a key only if the hashes are equal)
        ha = interp.builtins["hash"].fn(interp, [a], {})
        hb = interp.builtins["hash"].fn(interp, [b], {})
        hs = interp.symtruth(interp.eq(ha, hb))
        imp = ops.b_or(ops.b_not(e), hs)
        if imp is not True:
            interp.ctx.check("dict-key-hash-consistent", False if imp is False else imp.t, kind="auto",
                             detail="equal dictionary keys with different hashes")
    return e


def _passes(interp, d, key, snap_val):
    from .interp import Frame
    for gen, fr in d.filters:
        nfr = Frame({}, fr.globs, (fr.locals, fr.closure), fr.cls, fr.func, fr.mangle)
        interp.assign(gen.target, (key, snap_val), nfr)
        for c in gen.ifs:
            if not interp.truth(interp.eval(c, nfr)):
                return False
    return True


def sync(interp, d):
    """Bring entries of the shared rest that were materialised through another dict into d."""
    base = d.base
    if base is None:
        return
    while d.synced < len(base.entries):
        ent = base.entries[d.synced]
        d.synced += 1
        if any(k is ent.key for k, _ in d.known) or any(k is ent.key for k in d.absent):
            continue
        shadowed = False
        for k, _ in d.known:
            if interp.truth(key_eq(interp, d, ent.key, k)):
                shadowed = True
                break
        if not shadowed:
            for k in d.absent:
                if interp.truth(key_eq(interp, d, ent.key, k)):
                    shadowed = True
                    break
        if shadowed:
            continue
        from . import lib_models
        if d.filters and not _passes(interp, d, ent.key, lib_models.copy_deepcopy(interp, ent.snap)):
            d.absent.append(ent.key)
        else:
            d.known.append((ent.key, ent.val))


def lookup(interp, d, key):
    from . import contracts, lib_models
    sync(interp, d)
    for k, v in d.known:
        if interp.truth(key_eq(interp, d, key, k)):
            return v
    for k in d.absent:
        if interp.truth(key_eq(interp, d, key, k)):
            return ABSENT
    base = d.base
    if base is None:
        return ABSENT
    for k in base.absent:
        if interp.truth(key_eq(interp, d, key, k)):
            d.absent.append(key)
            return ABSENT
    ctx = interp.ctx
    i = len(base.entries)
    if i >= 6:
        raise Unsupported("more than 6 entries of an open dict materialised on one path")
    base.nlookups += 1
    p = z3.Bool(f"{base.name}#lookup{base.nlookups}.present")
    if ctx.branch(p):
        vals = [contracts.materialize(interp, f"{base.name}#{i}.v{j}", td) for j, td in enumerate(base.value_tds)]
        vobj = interp.call(base.mk_value, vals, {})
        kt = as_int(interp.call(base.key_of, [key], {}))
        ctx.register_input(f"{base.name}#{i}.key", "int", zi(kt))
        ctx.register_input(f"{base.name}#n", "const", i + 1)
        ent = Entry(key, vobj, lib_models.copy_deepcopy(interp, vobj))
        base.entries.append(ent)
        sync(interp, d)
        for k, v in d.known:
            if k is key:
                return v
        return ABSENT
    base.absent.append(key)
    d.absent.append(key)
    return ABSENT


def store(interp, d, key, val):
    sync(interp, d)
    for i, (k, v) in enumerate(d.known):
        if interp.truth(key_eq(interp, d, key, k)):
            d.known[i] = (k, val)
            return
    # Python keeps the old key object when the key exists; when it is in the unknown rest the
    # existing (equal) key stays as well - keys are compared by == everywhere, so this is invisible.
    for i, k in enumerate(d.absent):
        if interp.truth(key_eq(interp, d, key, k)):
            del d.absent[i]
            break
    d.known.append((key, val))


def delete(interp, d, key):
    v = lookup(interp, d, key)
    if v is ABSENT:
        interp.throw("KeyError", key)
    for i, (k, _) in enumerate(d.known):
        if interp.truth(key_eq(interp, d, key, k)):
            del d.known[i]
            break
    d.absent.append(key)
    return v


def derive(interp, src, gen, fr):
    """{k: v for k, v in src.items() if cond}"""
    from . import lib_models
    sync(interp, src)
    nd = OpenDict(src.base, [], list(src.absent), list(src.filters) + [(gen, fr)], src.synced)
    for k, v in src.known:
        # the entry is known: evaluate the condition on its current state
        tmp = OpenDict(None, filters=[(gen, fr)])
        if _passes(interp, tmp, k, v):
            nd.known.append((k, v))
        else:
            nd.absent.append(k)
    return nd


def method(interp, d, name):
    def mk(fn):
        return Builtin("dict." + name, lambda interp, args, kwargs: fn(*args, **kwargs))
    if name == "get":
        def get(k, default=None):
            r = lookup(interp, d, k)
            return default if r is ABSENT else r
        return mk(get)
    if name == "update":
        def update(other):
            if not isinstance(other, PyDict):
                raise Unsupported("dict.update of an open dict with a non-literal argument")
            for k, v in other.pairs:
                store(interp, d, k, v)
        return mk(update)
    if name == "pop":
        def pop(k, *default):
            r = lookup(interp, d, k)
            if r is ABSENT:
                if default:
                    return default[0]
                interp.throw("KeyError", k)
            return delete(interp, d, k)
        return mk(pop)
    if name == "clear":
        def clear():
            d.base = None
            d.known = []
            d.absent = []
            d.filters = []
        return mk(clear)
    if name == "items":
        return mk(lambda: OpenItems(d))
    if name == "setdefault":
        def setdefault(k, default=None):
            r = lookup(interp, d, k)
            if r is ABSENT:
                store(interp, d, k, default)
                return default
            return r
        return mk(setdefault)
    raise Unsupported(f"dict.{name} on a dict of unknown size (open dict)")


def make(interp, name, key_td, mk_key, key_of, value_tds, mk_value):
    tds = list(value_tds.items) if isinstance(value_tds, PyList) else list(value_tds)
    interp.ctx.trusted.add("open dict: Python dict semantics (lookup by __hash__/__eq__, point-wise update/delete/"
                           "comprehension); entries never looked at are unreachable and therefore unmodified")
    return OpenDict(OpenBase(name, key_td, mk_key, key_of, tds, mk_value))
