"""Seeded changes as must-fail canaries: seeded/<name>/{patch.diff,meta.json} applied to a scratch COPY of the working tree
of /repo (under $TMPDIR, removed afterwards; /repo and its git metadata are not touched); the check of the property the change
breaks must then report a violation."""
from __future__ import annotations
import glob
import json
import os
import shutil
import subprocess
import tempfile

VERIF = os.path.dirname(os.path.dirname(os.path.abspath(__file__)))
REPO = os.environ.get("PYVC_REPO", "/repo")


def seeds_for(prop):
    out = []
    for m in sorted(glob.glob(os.path.join(VERIF, "seeded", "*", "meta.json"))):
        try:
            meta = json.load(open(m))
        except Exception:
            continue
        checks = meta.get("checks", {})
        if prop in checks and checks[prop].get("verdict") == "caught":
            out.append((os.path.basename(os.path.dirname(m)), os.path.dirname(m)))
    return out


def scratch_copy(repo=REPO):
    tmp = tempfile.mkdtemp(prefix="pyvc_seed_")
    dst = os.path.join(tmp, "repo")
    shutil.copytree(repo, dst, ignore=shutil.ignore_patterns(".git", "__pycache__", "*.pyc", ".pytest_cache", "docs", "build", "*.egg-info"))
    return tmp, dst


def _family(prop, seed_dir):
    """first path segment of the obligation that caught the seed when it was kept, e.g. 'PusTc.unpack' (None if unknown)"""
    try:
        rec = json.load(open(os.path.join(seed_dir, "meta.json")))["checks"][prop]
        ids = [l.split("obligation=")[-1].split(" ")[0] for l in rec.get("lines", []) if l.startswith("VIOLATION")]
        fam = ids[0].split("/")[0] if ids else None
        if fam and fam.startswith("loop "):
            fam = fam.split(" ")[1].split("#")[0]
        return fam or None
    except Exception:  # noqa
        return None


def run_seed(prop, seed_dir, timeout_s=3600):
    """-> (status, detail): 'caught' | 'missed' | 'undecided' | 'error' | 'stale' (patch no longer applies)"""
    tmp, dst = scratch_copy()
    try:
        p = subprocess.run(["git", "apply", "--unsafe-paths", "--directory=" + dst, os.path.join(seed_dir, "patch.diff")],
                           capture_output=True, text=True, cwd=tmp)
        if p.returncode != 0:
            p = subprocess.run(["patch", "-p1", "-s", "-i", os.path.join(seed_dir, "patch.diff")], capture_output=True, text=True, cwd=dst)
            if p.returncode != 0:
                return "stale", (p.stdout + p.stderr)[-300:]
        env = dict(os.environ, PYVC_REPO=dst, PYVC_EVIDENCE_DIR=os.path.join(tmp, "evidence"), PYVC_NO_CANARIES="1")
        # first only the harness family that caught this change when it was kept (recorded in meta.json): an alarm there is an
        # alarm of the check; if that family is quiet now the whole check decides
        fam = _family(prop, seed_dir)
        if fam:
            p = subprocess.run([os.path.join(VERIF, "check"), prop, "--tier", "quick", "--only", fam], capture_output=True, text=True, env=env,
                               timeout=timeout_s)
            if p.returncode == 1:
                lines = [l for l in p.stdout.splitlines() if l.startswith("VIOLATION")]
                return "caught", f"(--only {fam}) " + "; ".join(l.split("obligation=")[-1] for l in lines[:3])
        p = subprocess.run([os.path.join(VERIF, "check"), prop, "--tier", "quick"], capture_output=True, text=True, env=env, timeout=timeout_s)
        lines = [l for l in p.stdout.splitlines() if l.startswith("VIOLATION")]
        if p.returncode == 1:
            return "caught", "; ".join(l.split("obligation=")[-1] for l in lines[:3])
        if p.returncode == 0:
            return "missed", ""
        if p.returncode == 2:
            return "undecided", p.stdout[-300:]
        return "error", p.stdout[-300:]
    except subprocess.TimeoutExpired:
        return "undecided", "timeout"
    finally:
        shutil.rmtree(tmp, ignore_errors=True)
