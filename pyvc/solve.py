"""Discharging one obligation: z3 API first, then cvc5 and z3-4.8 on the SMT-LIB export."""
from __future__ import annotations
import os
import subprocess
import tempfile
import time
import z3


class Res:
    __slots__ = ("status", "model", "backend", "detail")

    def __init__(self, status, model=None, backend="", detail=""):
        self.status = status
        self.model = model
        self.backend = backend
        self.detail = detail


def _seq_to_list(v):
    """z3 model value of sort Seq(Int) -> list[int] (or None)."""
    out = []

    def walk(e):
        if z3.is_app(e):
            k = e.decl().kind()
            if k == z3.Z3_OP_SEQ_EMPTY:
                return True
            if k == z3.Z3_OP_SEQ_UNIT:
                a = e.arg(0)
                if z3.is_int_value(a):
                    out.append(a.as_long())
                    return True
                return False
            if k == z3.Z3_OP_SEQ_CONCAT:
                return all(walk(c) for c in e.children())
        return False

    return out if walk(v) else None


def extract_model(m, inputs):
    vals = {}
    for name, kind, payload in inputs:
        try:
            if kind == "int":
                v = m.eval(payload, model_completion=True)
                vals[name] = v.as_long() if z3.is_int_value(v) else str(v)
            elif kind == "bool":
                v = m.eval(payload, model_completion=True)
                vals[name] = bool(z3.is_true(v))
            elif kind == "enum":
                v = m.eval(payload[1], model_completion=True)
                vals[name] = {"enum": payload[0], "value": v.as_long() if z3.is_int_value(v) else str(v)}
            elif kind == "bytes":
                v = m.eval(payload, model_completion=True)
                lst = _seq_to_list(v)
                if lst is None:
                    vals[name] = {"bytes": None, "raw": str(v)[:200]}
                else:
                    vals[name] = {"bytes": bytes(x % 256 for x in lst).hex(), "raw_oob": [x for x in lst if not 0 <= x <= 255][:4]}
            elif kind == "pairlist":
                v = m.eval(payload, model_completion=True)
                pairs = []

                def walkp(e):
                    k = e.decl().kind()
                    if k == z3.Z3_OP_SEQ_EMPTY:
                        return True
                    if k == z3.Z3_OP_SEQ_UNIT:
                        t = e.arg(0)
                        if t.num_args() == 2 and all(z3.is_int_value(t.arg(i)) for i in range(2)):
                            pairs.append([t.arg(0).as_long(), t.arg(1).as_long()])
                            return True
                        return False
                    if k == z3.Z3_OP_SEQ_CONCAT:
                        return all(walkp(c) for c in e.children())
                    return False
                vals[name] = {"pairlist": pairs if walkp(v) else None}
            elif kind == "intlist":
                v = m.eval(payload, model_completion=True)
                vals[name] = {"intlist": _seq_to_list(v)}
            elif kind == "str":
                v = m.eval(payload, model_completion=True)
                lst = _seq_to_list(v)
                vals[name] = {"str_utf8": bytes(x % 256 for x in lst).hex() if lst is not None else None}
                try:
                    # character count of the abstract string in this model (native replay builds a real string
                    # with that many characters and octets, see helper/native.py)
                    isort = z3.IntSort()
                    c = m.eval(z3.Function("utf8_chars", z3.SeqSort(isort), isort)(payload), model_completion=True)
                    if z3.is_int_value(c):
                        vals[name]["chars"] = c.as_long()
                except Exception:
                    pass
            elif kind == "text":
                v = m.eval(payload, model_completion=True)
                lst = _seq_to_list(v)
                vals[name] = {"text": [x % 128 for x in lst] if lst is not None else None}
            elif kind == "real":
                v = m.eval(payload, model_completion=True)
                try:
                    vals[name] = {"real": [v.numerator_as_long(), v.denominator_as_long()]}
                except Exception:
                    vals[name] = {"real": str(v)}
            elif kind == "const":
                vals[name] = payload
        except Exception as e:  # pragma: no cover
            vals[name] = f"<model extraction failed: {e}>"
    return vals


def _run_cli(cmd, text, timeout_s):
    with tempfile.NamedTemporaryFile("w", suffix=".smt2", delete=False, dir=os.environ.get("PYVC_TMP")) as f:
        f.write(text)
        path = f.name
    try:
        p = subprocess.run(cmd + [path], capture_output=True, text=True, timeout=timeout_s + 5)
        out = p.stdout.strip().splitlines()
        return out[0].strip() if out else "unknown"
    except subprocess.TimeoutExpired:
        return "unknown"
    except Exception:
        return "unknown"
    finally:
        try:
            os.unlink(path)
        except OSError:
            pass


def check_valid(pc, goal, cfg, inputs=()):
    """Is (and pc) => goal valid?  status 'unsat' = valid (discharged), 'sat' = refuted."""
    s = z3.Solver()
    s.set("timeout", cfg.check_timeout_ms)
    for a in pc:
        s.add(a)
    s.add(z3.Not(goal))
    r = s.check()
    if r == z3.unsat:
        return Res("unsat", backend="z3-5.1")
    if r == z3.sat:
        return Res("sat", model=extract_model(s.model(), inputs), backend="z3-5.1")
    detail = s.reason_unknown()
    if not cfg.use_fallback:
        return Res("unknown", backend="z3-5.1", detail=detail)
    text = "(set-logic ALL)\n" + s.to_smt2()
    tsec = max(1, cfg.check_timeout_ms // 1000)
    r2 = _run_cli(["/usr/bin/cvc5", "--strings-exp", f"--tlimit={tsec * 1000}"], text, tsec)
    if r2 == "unsat":
        return Res("unsat", backend="cvc5-1.0.3")
    r3 = _run_cli(["/usr/bin/z3", f"-T:{tsec}"], s.to_smt2(), tsec)
    if r3 == "unsat":
        return Res("unsat", backend="z3-4.8.12")
    if r2 == "sat" or r3 == "sat":
        # retry the API with a larger budget to obtain a model
        s.set("timeout", cfg.check_timeout_ms * 3)
        if s.check() == z3.sat:
            return Res("sat", model=extract_model(s.model(), inputs), backend="z3-5.1")
        return Res("sat", model=None, backend="cvc5-1.0.3" if r2 == "sat" else "z3-4.8.12")
    # last resort before "undecided": a fresh solver object (the sequence solver degrades after a timeout), another seed,
    # three times the budget.  Verdicts must not flip because the machine is busy.
    s2 = z3.Solver()
    s2.set("timeout", cfg.check_timeout_ms * 3)
    s2.set("random_seed", 7)
    for a in pc:
        s2.add(a)
    s2.add(z3.Not(goal))
    r4 = s2.check()
    if r4 == z3.unsat:
        return Res("unsat", backend="z3-5.1(retry)")
    if r4 == z3.sat:
        return Res("sat", model=extract_model(s2.model(), inputs), backend="z3-5.1(retry)")
    return Res("unknown", backend="z3-5.1+cvc5+z3-4.8", detail=detail)
