"""Builtin functions, builtin types, stub modules, enum and dataclass machinery."""
from __future__ import annotations
import ast
import z3

from .values import *  # noqa
from .values import NOT_IMPLEMENTED
from . import ops
from .ops import as_int, is_intlike
from .explore import Unsupported, PathInfeasible


def _b(name, type_name=None):
    def deco(fn):
        return Builtin(name, lambda interp, args, kwargs: fn(interp, *args, **kwargs), type_name)
    return deco


def make_builtins(interp):
    from . import builtins_model as bm
    from . import lib_models
    ns = {}
    obj = ClassV("object", [], {}, "builtins", "object")
    obj.mro = [obj]
    obj.builtin = "object"
    ns["object"] = obj

    def obj_init(interp, args, kwargs):
        return None
    oi = Builtin("object.__init__", obj_init)
    oi.is_method = True
    obj.ns["__init__"] = oi

    @_b("len")
    def len_(interp, v):
        if type(v).__name__ in ("OpenDict", "OpenItems"):
            raise Unsupported("len() of a dict of unknown size (open dict)")
        if isinstance(v, BytesV):
            return ops.rope_len(v.rope)
        if isinstance(v, PyList) and v.prefix is not None:
            from . import loops
            return loops.open_list_len(interp, v)
        if isinstance(v, PyDeque) and v.rest is not None:
            return ops.add(ops.mk(v.rest[1], 0, None, 0), len(v._items))
        if isinstance(v, (PyList, PyDeque, PySet)):
            return len(v.items)
        if isinstance(v, PyDict):
            return len(v.pairs)
        if isinstance(v, (str, tuple)):
            return len(v)
        if isinstance(v, StrV):
            return v.chars
        if isinstance(v, range):
            return len(v)
        if isinstance(v, Instance):
            f, _ = interp.class_lookup(v.cls, "__len__")
            if f is not None:
                return interp.call(interp.bind(v, f), [], {})
        r = lib_models.special_len(interp, v)
        if r is not NOT_IMPLEMENTED:
            return r
        interp.throw("TypeError", f"object of type '{bm.type_name(interp, v)}' has no len()")
    ns["len"] = len_

    @_b("isinstance")
    def isinstance_(interp, v, t):
        return interp.isinstance(v, t)
    ns["isinstance"] = isinstance_

    @_b("issubclass")
    def issubclass_(interp, c, t):
        if not isinstance(c, ClassV):
            return False
        return interp.is_subclass(c, t)
    ns["issubclass"] = issubclass_

    @_b("int", "int")
    def int_(interp, v=0, base=None):
        if base is not None or isinstance(v, str):
            if isinstance(v, str):
                try:
                    return int(v, base if base is not None else 10)
                except ValueError:
                    interp.throw("ValueError", "invalid literal for int()")
            return lib_models.int_of_text(interp, v, base)
        if is_intlike(v):
            return as_int(v)
        if isinstance(v, (float, SReal)):
            from . import floats_model
            return floats_model.trunc(interp, v)
        if isinstance(v, Instance):
            f, _ = interp.class_lookup(v.cls, "__int__")
            if f is not None:
                return interp.call(interp.bind(v, f), [], {})
            f, _ = interp.class_lookup(v.cls, "__index__")
            if f is not None:
                return interp.call(interp.bind(v, f), [], {})
        if isinstance(v, (StrV, FStrV)):
            return lib_models.int_of_text(interp, v, base)
        interp.throw("TypeError", "int() argument must be a string, a bytes-like object or a real number")
    ns["int"] = int_

    @_b("bool", "bool")
    def bool_(interp, v=False):
        return interp.symtruth(v)
    ns["bool"] = bool_

    @_b("float", "float")
    def float_(interp, v=0.0):
        from . import floats_model
        return floats_model.to_float(interp, v)
    ns["float"] = float_

    @_b("str", "str")
    def str_(interp, v=""):
        if isinstance(v, (str, StrV, FStrV)):
            return v
        if isinstance(v, bool) or isinstance(v, int) or v is None or isinstance(v, float):
            return str(v)
        if isinstance(v, Instance):
            f, owner = interp.class_lookup(v.cls, "__str__")
            if f is not None and owner is not interp.object_cls:
                return interp.call(interp.bind(v, f), [], {})
        return FStrV([(v, ord("s"), "")])
    ns["str"] = str_

    @_b("repr")
    def repr_(interp, v):
        if isinstance(v, (int, str, float)) or v is None:
            return repr(v)
        return FStrV([(v, ord("r"), "")])
    ns["repr"] = repr_

    def mk_bytes(kind):
        def f(interp, v=None, encoding=None, errors=None):
            if v is None:
                return BytesV([], kind)
            if isinstance(v, (str, StrV)):
                if encoding is None:
                    interp.throw("TypeError", "string argument without an encoding")
                return BytesV(list(interp.getattr(v, "encode").fn(interp, [encoding], {}).rope), kind)
            if is_intlike(v) and not isinstance(v, (bool, SBool)):
                n = as_int(v)
                if isinstance(n, SInt):
                    n = bm.concretize(interp, n, 64)
                if n < 0:
                    interp.throw("ValueError", "negative count")
                return BytesV([0] * n, kind)
            return BytesV(bm.to_bytes_rope(interp, v), kind)
        return f
    ns["bytes"] = _b("bytes", "bytes")(mk_bytes("bytes"))
    ns["bytearray"] = _b("bytearray", "bytearray")(mk_bytes("bytearray"))

    @_b("list", "list")
    def list_(interp, v=None):
        return PyList(bm.iterate(interp, v) if v is not None else [])
    ns["list"] = list_

    @_b("tuple", "tuple")
    def tuple_(interp, v=None):
        return tuple(bm.iterate(interp, v)) if v is not None else ()
    ns["tuple"] = tuple_

    @_b("dict", "dict")
    def dict_(interp, v=None, **kw):
        d = PyDict()
        if isinstance(v, PyDict):
            d.pairs = list(v.pairs)
        elif v is not None:
            for it in bm.iterate(interp, v):
                k, val = bm.iterate(interp, it)
                interp.dict_set(d, k, val)
        for k, val in kw.items():
            interp.dict_set(d, k, val)
        return d
    ns["dict"] = dict_

    @_b("set", "set")
    def set_(interp, v=None):
        s = PySet()
        if v is not None:
            for x in bm.iterate(interp, v):
                if not interp.truth(interp.contains(s, x)):
                    s.items.append(x)
        return s
    ns["set"] = set_
    ns["frozenset"] = set_

    @_b("range")
    def range_(interp, *args):
        cs = [bm.concretize(interp, a, 70) for a in args]
        return range(*cs)
    ns["range"] = range_

    @_b("enumerate")
    def enumerate_(interp, it, start=0):
        return PyList([(i + start, v) for i, v in enumerate(bm.iterate(interp, it))])
    ns["enumerate"] = enumerate_

    @_b("zip")
    def zip_(interp, *its):
        return PyList([tuple(t) for t in zip(*[bm.iterate(interp, i) for i in its])])
    ns["zip"] = zip_

    @_b("reversed")
    def reversed_(interp, it):
        return PyList(list(reversed(bm.iterate(interp, it))))
    ns["reversed"] = reversed_

    @_b("pow")
    def pow_(interp, a, b, m=None):
        r = bm.int_pow(interp, a, b)
        if m is not None:
            return ops.mod(interp, r, m)
        return r
    ns["pow"] = pow_

    @_b("abs")
    def abs_(interp, v):
        if isinstance(v, (float, SReal)):
            from . import floats_model
            return floats_model.real_abs(interp, v)
        if isinstance(v, Instance):
            return interp.call(interp.getattr(v, "__abs__"), [], {})
        v = as_int(v)
        if isinstance(v, int):
            return abs(v)
        if v.lo is not None and v.lo >= 0:
            return v
        return ops.mk(z3.If(v.t >= 0, v.t, -v.t), 0, None, 0)
    ns["abs"] = abs_

    def minmax(is_min):
        def f(interp, *args, **kw):
            items = bm.iterate(interp, args[0]) if len(args) == 1 else list(args)
            if not items:
                if "default" in kw:
                    return kw["default"]
                interp.throw("ValueError", "arg is an empty sequence")
            best = items[0]
            for x in items[1:]:
                c = bm.order_cmp(interp, "<" if is_min else ">", x, best)
                if isinstance(c, SBool) and is_intlike(x) and is_intlike(best):
                    xa, ba = as_int(x), as_int(best)
                    lo = hi = None
                    best = ops.mk(z3.If(c.t, ops.zi(xa), ops.zi(ba)), lo, hi, 0)
                elif interp.truth(c):
                    best = x
            return best
        return f
    ns["min"] = _b("min")(minmax(True))
    ns["max"] = _b("max")(minmax(False))

    @_b("sum")
    def sum_(interp, it, start=0):
        r = start
        for x in bm.iterate(interp, it):
            r = interp.binop(ast.Add(), r, x)
        return r
    ns["sum"] = sum_

    @_b("all")
    def all_(interp, it):
        return ops.b_and(*[interp.symtruth(x) for x in bm.iterate(interp, it)])
    ns["all"] = all_

    @_b("any")
    def any_(interp, it):
        return ops.b_or(*[interp.symtruth(x) for x in bm.iterate(interp, it)])
    ns["any"] = any_

    @_b("print")
    def print_(interp, *a, **k):
        return None
    ns["print"] = print_

    @_b("hash")
    def hash_(interp, v):
        if isinstance(v, Instance):
            f, owner = interp.class_lookup(v.cls, "__hash__")
            if f is not None and owner is not interp.object_cls:
                if f is None:
                    interp.throw("TypeError", "unhashable type")
                return interp.call(interp.bind(v, f), [], {})
            return ("id-hash", id(v))
        # hash of a builtin value: modelled as the value itself (equal values <=> equal hashes)
        return ("hash", v)
    ns["hash"] = hash_

    @_b("id")
    def id_(interp, v):
        return id(v)
    ns["id"] = id_

    @_b("type", "type")
    def type_(interp, v, *rest):
        if rest:
            raise Unsupported("three-argument type()")
        return interp.type_of(v)
    ns["type"] = type_

    @_b("getattr")
    def getattr_(interp, o, name, *default):
        from .interp import PyRaise
        try:
            return interp.getattr(o, name)
        except PyRaise as pr:
            if default and interp.isinstance(pr.exc, interp.exc_classes["AttributeError"]):
                return default[0]
            raise
    ns["getattr"] = getattr_

    @_b("setattr")
    def setattr_(interp, o, name, v):
        interp.setattr(o, name, v)
    ns["setattr"] = setattr_

    @_b("hasattr")
    def hasattr_(interp, o, name):
        from .interp import PyRaise
        try:
            interp.getattr(o, name)
            return True
        except PyRaise as pr:
            if interp.isinstance(pr.exc, interp.exc_classes["AttributeError"]):
                return False
            raise
    ns["hasattr"] = hasattr_

    @_b("callable")
    def callable_(interp, o):
        return isinstance(o, (FuncV, BoundMethod, Builtin, ClassV))
    ns["callable"] = callable_

    @_b("round")
    def round_(interp, v, nd=None):
        from . import floats_model
        return floats_model.round_(interp, v, nd)
    ns["round"] = round_

    @_b("hex")
    def hex_(interp, v):
        v = as_int(v)
        if isinstance(v, int):
            return hex(v)
        return FStrV([(v, -1, "#x")])
    ns["hex"] = hex_

    @_b("sorted")
    def sorted_(interp, it, **kw):
        items = bm.iterate(interp, it)
        if all(isinstance(x, (int, str)) for x in items) and not kw:
            return PyList(sorted(items))
        raise Unsupported("sorted on symbolic items")
    ns["sorted"] = sorted_

    @_b("divmod")
    def divmod_(interp, a, b):
        return (ops.floordiv(interp, a, b), ops.mod(interp, a, b))
    ns["divmod"] = divmod_

    @_b("open")
    def open_(interp, *a, **k):
        from . import fs_model
        return fs_model.open_(interp, *a, **k)
    ns["open"] = open_

    @_b("property")
    def property_(interp, fget=None, fset=None, *a):
        p = PropertyV(fget, fset)
        return p
    ns["property"] = property_

    @_b("classmethod")
    def classmethod_(interp, f):
        return ClassMethodV(f)
    ns["classmethod"] = classmethod_

    @_b("staticmethod")
    def staticmethod_(interp, f):
        return StaticMethodV(f)
    ns["staticmethod"] = staticmethod_

    @_b("super")
    def super_(interp, cls, obj):
        return SuperV(cls, obj)
    ns["super"] = super_

    @_b("iter")
    def iter_(interp, v):
        return PyList(bm.iterate(interp, v))
    ns["iter"] = iter_

    @_b("next")
    def next_(interp, it, *default):
        if isinstance(it, Instance):
            f, _ = interp.class_lookup(it.cls, "__next__")
            if f is not None:
                return interp.call(interp.bind(it, f), [], {})
            interp.throw("TypeError", "object is not an iterator")
        raise Unsupported("next() on a builtin iterator")
    ns["next"] = next_

    @_b("ord")
    def ord_(interp, c):
        return ord(c)
    ns["ord"] = ord_

    @_b("chr")
    def chr_(interp, c):
        return chr(bm.concretize(interp, c))
    ns["chr"] = chr_

    @_b("bin")
    def bin_(interp, v):
        v = as_int(v)
        if isinstance(v, int):
            return bin(v)
        return FStrV([(v, -1, "#b")])
    ns["bin"] = bin_

    ns["NoneType"] = Builtin("NoneType", lambda interp, a, k: None, "NoneType")
    ns["deque_type"] = Builtin("deque", lambda interp, a, k: PyDeque(bm.iterate(interp, a[0]) if a else []), "deque")
    ns["NotImplemented"] = NOT_IMPLEMENTED
    ns["Ellipsis"] = Dummy("...")
    ns["True"] = True
    ns["False"] = False
    ns["None"] = None
    ns["__debug__"] = True
    from . import spec_prims
    ns.update(spec_prims.primitives(interp))
    return ns


# ------------------------------------------------------------------------------------------------
# enum
# ------------------------------------------------------------------------------------------------

def finish_enum(interp, cls):
    """Turn the plain assignments of an enum class body into members."""
    members = {}
    for k, v in list(cls.ns.items()):
        if k.startswith("_") or isinstance(v, (FuncV, ClassMethodV, StaticMethodV, PropertyV, Builtin)):
            continue
        if isinstance(v, Dummy):
            continue
        if isinstance(v, tuple) and len(v) == 1 and v[0] == "auto":
            v = len(members) + 1
        # aliases: same value -> same member
        alias = None
        for m in members.values():
            if m.v == v and type(m.v) is type(v):
                alias = m
                break
        m = alias if alias is not None else EnumV(cls, v, k)
        members[k] = m
        cls.ns[k] = m
    cls.members = members


def enum_call(interp, cls, v):
    if isinstance(v, EnumV) and v.cls is cls:
        return v
    if cls.is_intenum or is_intlike(v):
        if not is_intlike(v):
            interp.throw("ValueError", f"{v!r} is not a valid {cls.name}")
        iv = as_int(v)
        uniq = []
        for m in cls.members.values():
            if m not in uniq:
                uniq.append(m)
        if isinstance(iv, int):
            for m in uniq:
                if m.v == iv:
                    return m
            interp.throw("ValueError", f"{iv} is not a valid {cls.name}")
        vals = sorted(m.v for m in uniq if isinstance(m.v, int))
        member = ops.b_or(*[ops.cmp("==", iv, c) for c in vals])
        if not interp.truth(member):
            interp.throw("ValueError", f"not a valid {cls.name}")
        lo, hi = min(vals), max(vals)
        return EnumV(cls, SInt(iv.t, lo, hi, 0), None)
    for m in cls.members.values():
        if interp.truth(interp.eq(m.v, v)):
            return m
    interp.throw("ValueError", f"{v!r} is not a valid {cls.name}")


# ------------------------------------------------------------------------------------------------
# dataclasses
# ------------------------------------------------------------------------------------------------
class DCField:
    def __init__(self, default=NOT_IMPLEMENTED, default_factory=NOT_IMPLEMENTED, compare=True, init=True):
        self.default = default
        self.default_factory = default_factory
        self.compare = compare
        self.init = init


def make_dataclass(interp, cls, eq=True, frozen=False, **kw):
    fields = []
    for c in reversed(interp.mro(cls)):
        if c.dataclass_fields is not None and c is not cls:
            for f in c.dataclass_fields:
                fields = [x for x in fields if x[0] != f[0]] + [f]
    for name, st in getattr(cls, "annotations", []):
        ann = st.annotation
        txt = ast.unparse(ann)
        if "ClassVar" in txt:
            continue
        spec = DCField()
        if st.value is not None:
            v = cls.ns.get(name, NOT_IMPLEMENTED)
            if isinstance(v, DCField):
                spec = v
                if v.default is NOT_IMPLEMENTED:
                    cls.ns.pop(name, None)
                else:
                    cls.ns[name] = v.default
            else:
                spec = DCField(default=v)
        fields = [x for x in fields if x[0] != name] + [(name, spec)]
    cls.dataclass_fields = fields
    cls.frozen = frozen

    def init(interp, args, kwargs):
        self = args[0]
        pos = list(args[1:])
        kwargs = dict(kwargs)
        names = [n for n, s in fields if s.init]
        if len(pos) > len(names):
            interp.throw("TypeError", f"{cls.name}.__init__() takes {len(names)} positional arguments")
        for (n, s) in fields:
            if not s.init:
                continue
            if pos:
                val = pos.pop(0)
                if n in kwargs:
                    interp.throw("TypeError", f"multiple values for argument '{n}'")
            elif n in kwargs:
                val = kwargs.pop(n)
            elif s.default is not NOT_IMPLEMENTED:
                val = s.default
            elif s.default_factory is not NOT_IMPLEMENTED:
                val = interp.call(s.default_factory, [], {})
            else:
                interp.throw("TypeError", f"{cls.name}.__init__() missing required argument '{n}'")
            self.fields[n] = val
        for (n, s) in fields:
            if not s.init:
                if s.default is not NOT_IMPLEMENTED:
                    self.fields[n] = s.default
                elif s.default_factory is not NOT_IMPLEMENTED:
                    self.fields[n] = interp.call(s.default_factory, [], {})
        if kwargs:
            interp.throw("TypeError", f"{cls.name}.__init__() got an unexpected keyword argument '{next(iter(kwargs))}'")
        pi, _ = interp.class_lookup(cls, "__post_init__")
        if pi is not None:
            interp.call(interp.bind(self, pi), [], {})
        return None

    if "__init__" not in cls.ns:
        ini = Builtin(f"{cls.name}.__init__", init)
        ini.is_method = True
        cls.ns["__init__"] = ini

    def eq_(interp, args, kwargs):
        a, b = args
        if not (isinstance(b, Instance) and b.cls is a.cls):
            return NOT_IMPLEMENTED
        ta = tuple(interp.getattr(a, n) for n, s in fields if s.compare)
        tb = tuple(interp.getattr(b, n) for n, s in fields if s.compare)
        return interp.eq(ta, tb)

    if eq and "__eq__" not in cls.ns:
        e = Builtin(f"{cls.name}.__eq__", eq_)
        e.is_method = True
        cls.ns["__eq__"] = e
        if not frozen and "__hash__" not in cls.ns:
            cls.ns["__hash__"] = None
    if frozen and "__hash__" not in cls.ns:
        def hash_(interp, args, kwargs):
            a = args[0]
            return ("hash", tuple(interp.getattr(a, n) for n, s in fields if s.compare))
        h = Builtin(f"{cls.name}.__hash__", hash_)
        h.is_method = True
        cls.ns["__hash__"] = h
    return cls


# ------------------------------------------------------------------------------------------------
# special instantiation
# ------------------------------------------------------------------------------------------------

def instantiate_special(interp, cls, args, kwargs):
    if cls.is_enum:
        if len(args) != 1:
            interp.throw("TypeError", "enum call takes one argument")
        return enum_call(interp, cls, args[0])
    for name, v in list(_abstracts(interp, cls)):
        interp.throw("TypeError", f"Can't instantiate abstract class {cls.name} with abstract method {name}")
    from . import lib_models
    return lib_models.instantiate_special(interp, cls, args, kwargs)


def _abstracts(interp, cls):
    cache = getattr(cls, "_abstract_cache", None)
    if cache is not None:
        return cache
    out = []
    seen = set()
    for c in interp.mro(cls):
        for k, v in c.ns.items():
            if k in seen:
                continue
            seen.add(k)
            fs = interp._funcs_of(v)
            if isinstance(v, PropertyV) and getattr(v, "abstract", False):
                out.append((k, v))
            elif any(getattr(f, "abstract", False) for f in fs):
                out.append((k, v))
    cls._abstract_cache = out
    return out


# ------------------------------------------------------------------------------------------------
# stub modules
# ------------------------------------------------------------------------------------------------

def stub_module(interp, name):
    from . import lib_models
    return lib_models.stub_module(interp, name)
