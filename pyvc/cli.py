"""./check <property> --tier quick|thorough [--replay file]"""
from __future__ import annotations
import argparse
import glob
import json
import multiprocessing as mp
import os
import re
import subprocess
import sys
import time

VERIF = os.path.dirname(os.path.dirname(os.path.abspath(__file__)))
REPO = os.environ.get("PYVC_REPO", "/repo")
NATIVE_PY = os.environ.get("PYVC_NATIVE_PY", "/venv/bin/python")

_LOADED = {}


def contract_modules():
    mods = []
    for p in sorted(glob.glob(os.path.join(VERIF, "contracts", "*.py"))):
        b = os.path.basename(p)[:-3]
        if not b.startswith("_"):
            mods.append(b)
    return mods


def module_mentions(modname, prop):
    with open(os.path.join(VERIF, "contracts", modname + ".py")) as f:
        return prop in f.read()


def _cfg(tier, overrides=None):
    from .explore import Config
    if tier == "thorough":
        return Config(tier=tier, check_timeout_ms=60000, branch_timeout_ms=10000, max_paths=8000)
    return Config(tier=tier, check_timeout_ms=30000, branch_timeout_ms=4000)


def _load(modname, tier, overrides_key=None, overrides=None):
    from . import contracts
    key = (modname, tier, overrides_key)
    if key not in _LOADED:
        _LOADED[key] = contracts.load(modname, _cfg(tier), overrides=overrides)
    return _LOADED[key]


def list_task(args):
    modname, tier, prop = args
    try:
        L = _load(modname, tier)
        return modname, [(o["name"], o["props"], o["kind"], int(o["opts"].get("shards", 1) or 1)) for o in L.obligations()
                         if prop in o["props"] and (tier == "thorough" or o["opts"].get("tier") != "thorough")], None
    except Exception as e:  # noqa
        import traceback
        return modname, [], f"{type(e).__name__}: {e}\n{traceback.format_exc(limit=6)}"


def run_task(args):
    modname, name, tier, ov_key, ov = args[:5]
    shard = args[5] if len(args) > 5 else None
    from . import contracts
    try:
        L = _load(modname, tier, ov_key, ov)
        for o in L.obligations():
            if o["name"] == name and o["opts"].get("native_only"):
                return native_only_result(modname, o)
            if o["name"] == name:
                r = contracts.run_harness(L, o, _cfg(tier), shard=shard)
                r["module"] = modname
                r["hashes"] = contracts.func_hashes(L.interp, r["inlined"])
                return r
        return {"module": modname, "name": name, "problems": ["error:obligation disappeared"], "clauses": [], "paths": 0, "paths_ok": 0}
    except Exception as e:  # noqa
        import traceback
        return {"module": modname, "name": name, "problems": [f"error:{type(e).__name__}: {e}\n{traceback.format_exc(limit=8)}"],
                "clauses": [], "paths": 0, "paths_ok": 0, "n_problems": 1}


def native_only_result(modname, ob):
    """Bounded stand-in: a harness that is only executed natively (CPython, real library), on every run."""
    t0 = time.time()
    ans = native_batch([{"module": modname, "name": ob["name"], "inputs": {}}])[0]
    clauses = []
    problems = []
    if "error" in ans:
        problems.append("error:native harness failed: " + str(ans["error"])[:300])
    elif ans.get("escaped"):
        problems.append("error:native harness raised " + str(ans["escaped"])[:300])
    labels = {}
    for l, ok in ans.get("labels", []):
        labels[l] = labels.get(l, True) and ok
    for l, ok in labels.items():
        clauses.append({"label": l, "kind": "native", "paths": 1, "discharged": 1 if ok else 0,
                        "failed": [] if ok else [{"model": {}, "detail": "native bounded check failed", "backend": "cpython"}],
                        "unknown": [], "backends": {"cpython-native": 1}, "secs": 0.0})
    return {"module": modname, "props": ob["props"], "name": ob["name"], "kind": ob["kind"], "paths": 1, "paths_ok": 1,
            "clauses": clauses, "problems": problems, "n_problems": len(problems), "trusted": [], "covers": [], "notes": [],
            "summaries_used": [], "inlined": [], "verifies": [], "solver_secs": 0.0, "solver_calls": 0,
            "wall_s": round(time.time() - t0, 3), "bounded": ob["opts"].get("bounded") or "native execution only", "hashes": {}}


def native_batch(requests, repo=REPO):
    """Run replay requests natively; returns list of answers."""
    if not requests:
        return []
    env = dict(os.environ)
    env["PYVC_REPO"] = repo
    p = subprocess.run([NATIVE_PY, os.path.join(VERIF, "helper", "native.py"), "run", "--repo", repo],
                       input="\n".join(json.dumps(r) for r in requests) + "\n", capture_output=True, text=True, env=env, timeout=600)
    out = []
    for line in p.stdout.splitlines():
        try:
            out.append(json.loads(line))
        except Exception:
            out.append({"error": "unparsable native answer: " + line[:200]})
    while len(out) < len(requests):
        out.append({"error": "native helper gave no answer: " + p.stderr[-400:]})
    return out


def load_known_findings():
    path = os.path.join(VERIF, "KNOWN_FINDINGS.json")
    if not os.path.exists(path):
        return {"findings": [], "fixed": []}
    return json.load(open(path))


def slug(s):
    return re.sub(r"[^A-Za-z0-9_.-]+", "_", s)


def load_timings():
    """wall seconds of each harness in an earlier run (tools/gen_timings.py): scheduling order and automatic sharding"""
    try:
        return json.load(open(os.path.join(VERIF, "timings.json")))
    except Exception:
        return {}


def run_check(prop, tier, seed, jobs=None, overrides=None, quiet=False, repo=REPO, only=None):
    t0 = time.time()
    timings = load_timings()
    jobs = jobs or min(16, os.cpu_count() or 4)
    mods = [m for m in contract_modules() if module_mentions(m, prop)]
    ov_key = None
    if overrides:
        ov_key = str(sorted((k, hash(v)) for k, v in overrides.items()))
    tasks = []
    listing_errors = []
    for (m, _, _), status, res in run_parallel(list_task, [(m, tier, prop) for m in mods], jobs, 300):
        if status != "ok":
            listing_errors.append((m, f"listing the obligations {status}"))
            continue
        modname, obs, err = res
        if err:
            listing_errors.append((modname, err))
        for name, props, kind, shards in obs:
            if only and only not in name:
                continue
            if shards > 1:
                for k in range(shards):
                    tasks.append((modname, name, tier, ov_key, overrides, (k, shards)))
            elif timings.get(name, 0) > 90:
                n = min(6, int(timings[name] // 60) + 1)       # slow harness: split by the first decisions of a path
                for k in range(n):
                    tasks.append((modname, name, tier, ov_key, overrides, (k, n, "prefix", 8)))
            else:
                tasks.append((modname, name, tier, ov_key, overrides))
    tasks.sort(key=lambda t: -timings.get(t[1], 30))      # longest first
    results = []
    budget = int(os.environ.get("PYVC_TASK_TIMEOUT", "0") or 0) or (1200 if tier == "quick" else 7200)
    for t, status, res in run_parallel(run_task, tasks, jobs, budget):
        if status == "ok":
            results.append(res)
        else:
            # a worker that died or ran out of time decides nothing: undecided / checker error, never a violation
            kind = "unsupported:" if status.startswith("timeout") else "error:"
            results.append({"module": t[0], "name": t[1], "problems": [f"{kind}harness worker {status}"], "clauses": [],
                            "paths": 0, "paths_ok": 0, "n_problems": 1})
    results = merge_shards(results)
    results.sort(key=lambda r: (r["module"], r["name"]))
    return finish(prop, tier, seed, results, listing_errors, t0, quiet, repo, canaries=not only)


def _child_main(func, arg, conn):
    try:
        conn.send(func(arg))
    except BaseException as e:  # noqa
        import traceback
        try:
            conn.send({"__child_error__": f"{type(e).__name__}: {e}\n{traceback.format_exc(limit=6)}"})
        except Exception:
            pass
    finally:
        conn.close()


def run_parallel(func, args, jobs, timeout_s):
    """Run func(arg) for every arg, each in its own forked process (a crash or hang of one task cannot block or lose
    the others).  Yields (arg, status, result) with status 'ok' | 'died (exit code N)' | 'timeout after N s'."""
    import multiprocessing.connection as mpc
    ctx = mp.get_context("fork")
    pending = list(args)
    running = {}
    out = []
    while pending or running:
        while pending and len(running) < jobs:
            a = pending.pop(0)
            rd, wr = ctx.Pipe(duplex=False)
            p = ctx.Process(target=_child_main, args=(func, a, wr))
            p.start()
            wr.close()
            running[p] = (a, rd, time.time())
        mpc.wait([rd for (_, rd, _) in running.values()], timeout=1.0)
        for p in list(running):
            a, rd, t0 = running[p]
            got = None
            if rd.poll():
                try:
                    got = rd.recv()
                except (EOFError, OSError):
                    got = None
                p.join(10)
                if p.is_alive():
                    p.kill()
                if isinstance(got, dict) and "__child_error__" in got:
                    out.append((a, "died (" + got["__child_error__"][:300] + ")", None))
                elif got is None:
                    out.append((a, f"died (exit code {p.exitcode})", None))
                else:
                    out.append((a, "ok", got))
            elif not p.is_alive():
                out.append((a, f"died (exit code {p.exitcode})", None))
            elif time.time() - t0 > timeout_s:
                p.kill()
                p.join(5)
                out.append((a, f"timeout after {int(timeout_s)} s", None))
            else:
                continue
            rd.close()
            del running[p]
    return out


def merge_shards(results):
    """results of the shards of one harness -> one result"""
    by = {}
    out = []
    for r in results:
        key = (r.get("module"), r["name"])
        if key not in by:
            by[key] = r
            out.append(r)
            continue
        m = by[key]
        for f in ("paths", "paths_ok", "n_problems", "solver_secs", "solver_calls", "own_paths"):
            m[f] = (m.get(f) or 0) + (r.get(f) or 0)
        m["wall_s"] = max(m.get("wall_s") or 0, r.get("wall_s") or 0)
        m["problems"] = (m.get("problems") or []) + (r.get("problems") or [])
        for f in ("trusted", "covers", "notes", "summaries_used", "inlined"):
            m[f] = sorted(set(m.get(f) or []) | set(r.get(f) or []))
        m.setdefault("hashes", {}).update(r.get("hashes") or {})
        cl = {c["label"]: c for c in m.get("clauses", [])}
        for c in r.get("clauses", []):
            if c["label"] not in cl:
                m.setdefault("clauses", []).append(c)
                cl[c["label"]] = c
                continue
            t = cl[c["label"]]
            t["paths"] += c["paths"]
            t["discharged"] += c["discharged"]
            t["secs"] += c["secs"]
            t["failed"] = (t["failed"] + c["failed"])[:3]
            t["unknown"] = t["unknown"] + c["unknown"]
            for b, n in c["backends"].items():
                t["backends"][b] = t["backends"].get(b, 0) + n
    return out


def native_crosscheck(results, tier, seed, known, prop, repo=REPO):
    """Differential cross-check (bounded, not proof): every harness is also executed natively (CPython, real library) on seeded
    random inputs; a clause that the symbolic engine discharged but that evaluates to False natively means the engine, a
    builtin model or a spec twin is wrong -> checker error, never a violation."""
    if os.environ.get("PYVC_NO_CROSSCHECK"):
        return {"skipped": True}, []
    count, budget = (1500, 20) if tier == "thorough" else (40, 1.5)
    reqs, keep = [], []
    for r in results:
        if r.get("clauses") and not str(r.get("bounded") or "").startswith("native") and r.get("kind") != "native":
            reqs.append({"module": r["module"], "name": r["name"], "count": count, "seed": seed, "budget_s": budget})
            keep.append(r)
    if not reqs:
        return {"harnesses": 0}, []
    env = dict(os.environ)
    env["PYVC_REPO"] = repo
    try:
        p = subprocess.run([NATIVE_PY, os.path.join(VERIF, "helper", "native.py"), "fuzz", "--repo", repo],
                           input="\n".join(json.dumps(q) for q in reqs) + "\n", capture_output=True, text=True, env=env,
                           timeout=len(reqs) * (budget + 5) + 120)
        outs = [json.loads(l) for l in p.stdout.splitlines() if l.strip().startswith("{")]
    except Exception as e:  # noqa
        return {"error": f"{type(e).__name__}: {e}"}, []
    problems = []
    ran = 0
    for r, o in zip(keep, outs):
        ran += o.get("ran", 0)
        discharged = {c["label"] for c in r["clauses"] if c["discharged"] == c["paths"]}
        for label, args in (o.get("failed") or {}).items():
            ident = f"{r['name']}/{label}"
            if label in discharged and match_known(known, prop, ident, None) is None:
                problems.append(f"clause {ident} was discharged symbolically but is False natively on inputs {args}")
    return {"harnesses": len(reqs), "native_runs": ran, "inputs_per_harness": count, "answers": len(outs)}, problems


def run_canaries(prop, tier):
    """must-fail self-check: seeded changes known to break `prop` are applied to a scratch copy; the check must alarm.
    quick: the fastest seed (if it takes <= 20 s); thorough: all of them, fastest first, within a time budget (PYVC_CANARY_BUDGET, default 2400 s).
    A seed is first tried on the harness family that caught it when it was kept (--only), then on the whole check."""
    if os.environ.get("PYVC_NO_CANARIES"):
        return []
    from . import canary
    seeds = canary.seeds_for(prop)

    def secs(d):
        try:
            return json.load(open(os.path.join(d, "meta.json")))["checks"][prop]["secs"]
        except Exception:
            return 1e9
    if tier != "thorough":
        seeds = [s for s in sorted(seeds, key=lambda s: secs(s[1])) if secs(s[1]) <= 20][:1]
    else:
        seeds = sorted(seeds, key=lambda s: secs(s[1]))
    out = []
    budget = int(os.environ.get("PYVC_CANARY_BUDGET", "2400") or 2400)   # thorough tier: fastest first, no new canary after this many seconds
    t_all = time.time()
    for name, d in seeds:
        if time.time() - t_all > budget:
            out.append({"seed": name, "status": "skipped", "detail": f"canary time budget of {budget} s used up", "secs": 0})
            continue
        t0 = time.time()
        status, detail = canary.run_seed(prop, d)
        out.append({"seed": name, "status": status, "detail": detail, "secs": round(time.time() - t0, 1)})
    return out


def finish(prop, tier, seed, results, listing_errors, t0, quiet, repo, canaries=False):
    known = load_known_findings()
    obligations = []  # (harness, label, status)
    failed = []
    undecided = []
    errors = [f"contract module {m} failed to load: {e}" for m, e in listing_errors]
    trusted = set()
    notes = set()
    hashes = {}
    summaries_used = set()
    backends = {}
    solver_secs = 0.0
    bounded = []
    samples = []
    for r in results:
        for p in r.get("problems", []):
            if p.startswith("unsupported:"):
                undecided.append((r["name"], "*", p))
            else:
                errors.append(f"{r['name']}: {p}")
        if r.get("paths_ok", 0) == 0 and not r.get("problems"):
            errors.append(f"{r['name']}: no path reaches the end of the harness (vacuous)")
        trusted |= set(r.get("trusted", []))
        notes |= set(r.get("notes", []))
        hashes.update(r.get("hashes", {}))
        summaries_used |= set(r.get("summaries_used", []))
        solver_secs += r.get("solver_secs", 0.0)
        if not r.get("clauses") and not r.get("problems"):
            errors.append(f"{r['name']}: harness generated no obligations (vacuous)")
        for c in r.get("clauses", []):
            for b, n in c["backends"].items():
                backends[b] = backends.get(b, 0) + n
            ident = f"{r['name']}/{c['label']}"
            if c["failed"]:
                status = "failed"
                failed.append((r, c))
            elif c["unknown"]:
                status = "unknown"
                undecided.append((r["name"], c["label"], c["unknown"][0].get("detail", "")))
            else:
                status = "discharged"
            ob = {"id": ident, "status": status, "paths": c["paths"], "secs": round(c["secs"], 3), "module": r["module"]}
            if r.get("bounded"):
                ob["bounded"] = r["bounded"]
                bounded.append(ob)
            else:
                obligations.append(ob)
            if status == "discharged" and len(samples) < 6 and c["paths"] > 1:
                samples.append({"obligation": ident, "paths": c["paths"], "backends": c["backends"]})

    # native replay of every refuted clause
    reqs = [{"module": r["module"], "name": r["name"], "inputs": c["failed"][0]["model"], "label": c["label"]} for r, c in failed]
    answers = native_batch(reqs, repo) if reqs else []
    violations = []
    known_lines = []
    known_obligations = []
    os.makedirs(os.path.join(VERIF, "out", "replay", prop), exist_ok=True)
    for (r, c), ans in zip(failed, answers):
        ident = f"{r['name']}/{c['label']}"
        labels = dict()
        for l, ok in ans.get("labels", []):
            labels[l] = labels.get(l, True) and ok
        confirmed = (labels.get(c["label"]) is False) or (c["label"] == "no-escape" and ans.get("escaped") is not None)
        if not confirmed and ans.get("escaped") is not None and c["label"] not in labels:
            confirmed = True  # the harness blew up natively before reaching the clause
        rp = os.path.join("out", "replay", prop, slug(ident) + ".json")
        doc = {"property": prop, "module": r["module"], "obligation": r["name"], "clause": c["label"],
               "inputs": ans.get("repaired_inputs") or c["failed"][0]["model"], "solver_model": c["failed"][0]["model"],
               "solver": c["failed"][0].get("backend"),
               "confirmed_on_real_code": bool(confirmed), "native": ans,
               "reproduce": f"{NATIVE_PY} helper/native.py replay {rp}"}
        if not confirmed:
            doc["note"] = "no-failing-input-found: the verifier refuted the obligation but the extracted input did not make the real code fail"
        json.dump(doc, open(os.path.join(VERIF, rp), "w"), indent=1, default=str)
        kf = match_known(known, prop, ident, c["failed"][0]["model"])
        if kf is not None:
            known_lines.append(f"KNOWN-FINDING: property={prop} {kf['what']} [{ident}]")
            # a recorded finding is reported on its own line and listed separately; it is neither discharged nor a new violation
            for o in list(obligations):
                if o["id"] == ident:
                    obligations.remove(o)
                    o["status"] = "known finding (recorded in KNOWN_FINDINGS.json, replayed natively on this run)" if confirmed else "known finding"
                    known_obligations.append(o)
            continue
        violations.append((ident, rp, confirmed))

    xcheck = {}
    if canaries and not violations and not errors and not undecided:
        xcheck, xproblems = native_crosscheck(results, tier, seed, known, prop, repo)
        for xp in xproblems:
            errors.append("native cross-check: " + xp)
    canary_results = []
    if canaries and not violations:
        canary_results = run_canaries(prop, tier)
        for c in canary_results:
            if c["status"] == "missed":
                errors.append(f"must-fail canary {c['seed']} (a seeded change that breaks {prop}) was NOT detected: the check has become too weak")
    # refuted clauses whose counter-model did not fail natively (typically counter-examples to induction at a loop cut, which are
    # not reachable states): look for a genuine failing input with the bounded native search
    unconfirmed = [(ident, rp) for ident, rp, confirmed in violations if not confirmed]
    if unconfirmed and not os.environ.get("PYVC_NO_CROSSCHECK"):
        by_harness = {}
        for ident, rp in unconfirmed:
            for r in results:
                if ident.startswith(r["name"] + "/"):
                    by_harness.setdefault((r["module"], r["name"]), []).append((ident, rp, ident[len(r["name"]) + 1:]))
        reqs = [{"module": m, "name": n, "count": 4000, "seed": seed, "budget_s": 12} for (m, n) in by_harness]
        try:
            p = subprocess.run([NATIVE_PY, os.path.join(VERIF, "helper", "native.py"), "fuzz", "--repo", repo],
                               input="\n".join(json.dumps(q) for q in reqs) + "\n", capture_output=True, text=True,
                               env=dict(os.environ, PYVC_REPO=repo), timeout=len(reqs) * 20 + 120)
            outs = [json.loads(l) for l in p.stdout.splitlines() if l.strip().startswith("{")]
        except Exception:  # noqa
            outs = []
        for q, o in zip(reqs, outs):
            hits = dict(o.get("failed") or {})
            if o.get("escaped"):
                hits.setdefault("no-escape", o["escaped"].get("args"))
            for ident, rp, label in by_harness[(q["module"], q["name"])]:
                if label in hits:
                    doc = json.load(open(os.path.join(VERIF, rp)))
                    doc.update({"confirmed_on_real_code": True, "inputs_repr": hits[label], "fuzz": {"seed": q["seed"], "count": q["count"]},
                                "found_by": "bounded native search, after the solver's counter-model (kept as solver_model) did not fail natively"})
                    doc.pop("note", None)
                    json.dump(doc, open(os.path.join(VERIF, rp), "w"), indent=1, default=str)
                    violations = [(i, r_, True if i == ident else c) for i, r_, c in violations]

    # harnesses the deductive engine could not decide (construct outside the modelled subset, time-out): bounded native search for
    # an input on which a clause of that harness fails on the real code.  A hit is a violation with a native witness; no hit leaves
    # the harness undecided (never "held").
    und_names = sorted({h for h, l, w in undecided})
    degraded = []
    if und_names and not os.environ.get("PYVC_NO_CROSSCHECK"):
        reqs = []
        for r in results:
            if r["name"] in und_names and not r.get("opts_native_only"):
                reqs.append({"module": r["module"], "name": r["name"], "count": 400000, "seed": seed, "budget_s": 15})
        try:
            p = subprocess.run([NATIVE_PY, os.path.join(VERIF, "helper", "native.py"), "fuzz", "--repo", repo],
                               input="\n".join(json.dumps(q) for q in reqs) + "\n", capture_output=True, text=True,
                               env=dict(os.environ, PYVC_REPO=repo), timeout=len(reqs) * 25 + 120)
            outs = [json.loads(l) for l in p.stdout.splitlines() if l.strip().startswith("{")]
        except Exception:  # noqa
            outs = []
        for q, o in zip(reqs, outs):
            hits = dict(o.get("failed") or {})
            if o.get("escaped"):
                hits.setdefault("no-escape", o["escaped"].get("args"))
            if not hits and int(o.get("ran") or 0) >= 200:
                # Bounded stand-in (never counted as proved): the contract no longer fits the code it was written for (renamed /
                # restructured beyond what the engine re-binds, construct outside the modelled subset, time-out), the real code was
                # run on `ran` seeded random inputs of the harness's domain and every clause held.
                why = "; ".join(sorted({w[:160] for h, l, w in undecided if h == q["name"]}))[:400]
                degraded.append({"id": q["name"] + "/*", "status": "bounded-native", "module": q["module"],
                                 "bounded": f"{o['ran']} seeded random inputs (seed {q['seed']}) run on the real code, all clauses held; "
                                            f"{o.get('precondition_false', 0)} inputs outside the precondition", "why_not_proved": why})
                undecided = [(h, l, w) for h, l, w in undecided if h != q["name"]]
                for ob in [ob for ob in obligations if ob["status"] == "unknown" and ob["id"].startswith(q["name"] + "/")]:
                    obligations.remove(ob)     # not proved, not counted: listed with the bounded stand-in instead
                    ob["status"] = "bounded-native"
                    ob["bounded"] = degraded[-1]["bounded"]
                    bounded.append(ob)
            for label, args in hits.items():
                ident = f"{q['name']}/{label}"
                kf = match_known(known, prop, ident, None)
                if kf is not None:
                    known_lines.append(f"KNOWN-FINDING: property={prop} {kf['what']} [{ident}]")
                    continue
                rp = os.path.join("out", "replay", prop, slug(ident) + ".json")
                doc = {"property": prop, "module": q["module"], "obligation": q["name"], "clause": label, "inputs_repr": args,
                       "found_by": "bounded native search (the deductive engine could not decide this harness on the current code)",
                       "fuzz": {"seed": q["seed"], "count": q["count"]}, "confirmed_on_real_code": True,
                       "reproduce": f"{NATIVE_PY} helper/native.py replay {rp}"}
                json.dump(doc, open(os.path.join(VERIF, rp), "w"), indent=1, default=str)
                violations.append((ident, rp, True))
    n_obl = len(obligations)
    n_dis = sum(1 for o in obligations if o["status"] == "discharged")
    wall = time.time() - t0
    if n_obl == 0 and not errors:
        errors.append("no obligations were generated for this property")

    evidence = {
        "property_id": prop, "tier": tier, "seed": seed, "level": "proof",
        "coverage": {
            "obligations": n_obl, "discharged": n_dis,
            "checker_cmd": f"./check {prop} --tier {tier}",
            "trusted_base": sorted(trusted) + TRUSTED_ALWAYS,
            "samples": samples or [{"obligation": o["id"], "status": o["status"]} for o in obligations[:5]],
            "obligation_list": obligations,
            "bounded_obligations": bounded + degraded,
            "degraded_to_bounded": degraded,
            "harnesses": [{"name": r["name"], "module": r["module"], "paths": r.get("paths"), "wall_s": r.get("wall_s"),
                           "verifies": r.get("verifies"), "solver_calls": r.get("solver_calls")} for r in results],
            "functions_executed": hashes,
            "summaries_used_at_call_sites": sorted(summaries_used),
            "backends": backends, "solver_secs": round(solver_secs, 2),
            "undecided": [{"harness": h, "clause": l, "why": w[:300]} for h, l, w in undecided],
            "checker_errors": errors,
            "known_findings_matched": known_lines,
            "known_finding_obligations": known_obligations,
            "must_fail_canaries": canary_results,
            "native_crosscheck_bounded": xcheck,
            "notes": sorted(notes),
            "explanation": "obligation = (contract harness, clause); discharged = proved on every path of the symbolic execution of the real functions",
        },
        "assumptions": sorted(trusted) + TRUSTED_ALWAYS,
        "wall_s": round(wall, 2),
        "violations": len(violations),
    }
    evdir = os.environ.get("PYVC_EVIDENCE_DIR") or os.path.join(VERIF, "evidence")   # redirected only by tools/try_seed.py
    os.makedirs(evdir, exist_ok=True)
    json.dump(evidence, open(os.path.join(evdir, f"{prop}.json"), "w"), indent=1, default=str)

    if not quiet:
        print(f"property {prop} tier {tier}: {n_dis}/{n_obl} obligations discharged, {len(bounded) + len(degraded)} bounded, "
              f"{len(violations)} violated, {len(undecided)} undecided, {len(errors)} checker errors, {wall:.1f}s")
        for o in obligations + bounded:
            if o["status"] != "discharged":
                print(f"  {o['status'].upper():10s} {o['id']}")
    for line in known_lines:
        print(line)
    for ident, rp, confirmed in violations:
        print(f"VIOLATION property={prop} replay={rp} obligation={ident}" + ("" if confirmed else " no-failing-input-found"))
    for d in degraded:
        print(f"DEGRADED property={prop} obligation={d['id']} not proved on this code ({d['why_not_proved'][:160]}); bounded stand-in: {d['bounded'][:120]}")
    for h, l, w in undecided:
        print(f"UNDECIDED property={prop} obligation={h}/{l} {w[:200]}")
    for e in errors:
        print(f"CHECKER-ERROR property={prop} {e[:600]}")
    if violations:
        return 1
    if errors:
        return 3
    if undecided:
        return 2
    return 0


TRUSTED_ALWAYS = [
    "pyvc: own VC generator (forward symbolic execution of the ast of the real functions, one path at a time); Python int = mathematical integer",
    "models of builtins/struct/enum/dataclasses/copy as listed in DESIGN.md 2.2 (cross-checked against CPython by replay, not proved)",
    "SMT solvers: z3 5.1 (API), cvc5 1.0.3, z3 4.8.12",
    "termination of loops without a variant and total run time are not proved",
]


def match_known(known, prop, ident, model):
    for f in known.get("findings", []):
        if f.get("property") == prop and f.get("obligation") == ident:
            return f
    return None


def main(argv=None):
    ap = argparse.ArgumentParser()
    ap.add_argument("prop")
    ap.add_argument("--tier", default=os.environ.get("VERIF_TIER", "quick"))
    ap.add_argument("--replay")
    ap.add_argument("--only")
    ap.add_argument("--jobs", type=int)
    a = ap.parse_args(argv)
    seed = int(os.environ.get("VERIF_SEED", "0") or 0)
    if a.replay:
        p = subprocess.run([NATIVE_PY, os.path.join(VERIF, "helper", "native.py"), "replay", a.replay])
        if p.returncode == 1:
            print(f"VIOLATION property={a.prop} replay={a.replay}")
        sys.exit(p.returncode)
    tier = a.tier if a.tier in ("quick", "thorough") else "quick"
    os.environ["VERIF_TIER"] = tier    # seen by the native twin (speclib/pyvc_spec.by_tier)
    sys.exit(run_check(a.prop, tier, seed, jobs=a.jobs, only=a.only))


if __name__ == "__main__":
    main()
