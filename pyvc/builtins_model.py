"""Models of the builtins and library modules the repository uses (the trusted base, DESIGN 2.2)."""
from __future__ import annotations
import ast
import z3

from .values import *  # noqa
from .values import NOT_IMPLEMENTED
from . import ops
from .ops import as_int, zi, is_intlike
from .explore import Unsupported, PathInfeasible

# pieces living in sibling modules are attached at the bottom of this file


def B(name, type_name=None):
    def deco(fn):
        return Builtin(name, fn, type_name)
    return deco


# ------------------------------------------------------------------------------------------------
# exception hierarchy
# ------------------------------------------------------------------------------------------------
EXC_TREE = {
    "BaseException": None, "Exception": "BaseException", "ArithmeticError": "Exception",
    "OverflowError": "ArithmeticError", "ZeroDivisionError": "ArithmeticError", "AssertionError": "Exception",
    "AttributeError": "Exception", "LookupError": "Exception", "IndexError": "LookupError",
    "KeyError": "LookupError", "NameError": "Exception", "OSError": "Exception", "FileNotFoundError": "OSError",
    "RuntimeError": "Exception", "NotImplementedError": "RuntimeError", "TypeError": "Exception",
    "ValueError": "Exception", "UnicodeError": "ValueError", "UnicodeDecodeError": "UnicodeError",
    "UnicodeEncodeError": "UnicodeError", "StopIteration": "Exception", "ImportError": "Exception",
    "struct.error": "Exception", "Warning": "Exception", "DeprecationWarning": "Warning", "IOError": "OSError",
}


def exception_classes(interp):
    out = {}
    obj = interp.builtins["object"]

    def init(interp_, args, kwargs):
        self = args[0]
        self.fields["args"] = tuple(args[1:])
        return None

    def str_(interp_, args, kwargs):
        a = args[0].fields.get("args", ())
        return a[0] if len(a) == 1 and isinstance(a[0], str) else FStrV(["<exception text>"])

    for name, parent in EXC_TREE.items():
        if name == "IOError":
            out[name] = out["OSError"]
            continue
        cls = ClassV(name, [out[parent]] if parent else [obj], {}, "builtins", name)
        cls.builtin = "exception"
        if parent is None:
            ini = Builtin("BaseException.__init__", init)
            ini.is_method = True
            cls.ns["__init__"] = ini
            st = Builtin("BaseException.__str__", str_)
            st.is_method = True
            cls.ns["__str__"] = st
        out[name] = cls
    return out


# ------------------------------------------------------------------------------------------------
# types
# ------------------------------------------------------------------------------------------------

def type_of(interp, v):
    b = interp.builtins
    if isinstance(v, bool) or isinstance(v, SBool):
        return b["bool"]
    if isinstance(v, (int, SInt)):
        return b["int"]
    if isinstance(v, (float, SReal)):
        return b["float"]
    if isinstance(v, (str, StrV, FStrV)):
        return b["str"]
    if v is None:
        return b["NoneType"]
    if isinstance(v, BytesV):
        return b[v.kind]
    if isinstance(v, tuple):
        return b["tuple"]
    if isinstance(v, PyList):
        return b["list"]
    if isinstance(v, PyDict) or type(v).__name__ == "OpenDict":
        return b["dict"]
    if isinstance(v, PySet):
        return b["set"]
    if isinstance(v, Instance):
        return v.cls
    if isinstance(v, EnumV):
        return v.cls
    if isinstance(v, ClassV):
        return b["type"]
    return Dummy("type")


def class_is_builtin_type(interp, cls, bt):
    if bt.type_name == "object":
        return True
    if bt.type_name == "int" and cls.is_intenum:
        return True
    for c in interp.mro(cls):
        if c.builtin == bt.type_name:
            return True
    return False


def isinstance_(interp, v, t):
    if isinstance(t, Dummy):
        raise Unsupported(f"isinstance against unmodelled type {t.name}")
    if isinstance(t, Builtin):
        tn = t.type_name
        if tn is None:
            interp.throw("TypeError", "isinstance() arg 2 must be a type")
        if tn == "object":
            return True
        if tn == "int":
            return isinstance(v, (int, SInt, SBool)) or (isinstance(v, EnumV) and v.cls.is_intenum)
        if tn == "bool":
            return isinstance(v, (bool, SBool))
        if tn == "float":
            return isinstance(v, (float, SReal))
        if tn == "str":
            return isinstance(v, (str, StrV, FStrV))
        if tn in ("bytes", "bytearray"):
            return isinstance(v, BytesV) and v.kind == tn
        if tn == "tuple":
            return isinstance(v, tuple)
        if tn == "list":
            return isinstance(v, PyList)
        if tn == "dict":
            return isinstance(v, PyDict) or type(v).__name__ == "OpenDict"
        if tn == "set":
            return isinstance(v, PySet)
        if tn == "NoneType":
            return v is None
        if tn == "type":
            return isinstance(v, ClassV)
        if tn == "deque":
            return isinstance(v, PyDeque)
        if isinstance(v, Instance):
            return class_is_builtin_type(interp, v.cls, t)
        return False
    if isinstance(t, ClassV):
        if isinstance(v, Instance):
            return t in interp.mro(v.cls)
        if isinstance(v, EnumV):
            return t in interp.mro(v.cls)
        return False
    interp.throw("TypeError", "isinstance() arg 2 must be a type")


def is_(interp, a, b):
    if a is None or b is None:
        return a is None and b is None
    if isinstance(a, bool) and isinstance(b, bool):
        return a == b
    if isinstance(a, EnumV) and isinstance(b, EnumV):
        if a.cls is not b.cls:
            return False
        if a.cls.is_intenum:
            return ops.cmp("==", a, b)
        return a.name == b.name
    if isinstance(a, (SBool, bool)) and isinstance(b, (SBool, bool)):
        return ops.mkbool(ops.zb(a) == ops.zb(b))
    if isinstance(a, int) and isinstance(b, int):
        return a == b
    return a is b


# ------------------------------------------------------------------------------------------------
# strings
# ------------------------------------------------------------------------------------------------

def str_utf8(interp, s):
    if isinstance(s, str):
        return BytesV(list(s.encode("utf-8")), "bytes")
    if isinstance(s, StrV):
        return BytesV(list(s.utf8.rope), "bytes")
    raise Unsupported("utf-8 view of a formatted string")


def fstr_eq(interp, a, b):
    if isinstance(a, FStrV) and isinstance(b, FStrV):
        if len(a.parts) != len(b.parts):
            return False
        res = []
        for x, y in zip(a.parts, b.parts):
            if isinstance(x, str) or isinstance(y, str):
                if x != y:
                    return False
                continue
            if x[1:] != y[1:]:
                return False
            res.append(interp.symtruth(interp.eq(x[0], y[0])))
        return ops.b_and(*res)
    from . import fs_model
    r = fs_model.text_eq(interp, a, b)
    if r is not NOT_IMPLEMENTED:
        return r
    raise Unsupported("comparison of a formatted string with a plain string")


def fstring(interp, node, fr):
    parts = []
    symbolic = False
    for v in node.values:
        if isinstance(v, ast.Constant):
            parts.append(v.value)
            continue
        val = interp.eval(v.value, fr)
        spec = ""
        if v.format_spec is not None:
            sp = fstring(interp, v.format_spec, fr)
            if not isinstance(sp, str):
                raise Unsupported("symbolic format spec")
            spec = sp
        conv = v.conversion
        if isinstance(val, bool) or isinstance(val, (int, str, float)) or val is None:
            try:
                if conv == ord("r"):
                    parts.append(format(repr(val), spec))
                else:
                    parts.append(format(val, spec))
                continue
            except Exception:
                raise Unsupported("format failure")
        if isinstance(val, EnumV) and not isinstance(as_int(val.v) if val.cls.is_intenum else 0, SInt):
            if spec:
                parts.append(format(val.v, spec))
            elif conv == ord("r"):
                parts.append(f"<{val.cls.name}.{val.name}: {val.v}>")
            else:
                parts.append(f"{val.cls.name}.{val.name}" if not val.cls.is_intenum else str(val.v))
            continue
        symbolic = True
        parts.append((val, conv, spec))
    if not symbolic:
        return "".join(parts)
    # merge adjacent literal parts
    merged = []
    for p in parts:
        if isinstance(p, str) and merged and isinstance(merged[-1], str):
            merged[-1] += p
        else:
            merged.append(p)
    return FStrV(merged)


# ------------------------------------------------------------------------------------------------
# iteration / indexing
# ------------------------------------------------------------------------------------------------

def iterate(interp, v):
    """Concrete list of the items of an iterable (concrete length required)."""
    if type(v).__name__ in ("OpenDict", "OpenItems"):
        raise Unsupported("iteration over a dict of unknown size (open dict)")
    if isinstance(v, (PyList, PyDeque, PySet)):
        return list(v.items)
    if isinstance(v, tuple):
        return list(v)
    if isinstance(v, range):
        return list(v)
    if isinstance(v, PyDict):
        return [k for k, _ in v.pairs]
    if isinstance(v, str):
        return list(v)
    if isinstance(v, BytesV):
        rope = ops.norm(v.rope)
        if any(isinstance(e, Blk) for e in rope):
            raise Unsupported("iteration over an octet string of symbolic length")
        return [e if isinstance(e, int) else SInt(e, 0, 255, 0) for e in rope]
    if isinstance(v, Instance):
        f, _ = interp.class_lookup(v.cls, "__iter__")
        if f is not None:
            return iterate(interp, interp.call(interp.bind(v, f), [], {}))
    if isinstance(v, ClassV) and v.is_enum:
        seen = []
        for m in v.members.values():
            if m not in seen:
                seen.append(m)
        return seen
    raise Unsupported(f"iteration over {type(v).__name__}")


def wrap_elem(e):
    return e if isinstance(e, int) else SInt(e, 0, 255, 0)


def norm_index(interp, idx, n, what="index"):
    """Python index normalisation with IndexError path; idx, n: int | SInt."""
    idx = as_int(idx)
    neg = ops.cmp("<", idx, 0)
    if interp.truth(neg):
        idx = ops.add(idx, n)
        if interp.truth(ops.cmp("<", idx, 0)):
            interp.throw("IndexError", f"{what} out of range")
    if interp.truth(ops.cmp(">=", idx, n)):
        interp.throw("IndexError", f"{what} out of range")
    return idx


def clip_slice_bound(interp, b, n, default):
    if b is None:
        return default
    b = as_int(b)
    if interp.truth(ops.cmp("<", b, 0)):
        b = ops.add(b, n)
        if interp.truth(ops.cmp("<", b, 0)):
            return 0
        return b
    if interp.truth(ops.cmp(">", b, n)):
        return n
    return b


def rope_slice(interp, rope, lo, hi):
    n = ops.rope_len(rope)
    lo = clip_slice_bound(interp, lo, n, 0)
    hi = clip_slice_bound(interp, hi, n, n)
    if interp.truth(ops.cmp(">=", lo, hi)):
        return []
    left, rest = ops.split_at(interp, rope, lo)
    mid, _ = ops.split_at(interp, rest, ops.sub(hi, lo))
    return mid


def getitem(interp, obj, idx):
    if isinstance(obj, UnmodelledV) or isinstance(idx, UnmodelledV):
        raise Unsupported("use of an unmodelled library object: subscript")
    if isinstance(obj, BytesV):
        if isinstance(idx, SliceV):
            if idx.step is not None:
                raise Unsupported("slice step on octets")
            return BytesV(rope_slice(interp, obj.rope, idx.lo, idx.hi), obj.kind)
        if not is_intlike(idx):
            interp.throw("TypeError", "byte indices must be integers")
        n = ops.rope_len(obj.rope)
        i = norm_index(interp, idx, n)
        _, rest = ops.split_at(interp, obj.rope, i)
        one, _ = ops.split_at(interp, rest, 1)
        if len(one) != 1 or isinstance(one[0], Blk):
            # the one-element piece may still carry blocks of symbolic length that are empty on this path, or be a
            # block of length one
            one = ops.norm(one)
            elems = [e for e in one if not isinstance(e, Blk)]
            blks = [e for e in one if isinstance(e, Blk)]
            if len(elems) == 1 and all(interp.ctx.valid(ops.elem_term(k.n) == 0) for k in blks):
                one = elems
            elif not elems and len(blks) == 1 and interp.ctx.valid(ops.elem_term(blks[0].n) == 1):
                one = ops.refine_to_elements(interp.ctx, blks[0], 1)
            else:
                # case split on which piece holds the single element (the pieces together have length 1)
                found = None
                for e in one:
                    if not isinstance(e, Blk):
                        found = [e]
                        break
                    if interp.ctx.branch(ops.elem_term(e.n) == 0):
                        continue
                    if not interp.ctx.valid(ops.elem_term(e.n) == 1):
                        raise Unsupported("element access: could not isolate the element")
                    found = ops.refine_to_elements(interp.ctx, e, 1)
                    break
                if found is None:
                    raise Unsupported("element access: could not isolate the element")
                one = found
        return wrap_elem(one[0])
    if isinstance(obj, PyList) and obj.prefix is not None:
        # open list: only "last element" and "all but the last" (the shapes structural recursion from the end needs)
        from . import loops
        n = loops.open_list_len(interp, obj)
        if isinstance(idx, SliceV):
            if (idx.lo is None or idx.lo == 0) and idx.step is None and isinstance(idx.hi, int) and idx.hi == -1:
                if interp.truth(ops.cmp("==", n, 0)):
                    return PyList([], prefix=obj.prefix)
                return loops.split_last(interp, obj)[0]
            raise Unsupported("slice of a list of unknown length other than [:-1]")
        if isinstance(idx, int) and idx == -1:
            if interp.truth(ops.cmp("==", n, 0)):
                interp.throw("IndexError", "list index out of range")
            return loops.split_last(interp, obj)[1]
        raise Unsupported("index into a list of unknown length other than [-1]")
    if isinstance(obj, (PyList, PyDeque)) or isinstance(obj, tuple):
        items = obj if isinstance(obj, tuple) else obj.items
        if isinstance(idx, SliceV):
            lo = as_int(idx.lo) if idx.lo is not None else None
            hi = as_int(idx.hi) if idx.hi is not None else None
            st = as_int(idx.step) if idx.step is not None else None
            if any(isinstance(x, SInt) for x in (lo, hi, st)):
                raise Unsupported("symbolic slice of a list")
            r = items[slice(lo, hi, st)]
            return r if isinstance(obj, tuple) else PyList(r)
        i = as_int(idx)
        if isinstance(i, SInt):
            vals = interp.ctx.enumerate_values(i.t, 16)
            if vals is None:
                raise Unsupported("symbolic list index")
            for v in vals:
                if interp.ctx.branch(i.t == v):
                    i = v
                    break
            else:
                raise PathInfeasible()
        try:
            return items[i]
        except IndexError:
            interp.throw("IndexError", "list index out of range")
    if isinstance(obj, PyDict):
        r = interp.dict_get(obj, idx, default=NOT_IMPLEMENTED)
        if r is NOT_IMPLEMENTED:
            interp.throw("KeyError", idx)
        return r
    if type(obj).__name__ == "OpenDict":
        from . import opendict
        r = opendict.lookup(interp, obj, idx)
        if r is opendict.ABSENT:
            interp.throw("KeyError", idx)
        return r
    if isinstance(obj, str):
        if isinstance(idx, SliceV):
            return obj[slice(idx.lo, idx.hi, idx.step)]
        try:
            return obj[idx]
        except IndexError:
            interp.throw("IndexError", "string index out of range")
    if isinstance(obj, Dummy):
        return Dummy(obj.name + "[]")
    if isinstance(obj, Instance):
        f, _ = interp.class_lookup(obj.cls, "__getitem__")
        if f is not None:
            return interp.call(interp.bind(obj, f), [idx], {})
    if isinstance(obj, ClassV):
        if obj.is_enum and isinstance(idx, str):
            if idx in obj.members:
                return obj.members[idx]
            interp.throw("KeyError", idx)
        return obj  # generic alias such as List[int] of a modelled class
    if isinstance(obj, Builtin):
        return obj
    r = special_getitem(interp, obj, idx)
    if r is not NOT_IMPLEMENTED:
        return r
    interp.throw("TypeError", f"object is not subscriptable: {obj!r}")


def special_getitem(interp, obj, idx):
    return NOT_IMPLEMENTED


def check_octet(interp, v, what="byte"):
    if not is_intlike(v):
        interp.throw("TypeError", "an integer is required")
    v = as_int(v)
    ok = ops.b_and(ops.cmp(">=", v, 0), ops.cmp("<=", v, 255))
    if not interp.truth(ok):
        interp.throw("ValueError", f"{what} must be in range(0, 256)")
    return v if isinstance(v, int) else v.t


def setitem(interp, obj, idx, val):
    if isinstance(obj, BytesV):
        if obj.kind != "bytearray":
            interp.throw("TypeError", "'bytes' object does not support item assignment")
        if isinstance(idx, SliceV):
            if not isinstance(val, BytesV):
                raise Unsupported("slice assignment from non-bytes")
            n = ops.rope_len(obj.rope)
            lo = clip_slice_bound(interp, idx.lo, n, 0)
            hi = clip_slice_bound(interp, idx.hi, n, n)
            if interp.truth(ops.cmp(">", lo, hi)):
                hi = lo
            left, rest = ops.split_at(interp, obj.rope, lo)
            _, right = ops.split_at(interp, rest, ops.sub(hi, lo))
            obj.rope = left + list(val.rope) + right
            return
        e = check_octet(interp, val)
        n = ops.rope_len(obj.rope)
        i = norm_index(interp, idx, n, "bytearray index")
        left, rest = ops.split_at(interp, obj.rope, i)
        _, right = ops.split_at(interp, rest, 1)
        obj.rope = left + [e] + right
        return
    if isinstance(obj, PyList):
        i = as_int(idx)
        if isinstance(i, SInt):
            raise Unsupported("symbolic list index in assignment")
        try:
            obj.items[i] = val
        except IndexError:
            interp.throw("IndexError", "list assignment index out of range")
        return
    if isinstance(obj, PyDict):
        interp.dict_set(obj, idx, val)
        return
    if type(obj).__name__ == "OpenDict":
        from . import opendict
        opendict.store(interp, obj, idx, val)
        return
    if isinstance(obj, Instance):
        f, _ = interp.class_lookup(obj.cls, "__setitem__")
        if f is not None:
            interp.call(interp.bind(obj, f), [idx, val], {})
            return
    interp.throw("TypeError", "object does not support item assignment")


def delitem(interp, obj, idx):
    if type(obj).__name__ == "OpenDict":
        from . import opendict
        opendict.delete(interp, obj, idx)
        return
    if isinstance(obj, PyDict):
        for i, (k, v) in enumerate(obj.pairs):
            if interp.truth(interp.eq(k, idx)):
                del obj.pairs[i]
                return
        interp.throw("KeyError", idx)
    if isinstance(obj, PyList):
        try:
            del obj.items[as_int(idx)]
        except IndexError:
            interp.throw("IndexError", "list index out of range")
        return
    raise Unsupported("del on this container")


def bytes_contains(interp, container, item):
    if is_intlike(item):
        rope = ops.norm(container.rope)
        if any(isinstance(e, Blk) for e in rope):
            raise Unsupported("'in' on octets of symbolic length")
        return ops.b_or(*[ops.cmp("==", wrap_elem(e), item) for e in rope])
    raise Unsupported("subsequence test on octets")


def open_list_eq(interp, a, b):
    """== of lists of which at least one has an unknown prefix: element sequences as Seq(Int)."""
    from . import loops
    pre = a.prefix if a.prefix is not None else b.prefix
    kind = loops.list_kind_of_sort(pre.sort())

    def seq_of(l):
        return loops.list_term(interp, l, kind)
    if a.prefix is not None and b.prefix is not None and a.prefix.eq(b.prefix) and len(a._items) == len(b._items):
        return ops.b_and(*[interp.symtruth(interp.eq(x, y)) for x, y in zip(a._items, b._items)])
    return ops.mkbool(seq_of(a) == seq_of(b))


def special_contains(interp, container, item):
    return None


# ------------------------------------------------------------------------------------------------
# binary operators
# ------------------------------------------------------------------------------------------------

def to_bytes_rope(interp, v):
    """rope of anything accepted by bytearray.extend / bytes(...)"""
    if isinstance(v, BytesV):
        return list(v.rope)
    if isinstance(v, (PyList, tuple)):
        items = v.items if isinstance(v, PyList) else v
        return [check_octet(interp, x) for x in items]
    if isinstance(v, Instance):
        f, _ = interp.class_lookup(v.cls, "__bytes__")
        if f is not None:
            return to_bytes_rope(interp, interp.call(interp.bind(v, f), [], {}))
        f, _ = interp.class_lookup(v.cls, "__iter__")
        if f is not None:
            return [check_octet(interp, x) for x in iterate(interp, v)]
    if v is None or isinstance(v, (int, SInt, bool, SBool, float, EnumV)):
        interp.throw("TypeError", "object is not iterable")
    if isinstance(v, (str, StrV)):
        interp.throw("TypeError", "string argument without an encoding")
    raise Unsupported(f"octets from {type(v).__name__}")


def binop(interp, op, a, b, inplace=False):
    t = type(op)
    # user-defined operators
    if isinstance(a, Instance) or isinstance(b, Instance):
        name = {ast.Add: "add", ast.Sub: "sub", ast.Mult: "mul", ast.FloorDiv: "floordiv", ast.Mod: "mod",
                ast.Div: "truediv", ast.BitOr: "or", ast.BitAnd: "and", ast.LShift: "lshift", ast.RShift: "rshift"}.get(t)
        if name is None:
            raise Unsupported("operator on instance")
        if isinstance(a, Instance):
            if inplace:
                f, _ = interp.class_lookup(a.cls, f"__i{name}__")
                if f is not None:
                    return interp.call(interp.bind(a, f), [b], {})
            f, _ = interp.class_lookup(a.cls, f"__{name}__")
            if f is not None:
                r = interp.call(interp.bind(a, f), [b], {})
                if r is not NOT_IMPLEMENTED:
                    return r
        if isinstance(b, Instance):
            f, _ = interp.class_lookup(b.cls, f"__r{name}__")
            if f is not None:
                r = interp.call(interp.bind(b, f), [a], {})
                if r is not NOT_IMPLEMENTED:
                    return r
        r = datetime_binop(interp, t, a, b)
        if r is not NOT_IMPLEMENTED:
            return r
        interp.throw("TypeError", "unsupported operand type(s)")
    if isinstance(a, BytesV):
        if t is ast.Add:
            if not isinstance(b, BytesV):
                interp.throw("TypeError", "can't concat to bytes")
            if inplace and a.kind == "bytearray":
                a.rope = list(a.rope) + list(b.rope)
                return a
            return BytesV(list(a.rope) + list(b.rope), a.kind)
        if t is ast.Mult and isinstance(b, int):
            return BytesV(list(a.rope) * b, a.kind)
        if t is ast.Mod or (t is ast.Mult and is_intlike(b)):
            raise Unsupported("bytes % args / bytes * symbolic count is not modelled")
        interp.throw("TypeError", "unsupported operand type(s) for bytes")
    if isinstance(a, str) and isinstance(b, str) and t is ast.Add:
        return a + b
    if isinstance(a, (str, FStrV, StrV)) and isinstance(b, (str, FStrV, StrV)) and t is ast.Add:
        pa = a.parts if isinstance(a, FStrV) else [a if isinstance(a, str) else (a, -1, "")]
        pb = b.parts if isinstance(b, FStrV) else [b if isinstance(b, str) else (b, -1, "")]
        return FStrV(list(pa) + list(pb))
    if isinstance(a, str) and t is ast.Mod:
        return FStrV([a, (b, -1, "%")])
    if isinstance(a, str) and t is ast.Mult and isinstance(b, int):
        return a * b
    if isinstance(a, PyList) and isinstance(b, PyList) and t is ast.Add and a.prefix is not None and b.prefix is None and not inplace:
        return PyList(a._items + b._items, a.prefix)
    if isinstance(a, PyList) and isinstance(b, PyList) and t is ast.Add and b.prefix is not None and not inplace:
        # concatenation with an open right operand: the whole result becomes one sequence term
        from . import loops
        kind = loops.list_kind_of_sort(b.prefix.sort())
        ta, tb = loops.list_term(interp, a, kind), loops.list_term(interp, b, kind)
        return PyList([], prefix=z3.Concat(ta, tb))
    if isinstance(a, PyList) and isinstance(b, PyList) and t is ast.Add:
        if inplace:
            a.items.extend(b.items)
            return a
        return PyList(a.items + b.items)
    if isinstance(a, PyList) and t is ast.Mult and isinstance(b, int):
        return PyList(a.items * b)
    if isinstance(a, tuple) and isinstance(b, tuple) and t is ast.Add:
        return a + b
    if isinstance(a, (float, SReal)) or isinstance(b, (float, SReal)) or t is ast.Div:
        return real_binop(interp, t, a, b)
    if isinstance(a, Dummy) and isinstance(b, Dummy):
        r = datetime_binop(interp, t, a, b)
        if r is not NOT_IMPLEMENTED:
            return r
    if not (is_intlike(a) and is_intlike(b)):
        # only combinations Python certainly refuses are program errors; anything else is simply not modelled here
        def basic(v):
            return v is None or is_intlike(v) or isinstance(v, BytesV)
        if basic(a) and basic(b):
            interp.throw("TypeError", f"unsupported operand type(s): {type_name(interp, a)} and {type_name(interp, b)}")
        raise Unsupported(f"operator on {type_name(interp, a)} and {type_name(interp, b)} is not modelled")
    if t is ast.Add:
        return ops.add(a, b)
    if t is ast.Sub:
        return ops.sub(a, b)
    if t is ast.Mult:
        return ops.mul(a, b)
    if t is ast.LShift:
        return ops.lshift(a, concretize(interp, b))
    if t is ast.RShift:
        k = concretize(interp, b)
        r = ops.rshift(a, k)
        if isinstance(k, int) and k >= 16 and isinstance(r, SInt) and isinstance(as_int(a), SInt):
            # nested-floor lemma, valid for every integer x: (x div 2^(j-8)) div 2^8 == x div 2^j.  The chain lets the
            # solver relate octet extraction by shifts ((x >> 8k) & 0xFF) to a base-256 digit sum (div/mod by 2^40 and
            # beyond is out of its reach otherwise)
            x = as_int(a).t
            prev = x
            for j in range(8, k + 1, 8):
                cur = x / z3.IntVal(1 << j)
                interp.ctx.assume((prev / z3.IntVal(256)) == cur)
                prev = cur
            if k % 8:
                interp.ctx.assume((prev / z3.IntVal(1 << (k % 8))) == r.t)
        return r
    if t is ast.BitOr:
        if isinstance(a, (bool, SBool)) and isinstance(b, (bool, SBool)):
            return ops.b_or(a, b)
        return ops.bit_or(interp, a, b)
    if t is ast.BitAnd:
        if isinstance(a, (bool, SBool)) and isinstance(b, (bool, SBool)):
            return ops.b_and(a, b)
        return ops.bit_and(interp, a, b)
    if t is ast.BitXor:
        return ops.bit_xor(interp, a, b)
    if t is ast.FloorDiv:
        try:
            return ops.floordiv(interp, a, b)
        except ZeroDivisionError:
            interp.throw("ZeroDivisionError", "integer division or modulo by zero")
    if t is ast.Mod:
        try:
            return ops.mod(interp, a, b)
        except ZeroDivisionError:
            interp.throw("ZeroDivisionError", "integer division or modulo by zero")
    if t is ast.Pow:
        return int_pow(interp, a, b)
    raise Unsupported(f"operator {t.__name__}")


def type_name(interp, v):
    t = type_of(interp, v)
    return getattr(t, "name", "?")


def concretize(interp, v, limit=24):
    """Case split of a symbolic integer over its finitely many feasible values."""
    v = as_int(v)
    if isinstance(v, int):
        return v
    vals = interp.ctx.enumerate_values(v.t, limit)
    if vals is None:
        raise Unsupported("value needs to be concrete here but has too many feasible values")
    for c in sorted(vals):
        if interp.ctx.branch(v.t == c):
            return c
    raise PathInfeasible()


def int_pow(interp, a, b):
    a, b = as_int(a), as_int(b)
    if isinstance(b, SInt):
        if isinstance(a, int) and a == 2 and interp.ctx.enumerate_values(b.t, 24) is None:
            return pow2_abstract(interp, b)
        b = concretize(interp, b)
    if b < 0:
        raise Unsupported("negative exponent")
    if isinstance(a, int):
        return a ** b
    r = 1
    for _ in range(b):
        r = ops.mul(r, a)
    return r


POW2 = z3.Function("pow2", IntSort, IntSort)


def pow2_abstract(interp, b):
    """2 ** b for a symbolic exponent with too many values for a case split: uninterpreted pow2 with
    pow2(b) >= 1 and pow2(b) > b for b >= 0 (both true of the real function)."""
    if not interp.ctx.valid(b.t >= 0):
        raise Unsupported("2 ** (symbolic exponent not provably non-negative)")
    interp.ctx.trusted.add("pow2: 2**w for an unbounded symbolic w >= 0 is an uninterpreted function with 2**w >= 1, 2**w > w, exact values for w <= 64")
    t = POW2(b.t)
    interp.ctx.assume(z3.And(t >= 1, t > b.t, (b.t == 0) == (t == 1)))
    # exact for 0 <= b <= 64 (keeps counter-models realistic), bounded from below beyond
    interp.ctx.assume(z3.And(*[z3.Implies(b.t == k, t == 2 ** k) for k in range(65)], z3.Implies(b.t > 64, t > 2 ** 64)))
    return ops.mk(t, 1, None, 0)


def order_cmp(interp, sym, a, b):
    if is_intlike(a) and is_intlike(b):
        return ops.cmp(sym, a, b)
    if isinstance(a, (float, SReal)) or isinstance(b, (float, SReal)):
        return real_cmp(interp, sym, a, b)
    if isinstance(a, str) and isinstance(b, str):
        return {"<": a < b, "<=": a <= b, ">": a > b, ">=": a >= b}[sym]
    if isinstance(a, Instance):
        name = {"<": "__lt__", "<=": "__le__", ">": "__gt__", ">=": "__ge__"}[sym]
        f, _ = interp.class_lookup(a.cls, name)
        if f is not None:
            return interp.call(interp.bind(a, f), [b], {})
        r = datetime_cmp(interp, sym, a, b)
        if r is not NOT_IMPLEMENTED:
            return r
    if isinstance(a, tuple) and isinstance(b, tuple):
        raise Unsupported("tuple ordering")
    interp.throw("TypeError", f"'{sym}' not supported between these operands")


# floats / datetime: provided by floats_model (attached below)
def real_binop(interp, t, a, b):
    from . import floats_model
    return floats_model.real_binop(interp, t, a, b)


def real_cmp(interp, sym, a, b):
    from . import floats_model
    return floats_model.real_cmp(interp, sym, a, b)


def real_neg(interp, v):
    from . import floats_model
    return floats_model.real_neg(interp, v)


def datetime_binop(interp, t, a, b):
    from . import floats_model
    return floats_model.datetime_binop(interp, t, a, b)


def datetime_cmp(interp, sym, a, b):
    from . import floats_model
    return floats_model.datetime_cmp(interp, sym, a, b)


# loops with invariants: provided by loops (attached below)
def loop_spec(interp, node, fr):
    from . import loops
    return loops.loop_spec(interp, node, fr)


def exec_loop_with_invariant(interp, node, fr, spec):
    from . import loops
    return loops.exec_while(interp, node, fr, spec)


def exec_for_with_invariant(interp, node, fr, spec, it):
    from . import loops
    return loops.exec_for(interp, node, fr, spec, it)


def instance_attr(interp, obj, name):
    return NOT_IMPLEMENTED


def class_attr(interp, cls, name):
    if cls.is_enum and name == "__members__":
        return PyDict([(k, v) for k, v in cls.members.items()])
    return NOT_IMPLEMENTED


from .builtins_methods import value_attr  # noqa: E402
from . import builtins_methods as value_attr_mod  # noqa: E402
from .builtins_funcs import make_builtins, stub_module, instantiate_special, finish_enum  # noqa: E402
