"""pyvc - verification-condition generator for the Python subset used by spacepackets-py.

The real functions are read from /repo on every run (ast), executed symbolically path by path,
and every contract clause becomes an SMT query (z3 API; cvc5 / z3-4.8 CLI fall-back).
"""
