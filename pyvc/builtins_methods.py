"""Methods of builtin value kinds (bytes, bytearray, list, dict, deque, str, enum members ...)."""
from __future__ import annotations
import z3

from .values import *  # noqa
from .values import NOT_IMPLEMENTED
from . import ops
from .ops import as_int, is_intlike
from .explore import Unsupported


def M(obj, name, fn):
    b = Builtin(name, lambda interp, args, kwargs: fn(interp, obj, *args, **kwargs))
    return b


def value_attr(interp, obj, name):
    from . import builtins_model as bm
    if isinstance(obj, BytesV):
        f = BYTES_METHODS.get(name)
        if f is not None:
            if obj.kind == "bytes" and name in MUTATING:
                interp.throw("AttributeError", f"'bytes' object has no attribute '{name}'")
            return M(obj, name, f)
    elif isinstance(obj, PyList):
        f = LIST_METHODS.get(name)
        if f is not None:
            return M(obj, name, f)
    elif isinstance(obj, PyDict):
        f = DICT_METHODS.get(name)
        if f is not None:
            return M(obj, name, f)
    elif type(obj).__name__ == "OpenDict":
        from . import opendict
        return opendict.method(interp, obj, name)
    elif isinstance(obj, PyDeque):
        f = DEQUE_METHODS.get(name)
        if f is not None:
            return M(obj, name, f)
    elif isinstance(obj, PySet):
        if name == "add":
            def add(interp, s, x):
                if not interp.truth(interp.contains(s, x)):
                    s.items.append(x)
            return M(obj, name, add)
        if name in ("discard", "remove"):
            def drop(interp, s, x, _strict=(name == "remove")):
                for i, y in enumerate(list(s.items)):
                    if interp.truth(interp.eq(y, x)):
                        del s.items[i]
                        return None
                if _strict:
                    interp.throw("KeyError", x)
                return None
            return M(obj, name, drop)
        if name == "clear":
            def clear(interp, s):
                s.items[:] = []
            return M(obj, name, clear)
        if name == "copy":
            return M(obj, name, lambda interp, s: PySet(list(s.items)))
        if name == "update":
            def update(interp, s, *others):
                for o in others:
                    for x in bm.iterate(interp, o):
                        if not interp.truth(interp.contains(s, x)):
                            s.items.append(x)
            return M(obj, name, update)
    elif isinstance(obj, str):
        f = STR_METHODS.get(name)
        if f is not None:
            return M(obj, name, f)
    elif isinstance(obj, StrV):
        f = SSTR_METHODS.get(name)
        if f is not None:
            return M(obj, name, f)
        from . import fs_model
        f = fs_model.TEXT_METHODS.get(name)
        if f is not None:
            return M(obj, name, f)
    elif isinstance(obj, EnumV):
        if name == "value":
            return obj.v
        if name == "name":
            if obj.name is None:
                raise Unsupported("name of a symbolic enum member")
            return obj.name
        if name == "__class__":
            return obj.cls
        cattr, owner = interp.class_lookup(obj.cls, name)
        if owner is not None:
            return interp.bind(obj, cattr)
    elif isinstance(obj, PropertyV):
        if name == "setter":
            def setter(interp, p, f):
                np = PropertyV(p.fget, f)
                return np
            return M(obj, "setter", setter)
        if name == "getter":
            return M(obj, "getter", lambda interp, p, f: PropertyV(f, p.fset))
        if name == "fget":
            return obj.fget
    elif isinstance(obj, FuncV):
        if name == "__name__":
            return obj.name
        if name == "__qualname__":
            return obj.qualname
        if name == "__doc__":
            return None
    elif isinstance(obj, BoundMethod):
        if name == "__self__":
            return obj.self
        if name == "__func__":
            return obj.func
        if name == "__name__":
            return getattr(obj.func, "name", "?")
    elif isinstance(obj, Outcome):
        if name == "ok":
            return obj.exc is None
        if name == "value":
            if obj.exc is not None:
                raise Unsupported("value of a raising outcome")
            return obj.value
        if name == "exc":
            return obj.exc
        if name == "raised":
            def raised(interp, o, *clss):
                if o.exc is None:
                    return False
                if not clss:
                    return True
                return any(interp.isinstance(o.exc, c) for c in clss)
            return M(obj, "raised", raised)
    elif is_intlike(obj):
        if name == "to_bytes":
            def to_bytes(interp, v, length, byteorder="big", signed=False):
                from . import lib_models
                return lib_models.int_to_bytes(interp, v, length, byteorder, signed)
            return M(obj, name, to_bytes)
        if name == "bit_length" and isinstance(obj, int):
            return M(obj, name, lambda interp, v: int(v).bit_length())
        if name in ("real", "numerator"):
            return as_int(obj)
        if name == "__hash__":
            # hash of an int: modelled as the value (equal ints <=> equal hashes), like builtin hash()
            return M(obj, name, lambda interp, v: ("hash", as_int(v)))
    elif isinstance(obj, tuple):
        if name == "index":
            return M(obj, name, lambda interp, t, x: [i for i, y in enumerate(t) if interp.truth(interp.eq(x, y))][0])
        if name == "count":
            return M(obj, name, lambda interp, t, x: sum(1 for y in t if interp.truth(interp.eq(x, y))))
    elif isinstance(obj, (float, SReal)):
        from . import floats_model
        r = floats_model.float_attr(interp, obj, name)
        if r is not NOT_IMPLEMENTED:
            return r
    elif obj is None:
        interp.throw("AttributeError", f"'NoneType' object has no attribute '{name}'")
    elif isinstance(obj, Builtin):
        if name == "__name__":
            return obj.name
        r = builtin_type_attr(interp, obj, name)
        if r is not NOT_IMPLEMENTED:
            return r
    # an attribute that exists on the real Python type but has no model here is NOT an AttributeError of the program: the
    # obligation is undecided (a harmless refactoring that uses another builtin method must never look like a violation)
    import collections as _c
    real = None
    if isinstance(obj, BytesV):
        real = bytearray if obj.kind == "bytearray" else bytes
    elif isinstance(obj, PyList):
        real = list
    elif isinstance(obj, PyDict):
        real = dict
    elif isinstance(obj, PyDeque):
        real = _c.deque
    elif isinstance(obj, PySet):
        real = set
    elif isinstance(obj, (str, StrV, FStrV)):
        real = str
    elif isinstance(obj, (bool, SBool)):
        real = bool
    elif is_intlike(obj):
        real = int
    elif isinstance(obj, tuple):
        real = tuple
    elif isinstance(obj, (float, SReal)):
        real = float
    if real is not None and hasattr(real, name):
        raise Unsupported(f"{real.__name__}.{name} is not modelled")
    interp.throw("AttributeError", f"{bm.type_name(interp, obj)} object has no attribute '{name}'")


def builtin_type_attr(interp, obj, name):
    from . import lib_models
    if obj.type_name == "int" and name == "from_bytes":
        return Builtin("int.from_bytes", lambda interp, args, kwargs: lib_models.int_from_bytes(interp, *args, **kwargs))
    if obj.type_name == "bytes" and name == "fromhex":
        return Builtin("bytes.fromhex", lambda interp, args, kwargs: BytesV(list(bytes.fromhex(args[0])), "bytes"))
    if obj.type_name == "bytearray" and name == "fromhex":
        return Builtin("bytearray.fromhex", lambda interp, args, kwargs: BytesV(list(bytes.fromhex(args[0])), "bytearray"))
    if obj.type_name == "dict" and name == "fromkeys":
        return Builtin("dict.fromkeys", lambda interp, args, kwargs: PyDict([(k, args[1] if len(args) > 1 else None) for k in interp.bm.iterate(interp, args[0])]))
    return NOT_IMPLEMENTED


# ---------------------------------------------------------------- bytes / bytearray
def b_extend(interp, b, other):
    from . import builtins_model as bm
    b.rope = list(b.rope) + bm.to_bytes_rope(interp, other)


def b_append(interp, b, v):
    from . import builtins_model as bm
    e = bm.check_octet(interp, v)
    b.rope = list(b.rope) + [e]


def b_clear(interp, b):
    b.rope = []


def b_hex(interp, b, sep=None, bytes_per_sep=1):
    if ops.rope_is_concrete(b.rope):
        raw = bytes(ops.norm(b.rope))
        return raw.hex(sep, bytes_per_sep) if sep is not None else raw.hex()
    return FStrV([(b, -1, f"hex:{sep}:{bytes_per_sep}")])


def b_decode(interp, b, encoding="utf-8", errors="strict"):
    from . import lib_models
    return lib_models.bytes_decode(interp, b, encoding, errors)


def b_copy(interp, b):
    return BytesV(list(b.rope), b.kind)


def b_startswith(interp, b, prefix):
    from . import builtins_model as bm
    n = ops.rope_len(prefix.rope)
    if interp.truth(ops.cmp("<", ops.rope_len(b.rope), n)):
        return False
    head = bm.rope_slice(interp, b.rope, 0, n)
    return ops.rope_eq(head, prefix.rope)


def b_insert(interp, b, idx, v):
    from . import builtins_model as bm
    e = bm.check_octet(interp, v)
    n = ops.rope_len(b.rope)
    idx = bm.clip_slice_bound(interp, idx, n, 0)
    l, r = ops.split_at(interp, b.rope, idx)
    b.rope = l + [e] + r


def b_pop(interp, b, idx=-1):
    from . import builtins_model as bm
    n = ops.rope_len(b.rope)
    i = bm.norm_index(interp, idx, n, "pop index")
    l, rest = ops.split_at(interp, b.rope, i)
    one, r = ops.split_at(interp, rest, 1)
    b.rope = l + r
    return bm.wrap_elem(one[0])


def b_join(interp, sep, iterable):
    parts = interp.bm.iterate(interp, iterable)
    rope = []
    for i, x in enumerate(parts):
        if not isinstance(x, BytesV):
            interp.throw("TypeError", "sequence item: expected a bytes-like object")
        if i:
            rope.extend(sep.rope)
        rope.extend(x.rope)
    return BytesV(rope, sep.kind)


BYTES_METHODS = {"join": b_join, "extend": b_extend, "append": b_append, "clear": b_clear, "hex": b_hex, "decode": b_decode,
                 "copy": b_copy, "startswith": b_startswith, "insert": b_insert, "pop": b_pop,
                 "__len__": lambda interp, b: ops.rope_len(b.rope)}
MUTATING = {"extend", "append", "clear", "insert", "pop", "copy"}


# ---------------------------------------------------------------- list
def l_append(interp, l, v):
    l._items.append(v)  # valid for open lists too: the element goes after the unknown prefix


def l_extend(interp, l, other):
    l._items.extend(interp.bm.iterate(interp, other))


def l_pop(interp, l, idx=-1):
    try:
        return l.items.pop(as_int(idx))
    except IndexError:
        interp.throw("IndexError", "pop from empty list")


def l_index(interp, l, x):
    for i, y in enumerate(l.items):
        if interp.truth(interp.eq(y, x)):
            return i
    interp.throw("ValueError", "x not in list")


def l_remove(interp, l, x):
    i = l_index(interp, l, x)
    del l.items[i]


LIST_METHODS = {"append": l_append, "extend": l_extend, "pop": l_pop, "clear": lambda interp, l: l.items.clear(),
                "copy": lambda interp, l: PyList(l.items), "index": l_index, "remove": l_remove,
                "insert": lambda interp, l, i, v: l.items.insert(as_int(i), v),
                "reverse": lambda interp, l: l.items.reverse(),
                "count": lambda interp, l, x: sum(1 for y in l.items if interp.truth(interp.eq(x, y))),
                "__len__": lambda interp, l: len(l.items)}


# ---------------------------------------------------------------- dict
def d_get(interp, d, k, default=None):
    return interp.dict_get(d, k, default)


def d_pop(interp, d, k, *default):
    for i, (kk, v) in enumerate(d.pairs):
        if interp.truth(interp.eq(kk, k)):
            del d.pairs[i]
            return v
    if default:
        return default[0]
    interp.throw("KeyError", k)


def d_update(interp, d, other=None, **kw):
    if other is not None:
        for k, v in other.pairs:
            interp.dict_set(d, k, v)
    for k, v in kw.items():
        interp.dict_set(d, k, v)


def d_setdefault(interp, d, k, default=None):
    r = interp.dict_get(d, k, NOT_IMPLEMENTED)
    if r is NOT_IMPLEMENTED:
        d.pairs.append((k, default))
        return default
    return r


DICT_METHODS = {"get": d_get, "pop": d_pop, "update": d_update, "setdefault": d_setdefault,
                "items": lambda interp, d: PyList([(k, v) for k, v in d.pairs]),
                "keys": lambda interp, d: PyList([k for k, _ in d.pairs]),
                "values": lambda interp, d: PyList([v for _, v in d.pairs]),
                "clear": lambda interp, d: d.pairs.clear(),
                "copy": lambda interp, d: PyDict(d.pairs),
                "__len__": lambda interp, d: len(d.pairs)}


# ---------------------------------------------------------------- deque
def q_open_nonempty(interp, q):
    """open deque: does the unknown front part hold a chunk?  If not, the deque becomes closed."""
    seq, cnt = q.rest
    if interp.ctx.branch(cnt > 0):
        return True
    interp.ctx.assume(seq == EMPTY_SEQ)
    q.rest = None
    return False


def q_popleft(interp, q):
    if q.rest is not None and q_open_nonempty(interp, q):
        ctx = interp.ctx
        seq, cnt = q.rest
        n = ctx.fresh_int("chunklen", 0)
        x = ctx.fresh_seq("chunk")
        r = ctx.fresh_seq("chunks")
        ctx.assume(z3.Length(x) == n)
        ctx.assume(seq == z3.Concat(x, r))
        q.rest = ops.mk_open_rest(ctx, r, cnt - 1)
        return BytesV([Blk(x, n, str(x), True)], "bytearray")
    if not q.items:
        interp.throw("IndexError", "pop from an empty deque")
    return q.items.pop(0)


def q_pop(interp, q):
    if not q.items:
        interp.throw("IndexError", "pop from an empty deque")
    return q.items.pop()


def q_clear(interp, q):
    q.rest = None
    q._items = []


DEQUE_METHODS = {"append": lambda interp, q, v: q._items.append(v), "appendleft": lambda interp, q, v: q.items.insert(0, v),
                 "popleft": q_popleft, "pop": q_pop, "clear": q_clear,
                 "extend": lambda interp, q, o: q.items.extend(interp.bm.iterate(interp, o)),
                 "copy": lambda interp, q: PyDeque(q.items),
                 "__len__": lambda interp, q: len(q.items)}


# ---------------------------------------------------------------- str
def s_encode(interp, s, encoding="utf-8", errors="strict"):
    if str(encoding).lower().replace("_", "-") not in ("utf-8", "utf8", "ascii"):
        raise Unsupported(f"encoding {encoding}")
    try:
        return BytesV(list(s.encode(encoding)), "bytes")
    except UnicodeEncodeError:
        interp.throw("UnicodeEncodeError", "codec can't encode")


def s_format(interp, s, *args, **kw):
    try:
        if all(isinstance(a, (int, str, float, bool)) or a is None for a in list(args) + list(kw.values())):
            return s.format(*args, **kw)
    except Exception:
        pass
    return FStrV([s, (tuple(args), -1, "format")])


STR_METHODS = {"encode": s_encode, "format": s_format,
               "rstrip": lambda interp, s, *a: s.rstrip(*a), "strip": lambda interp, s, *a: s.strip(*a),
               "lstrip": lambda interp, s, *a: s.lstrip(*a),
               "isdigit": lambda interp, s: s.isdigit(), "lower": lambda interp, s: s.lower(), "upper": lambda interp, s: s.upper(),
               "startswith": lambda interp, s, p: s.startswith(p), "endswith": lambda interp, s, p: s.endswith(p),
               "split": lambda interp, s, *a: PyList(s.split(*a)), "join": lambda interp, s, it: s.join(interp.bm.iterate(interp, it)),
               "replace": lambda interp, s, a, b: s.replace(a, b), "zfill": lambda interp, s, n: s.zfill(n),
               "__len__": lambda interp, s: len(s)}


def ss_encode(interp, s, encoding="utf-8", errors="strict"):
    if str(encoding).lower().replace("_", "-") not in ("utf-8", "utf8"):
        raise Unsupported(f"encoding {encoding} of an abstract string")
    return BytesV(list(s.utf8.rope), "bytes")


SSTR_METHODS = {"encode": ss_encode}
