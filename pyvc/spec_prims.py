"""Specification primitives visible to contract files (symbolic twin).

The executable twin used for native replay is /verif/speclib/pyvc_spec.py; both are exercised
against each other by the cross-check.
"""
from __future__ import annotations
import z3

from .values import *  # noqa
from .values import NOT_IMPLEMENTED
from . import ops
from .ops import as_int, is_intlike, zi
from .explore import Unsupported, PathInfeasible, PathAbort


def _b(name):
    def deco(fn):
        return Builtin(name, lambda interp, args, kwargs: fn(interp, *args, **kwargs))
    return deco


class TypeDesc:
    def __init__(self, kind, *args):
        self.kind = kind
        self.args = args

    def __repr__(self):
        return f"TypeDesc({self.kind},{self.args})"


def same_state(interp, a, b, ignore=(), path="$"):
    """Deep structural equality of two values / object graphs as bool | SBool."""
    ign = set(interp.bm.iterate(interp, ignore)) if not isinstance(ignore, (set, tuple)) else set(ignore)
    ign |= {k.lstrip("_") for k in ign}     # ignoring a private attribute ignores the public property of the same name
    seen = {}
    mode = {"strict": False, "seen_strict": {}}

    def rec(x, y):
        if isinstance(x, Instance) and isinstance(y, Instance):
            if x is y:
                return True
            if mode["strict"]:
                # attribute-for-attribute comparison, private ones included (used as a fast path only, see below)
                key = (id(x), id(y))
                if key in mode["seen_strict"]:
                    return True
                mode["seen_strict"][key] = True
                if x.cls is not y.cls:
                    return False
                kx = {k for k in x.fields if k not in ign}
                ky = {k for k in y.fields if k not in ign}
                if kx != ky:
                    return False
                return ops.b_and(*[interp.symtruth(rec(x.fields[k], y.fields[k])) for k in sorted(kx)])
            # fast path: two object graphs that are attribute-for-attribute identical (the usual case: "the caller's object is
            # untouched") are observably identical; no property getter needs to run
            mode["strict"] = True
            mode["seen_strict"] = {}
            try:
                identical = rec(x, y)
            finally:
                mode["strict"] = False
            if identical is True:
                return True
            key = (id(x), id(y))
            if key in seen:
                return True
            seen[key] = True
            if x.cls is not y.cls:
                return False
            # observable state: public attributes and the values of public properties.  Private attributes are the class's own
            # business (a memo filled on one side and empty on the other is not a difference a user can see); whatever they
            # back is compared through the properties, and what they cache through the pack()/accessor clauses of the harnesses.
            kx = {k for k in x.fields if k not in ign and not k.startswith("_")}
            ky = {k for k in y.fields if k not in ign and not k.startswith("_")}
            if kx != ky:
                return False
            res = [interp.symtruth(rec(x.fields[k], y.fields[k])) for k in sorted(kx)]
            if res and any(r is False for r in res):
                return False
            for name, prop in _public_properties(interp, x.cls):
                if name in ign or name in kx:
                    continue
                ox, oy = _get_prop(interp, x, prop), _get_prop(interp, y, prop)
                if ox[0] != oy[0]:
                    return False
                if ox[0] == "raised":
                    if ox[1] is not oy[1]:
                        return False
                    continue
                res.append(interp.symtruth(rec(ox[1], oy[1])))
            return ops.b_and(*res)
        if isinstance(x, Instance) or isinstance(y, Instance):
            return False
        if isinstance(x, EnumV) or isinstance(y, EnumV):
            if isinstance(x, EnumV) and isinstance(y, EnumV):
                if x.cls is not y.cls:
                    return False
                return interp.eq(x, y)
            # IntEnum member vs plain int: different states in Python terms only by type; compare numerically
            if (isinstance(x, EnumV) and x.cls.is_intenum and is_intlike(y)) or (isinstance(y, EnumV) and y.cls.is_intenum and is_intlike(x)):
                return interp.eq(x, y)
            return False
        if isinstance(x, PyList) and isinstance(y, PyList):
            if x.prefix is not None or y.prefix is not None:
                return interp.bm.open_list_eq(interp, x, y)
            if len(x.items) != len(y.items):
                return False
            return ops.b_and(*[interp.symtruth(rec(p, q)) for p, q in zip(x.items, y.items)])
        if isinstance(x, tuple) and isinstance(y, tuple):
            if len(x) != len(y):
                return False
            return ops.b_and(*[interp.symtruth(rec(p, q)) for p, q in zip(x, y)])
        if isinstance(x, PyDict) and isinstance(y, PyDict):
            if len(x.pairs) != len(y.pairs):
                return False
            res = []
            for (k1, v1), (k2, v2) in zip(x.pairs, y.pairs):
                res.append(interp.symtruth(rec(k1, k2)))
                res.append(interp.symtruth(rec(v1, v2)))
            return ops.b_and(*res)
        if isinstance(x, PyDeque) and isinstance(y, PyDeque) and (x.rest is not None or y.rest is not None):
            if x.rest is None or y.rest is None or len(x._items) != len(y._items):
                raise Unsupported("comparison of an open deque with a deque of different shape")
            return ops.b_and(ops.mkbool(x.rest[0] == y.rest[0]), ops.mkbool(x.rest[1] == y.rest[1]),
                             *[interp.symtruth(rec(p, q)) for p, q in zip(x._items, y._items)])
        if isinstance(x, PyDeque) and isinstance(y, PyDeque):
            if len(x.items) != len(y.items):
                return False
            return ops.b_and(*[interp.symtruth(rec(p, q)) for p, q in zip(x.items, y.items)])
        if isinstance(x, (bool, SBool)) != isinstance(y, (bool, SBool)):
            # bool vs int: Python equality semantics
            pass
        return interp.eq(x, y)

    return rec(a, b)


def _public_properties(interp, cls):
    out, seen = [], set()
    for c in interp.mro(cls):
        for k, v in c.ns.items():
            if k in seen:
                continue
            seen.add(k)
            if isinstance(v, PropertyV) and not k.startswith("_") and v.fget is not None and not v.abstract:
                out.append((k, v))
    return sorted(out, key=lambda kv: kv[0])


def _get_prop(interp, obj, prop):
    from .interp import PyRaise
    try:
        return ("ok", interp.call(BoundMethod(obj, prop.fget), [], {}))
    except PyRaise as pr:
        return ("raised", pr.exc.cls)


def snapshot(interp, v):
    from . import lib_models
    return lib_models.copy_deepcopy(interp, v)


def primitives(interp):
    from . import lib_models
    ns = {}

    @_b("requires")
    def requires(interp, cond):
        # no fork: the side on which the precondition is false is discarded anyway, so its
        # feasibility is never asked (a model with |octets| > 65535 costs the seq solver seconds)
        v = interp.symtruth(cond)
        if v is True:
            return None
        if v is False:
            raise PathInfeasible()
        interp.ctx.assume(v.t, check=True)
        return None
    ns["requires"] = requires

    @_b("ensures")
    def ensures(interp, label, cond):
        v = interp.symtruth(cond)
        ok = interp.ctx.check(label, True if v is True else (False if v is False else v.t))
        if not ok:
            # continue the path under the assumption that the clause holds, so that later clauses
            # are judged independently; if that is impossible the path ends here.
            if v is False:
                raise PathAbort()
            if v is not True:
                interp.ctx.assume(v.t, check=True)
        elif isinstance(v, SBool):
            interp.ctx.assume(v.t)
        return None
    ns["ensures"] = ensures

    @_b("cover")
    def cover(interp, label):
        interp.ctx.covers.add(label)
        return None
    ns["cover"] = cover

    @_b("outcome")
    def outcome(interp, f, *args, **kwargs):
        from .interp import PyRaise
        try:
            return Outcome(interp.call(f, list(args), kwargs), None)
        except PyRaise as pr:
            return Outcome(None, pr.exc)
    ns["outcome"] = outcome

    @_b("same_state")
    def same_state_(interp, a, b, ignore=()):
        return same_state(interp, a, b, ignore)
    ns["same_state"] = same_state_

    @_b("snapshot")
    def snapshot_(interp, v):
        return snapshot(interp, v)
    ns["snapshot"] = snapshot_

    @_b("implies")
    def implies(interp, a, b):
        return ops.b_or(ops.b_not(interp.symtruth(a)), interp.symtruth(b))
    ns["implies"] = implies

    @_b("iff")
    def iff(interp, a, b):
        a, b = interp.symtruth(a), interp.symtruth(b)
        return ops.mkbool(ops.zb(a) == ops.zb(b))
    ns["iff"] = iff

    @_b("both")
    def both(interp, *vs):
        return ops.b_and(*[interp.symtruth(v) for v in vs])
    ns["both"] = both

    @_b("either")
    def either(interp, *vs):
        return ops.b_or(*[interp.symtruth(v) for v in vs])
    ns["either"] = either

    @_b("be")
    def be(interp, n, v):
        from . import builtins_model as bm
        n = bm.concretize(interp, n)
        v = as_int(v)
        ok = ops.b_and(ops.cmp(">=", v, 0), ops.cmp("<", v, 256 ** n))
        if not interp.truth(ok):
            interp.throw("ValueError", "be(): value does not fit")
        return BytesV(lib_models.be_elems(interp, v, n), "bytes")
    ns["be"] = be

    @_b("le")
    def le(interp, n, v):
        r = be.fn(interp, [n, v], {})
        return BytesV(list(reversed(r.rope)), "bytes")
    ns["le"] = le

    @_b("from_be")
    def from_be(interp, b):
        rope = ops.norm(b.rope)
        if any(isinstance(e, Blk) for e in rope):
            # a block whose length is a constant under the path condition (e.g. a slice [n-8:n-4]) is a run of elements
            for e in list(rope):
                if isinstance(e, Blk):
                    vals = interp.ctx.enumerate_values(ops.elem_term(e.n), 1)
                    if vals is not None and len(vals) == 1 and 0 <= vals[0] <= 16:
                        ops.refine_to_elements(interp.ctx, e, vals[0])
            rope = ops.norm(b.rope)
        if any(isinstance(e, Blk) for e in rope):
            raise Unsupported("from_be of octets of symbolic length")
        if not rope:
            return 0
        return lib_models.from_be_elems(list(rope))
    ns["from_be"] = from_be

    @_b("bits")
    def bits(interp, v, hi, lo):
        """bit-field hi..lo (inclusive, LSB = 0) of a non-negative integer"""
        return ops.mod_const(ops.floordiv_const(v, 1 << lo), 1 << (hi - lo + 1))
    ns["bits"] = bits

    @_b("crc16")
    def crc16(interp, b):
        return lib_models.crc16_of(interp, b.rope)
    ns["crc16"] = crc16

    @_b("is_octets")
    def is_octets(interp, b):
        return isinstance(b, BytesV)
    ns["is_octets"] = is_octets

    @_b("kind_of")
    def kind_of(interp, v):
        """class name of a value (for 'instance of exactly that kind' clauses)"""
        t = interp.type_of(v)
        return getattr(t, "name", "?")
    ns["kind_of"] = kind_of

    @_b("exc_kind")
    def exc_kind(interp, o):
        return None if o.exc is None else o.exc.cls.name
    ns["exc_kind"] = exc_kind

    @_b("is_same")
    def is_same(interp, a, b):
        if isinstance(a, (SBool, bool)) and isinstance(b, (SBool, bool)):
            return ops.mkbool(ops.zb(a) == ops.zb(b))   # True / False are singletons: identity is equality of truth values
        return a is b
    ns["is_same"] = is_same

    # ---- loop contracts and ghost functions (pyvc/loops.py)
    @_b("invariant")
    def invariant(interp, label, cond):
        from . import loops
        return loops.prim_invariant(interp, label, cond)
    ns["invariant"] = invariant

    @_b("loop_phase")
    def loop_phase(interp):
        from . import loops
        return loops.loop_phase(interp)
    ns["loop_phase"] = loop_phase

    @_b("decreases")
    def decreases(interp, expr):
        from . import loops
        return loops.prim_decreases(interp, expr)
    ns["decreases"] = decreases

    @_b("loop_spec")
    def loop_spec(interp, qualname, ordinal, havoc=None, terminates=True):
        def deco(interp2, f):
            interp.registry.append(("loop_spec", (qualname, ordinal), {"havoc": havoc, "ordinal": ordinal, "terminates": terminates}, f))
            return f
        return _b("loop_spec()")(deco)
    ns["loop_spec"] = loop_spec

    @_b("ghost_function")
    def ghost_function(interp, args, result, measure):
        from . import loops

        def deco(interp2, f):
            kinds = list(args.items) if isinstance(args, PyList) else list(args)
            g = loops.GhostFn(f, kinds, result, measure)
            b = Builtin("ghost " + f.name, lambda interp3, a, k: loops.ghost_apply(interp3, g, a, k))
            b.ghost = g
            return b
        return _b("ghost_function()")(deco)
    ns["ghost_function"] = ghost_function

    @_b("unfold")
    def unfold(interp, gf, *args):
        from . import loops
        g = getattr(gf, "ghost", None)
        if g is None:
            raise Unsupported("unfold() of something that is not a ghost function")
        return loops.unfold(interp, g, list(args))
    ns["unfold"] = unfold

    @_b("concat_chunks")
    def concat_chunks(interp, q):
        """concatenation of all chunks of a deque / list of octet strings (as bytes)"""
        rope = []
        if isinstance(q, PyDeque) and q.rest is not None:
            rope.append(q.rest.blk)
            items = q._items
        else:
            items = q.items
        for x in items:
            rope.extend(x.rope)
        return BytesV(rope, "bytes")
    ns["concat_chunks"] = concat_chunks

    @_b("bv_lemma")
    def bv_lemma(interp, name):
        """a lemma of the CRC library (pyvc/crc_lemmas.py), proved now with z3 bit-vectors"""
        from . import crc_lemmas
        status, secs, model = crc_lemmas.prove(name)
        interp.ctx.solver_secs += secs
        interp.ctx.solver_calls += 1
        if status == "unsat":
            return True
        if status == "sat":
            interp.ctx.notes.append(f"bit-vector lemma {name} refuted: {model}")
            return False
        raise Unsupported(f"bit-vector lemma {name}: solver answered {status}")
    ns["bv_lemma"] = bv_lemma

    @_b("refine_as")
    def refine_as(interp, x, y):
        """x (an octet string represented by one unrefined symbolic block) is provably equal to y: from now
        on represent x by y's rope, so that later slices of x and of y align syntactically.  No assumption
        is added: the equality must be valid under the path condition (else the harness is undecided)."""
        lm = getattr(interp, "loop_mode", None)
        if lm is not None and lm.mode != "exit":
            return None   # inside a loop contract: only when the loop is left through its guard
        rope = ops.norm(x.rope)
        if len(rope) != 1 or not isinstance(rope[0], Blk):
            return None
        if not interp.ctx.valid(ops.rope_term(rope) == ops.rope_term(y.rope)):
            raise Unsupported("refine_as: the two octet strings are not provably equal here")
        target = ops.norm(y.rope)
        if any(e is rope[0] for e in target):
            return None
        rope[0].parts = list(target)
        return None
    ns["refine_as"] = refine_as

    @_b("use_lemma")
    def use_lemma(interp, name, cond):
        """instance of a lemma that is proved elsewhere in the same contract file as an induction step (obligation `name`):
        assumed here.  The name must be that of a registered lemma/obligation, and the use is recorded in evidence."""
        names = [a[1] for kind, a, k, f in getattr(interp, "registry", []) if kind in ("obligation", "lemma")]
        if name not in names:
            raise Unsupported(f"use_lemma: no lemma or obligation named {name!r} in this contract file")
        interp.ctx.notes.append(f"lemma instance assumed: {name} (proved as its own obligation by induction)")
        v = interp.symtruth(cond)
        if v is False:
            raise PathInfeasible()
        if v is not True:
            interp.ctx.assume(v.t)
        return None
    ns["use_lemma"] = use_lemma

    @_b("by_tier")
    def by_tier(interp, quick, thorough):
        """a bound that is larger in the thorough tier (e.g. ListOf(T, by_tier(2, 4)))"""
        return thorough if getattr(interp.cfg, "tier", "quick") == "thorough" else quick
    ns["by_tier"] = by_tier

    @_b("open_dict")
    def open_dict(interp, name, key_td, mk_key, key_of, value_tds, mk_value):
        """a dict in an arbitrary state (any number of entries): see pyvc/opendict.py"""
        from . import opendict
        return opendict.make(interp, name, key_td, mk_key, key_of, value_tds, mk_value)
    ns["open_dict"] = open_dict
    # ---- ghost file system (C19); executable twin: temporary directory
    from . import fs_model
    ns["ghost_file"] = _b("ghost_file")(fs_model.ghost_file)
    ns["ghost_remove"] = _b("ghost_remove")(fs_model.ghost_remove)
    ns["file_text"] = _b("file_text")(fs_model.file_text)
    ns["Text"] = TypeDesc("text", None)

    @_b("TextLen")
    def text_len(interp, maxlen=None):
        return TypeDesc("text", maxlen)
    ns["TextLen"] = text_len

    # ---- exact comparison of a float with a rational (C14)
    from . import floats_model
    ns["within"] = _b("within")(floats_model.within)

    # ---- type descriptors for harness parameters
    ns["Int"] = TypeDesc("int", None, None)
    ns["Bool"] = TypeDesc("bool")
    ns["Bytes"] = TypeDesc("bytes", None, None)
    ns["Str"] = TypeDesc("str", None)
    ns["Real"] = TypeDesc("real")
    ns["IntList"] = TypeDesc("list", TypeDesc("int", None, None), None)  # list of ints of ANY length (open list)
    ns["BytesList"] = TypeDesc("byteslist")   # list of octet strings of ANY length (open list)
    ns["PairList"] = TypeDesc("pairlist")     # list of (int, int) tuples of ANY length (open list)
    ns["Chunks"] = TypeDesc("chunks")         # deque of ANY number of bytearray chunks (open deque)

    @_b("IntRange")
    def int_range(interp, lo=None, hi=None):
        return TypeDesc("int", lo, hi)
    ns["IntRange"] = int_range

    @_b("BytesLen")
    def bytes_len(interp, lo=None, hi=None):
        return TypeDesc("bytes", lo, hi)
    ns["BytesLen"] = bytes_len

    @_b("BytesArr")
    def bytes_arr(interp, lo=None, hi=None):
        return TypeDesc("bytearray", lo, hi)
    ns["BytesArr"] = bytes_arr

    @_b("StrLen")
    def str_len(interp, maxoct=None):
        return TypeDesc("str", maxoct)
    ns["StrLen"] = str_len

    @_b("EnumOf")
    def enum_of(interp, cls):
        return TypeDesc("enum", cls)
    ns["EnumOf"] = enum_of

    @_b("Choice")
    def choice(interp, *vals):
        return TypeDesc("choice", *vals)
    ns["Choice"] = choice

    @_b("AsciiStrLen")
    def ascii_str_len(interp, maxoct=None):
        return TypeDesc("str", maxoct, True)
    ns["AsciiStrLen"] = ascii_str_len

    @_b("OptionalOf")
    def optional_of(interp, t):
        return TypeDesc("optional", t)
    ns["OptionalOf"] = optional_of

    @_b("ListOf")
    def list_of(interp, t, maxlen):
        return TypeDesc("list", t, maxlen)
    ns["ListOf"] = list_of

    @_b("TupleOf")
    def tuple_of(interp, *ts):
        return TypeDesc("tuple", *ts)
    ns["TupleOf"] = tuple_of

    # decorators used in contract files (registration happens in contracts.py)
    def reg(kind):
        def deco_factory(interp, *a, **k):
            def deco(interp, f):
                interp.registry.append((kind, a, k, f))
                return f
            return _b(kind + "()")(deco)
        return _b(kind)(deco_factory)
    ns["obligation"] = reg("obligation")
    ns["summary"] = reg("summary")
    ns["lemma"] = reg("lemma")
    return ns
