"""Symbolic interpreter for the Python subset used by spacepackets-py (and by the contract files).

The functions executed are the `ast` of the real source files, re-read on every run.
"""
from __future__ import annotations
import ast
import hashlib
import os
import z3

from .values import *  # noqa
from .values import NOT_IMPLEMENTED
from . import ops
from .ops import as_int, zi, is_intlike
from .explore import Unsupported, PathInfeasible


class PyRaise(Exception):
    """An exception of the interpreted program."""

    def __init__(self, exc, where=None):
        super().__init__(repr(exc))
        self.exc = exc
        self.where = where


class ReturnEx(Exception):
    def __init__(self, value):
        self.value = value


class BreakEx(Exception):
    pass


class ContinueEx(Exception):
    pass


class Program:
    """Source provider: module name -> (path, text).  Roots are searched in order; `overrides`
    maps a path to replacement text (canaries)."""

    def __init__(self, roots, overrides=None):
        self.roots = roots
        self.overrides = overrides or {}
        self.cache = {}

    def find(self, modname):
        rel = modname.replace(".", "/")
        for root in self.roots:
            for cand, is_pkg in ((os.path.join(root, rel + ".py"), False), (os.path.join(root, rel, "__init__.py"), True)):
                if cand in self.overrides or os.path.exists(cand):
                    return cand, is_pkg
        return None, False

    def read(self, path):
        if path in self.cache:
            return self.cache[path]
        if path in self.overrides:
            text = self.overrides[path]
        else:
            with open(path, "r", encoding="utf-8") as f:
                text = f.read()
        tree = ast.parse(text, filename=path)
        self.cache[path] = (text, tree)
        return text, tree


class Frame:
    __slots__ = ("locals", "globs", "closure", "cls", "selfobj", "func", "mangle")

    def __init__(self, locals_, globs, closure=None, cls=None, func=None, mangle=None):
        self.locals = locals_
        self.globs = globs
        self.closure = closure
        self.cls = cls
        self.selfobj = None
        self.func = func
        self.mangle = mangle


class Interp:
    def __init__(self, program: Program, cfg):
        self.program = program
        self.cfg = cfg
        self.modules = {}
        self.ctx = None
        self.depth = 0
        self.callstack = []
        self.summaries = {}  # qualname -> FuncV (spec function used at call sites)
        self.summary_off = set()  # qualnames whose body is being verified (not replaced)
        self.used_summaries = set()
        self.inlined = set()
        self.func_hashes = {}
        from . import builtins_model
        self.bm = builtins_model
        self.builtins = builtins_model.make_builtins(self)
        self.exc_classes = builtins_model.exception_classes(self)
        self.builtins.update(self.exc_classes)
        self.object_cls = self.builtins["object"]

    # ------------------------------------------------------------------ exceptions
    def make_exc(self, clsname, *args):
        cls = self.exc_classes[clsname] if isinstance(clsname, str) else clsname
        inst = Instance(cls, {"args": tuple(args)})
        return inst

    def throw(self, clsname, *args):
        raise PyRaise(self.make_exc(clsname, *args), list(self.callstack[-6:]))

    # ------------------------------------------------------------------ modules
    def import_module(self, name):
        if name in self.modules:
            return self.modules[name]
        stub = self.bm.stub_module(self, name)
        if stub is not None:
            self.modules[name] = stub
            return stub
        path, is_pkg = self.program.find(name)
        if path is None:
            import importlib.util
            try:
                known = importlib.util.find_spec(name) is not None
            except Exception:  # noqa
                known = False
            if not known:
                raise Unsupported(f"import of unknown module {name}")
            # a real module without a model: importing it is harmless, using anything of it makes the obligation undecided
            mod = ModuleV(name, {}, None)
            mod.unmodelled = True
            self.modules[name] = mod
            return mod
        text, tree = self.program.read(path)
        # parent packages first (Python semantics)
        if "." in name:
            parent = self.import_module(name.rpartition(".")[0])
            if name in self.modules:
                return self.modules[name]
        mod = ModuleV(name, {}, path)
        mod.ns["__name__"] = name
        mod.ns["__package__"] = name if is_pkg else name.rpartition(".")[0]
        mod.is_pkg = is_pkg
        self.modules[name] = mod
        fr = Frame(mod.ns, mod.ns)
        self.exec_block(tree.body, fr)
        if "." in name:
            parent.ns[name.rpartition(".")[2]] = mod
        return mod

    # ------------------------------------------------------------------ helpers
    def mro(self, cls):
        if cls.mro is not None:
            return cls.mro
        # C3 linearisation
        def merge(seqs):
            res = []
            seqs = [list(s) for s in seqs if s]
            while seqs:
                for s in seqs:
                    cand = s[0]
                    if not any(cand in t[1:] for t in seqs):
                        break
                else:
                    raise Unsupported("inconsistent MRO")
                res.append(cand)
                seqs = [[x for x in s if x is not cand] for s in seqs]
                seqs = [s for s in seqs if s]
            return res
        bases = cls.bases or []
        cls.mro = [cls] + merge([self.mro(b) for b in bases] + [list(bases)])
        return cls.mro

    def class_lookup(self, cls, name):
        for c in self.mro(cls):
            if name in c.ns:
                return c.ns[name], c
        return None, None

    def is_subclass(self, cls, other):
        if isinstance(other, tuple):
            return any(self.is_subclass(cls, o) for o in other)
        if isinstance(other, Builtin):
            return self.bm.class_is_builtin_type(self, cls, other)
        if isinstance(other, Dummy):
            return False
        return other in self.mro(cls)

    def type_of(self, v):
        return self.bm.type_of(self, v)

    def isinstance(self, v, t):
        if isinstance(t, tuple):
            return any(self.isinstance(v, x) for x in t)
        return self.bm.isinstance_(self, v, t)

    # ------------------------------------------------------------------ truthiness / equality
    def truth(self, v):
        """Python truth value as a concrete bool (forks when symbolic)."""
        if isinstance(v, bool):
            return v
        if isinstance(v, UnmodelledV):
            raise Unsupported(f"use of {v.name} (not modelled): truth value")
        if v is None:
            return False
        if isinstance(v, SBool):
            return self.ctx.branch(v.t)
        if isinstance(v, int):
            return v != 0
        if isinstance(v, SInt):
            return self.ctx.branch(v.t != 0)
        if isinstance(v, EnumV):
            if v.cls.is_intenum:
                return self.truth(as_int(v))
            return True
        if isinstance(v, BytesV):
            return self.truth(ops.cmp("!=", ops.rope_len(v.rope), 0))
        if isinstance(v, (str, tuple, float)):
            return bool(v)
        if isinstance(v, StrV):
            return self.truth(ops.cmp("!=", ops.rope_len(v.utf8.rope), 0))
        if isinstance(v, PyDeque) and v.rest is not None:
            if v._items:
                return True
            return self.bm.value_attr_mod.q_open_nonempty(self, v)
        if isinstance(v, (PyList, PyDeque, PySet)):
            return len(v.items) > 0
        if isinstance(v, PyDict):
            return len(v.pairs) > 0
        if isinstance(v, Instance):
            f, _ = self.class_lookup(v.cls, "__bool__")
            if f is not None:
                return self.truth(self.call(self.bind(v, f), [], {}))
            f, _ = self.class_lookup(v.cls, "__len__")
            if f is not None:
                return self.truth(ops.cmp("!=", self.call(self.bind(v, f), [], {}), 0))
            return True
        if isinstance(v, SReal):
            return self.ctx.branch(v.t != 0)
        if type(v).__name__ in ("OpenDict", "OpenItems"):
            raise Unsupported("truth value of a dict of unknown size (open dict)")
        return True

    def symtruth(self, v):
        """Truth value as bool | SBool without forking where possible."""
        if isinstance(v, (bool, SBool)):
            return v
        if isinstance(v, SInt):
            return ops.mkbool(v.t != 0)
        return self.truth(v)

    def eq(self, a, b):
        """a == b as bool | SBool."""
        if isinstance(a, UnmodelledV) or isinstance(b, UnmodelledV):
            raise Unsupported(f"use of {(a if isinstance(a, UnmodelledV) else b).name} (not modelled): comparison")
        if a is b and not isinstance(a, (float, SReal)):
            if not isinstance(a, Instance):
                return True
        if a is None or b is None:
            if isinstance(a, Instance) or isinstance(b, Instance):
                pass
            else:
                return a is None and b is None
        if isinstance(a, EnumV) and not a.cls.is_intenum:
            if isinstance(b, EnumV) and not b.cls.is_intenum:
                return a.cls is b.cls and a.name == b.name
            if not isinstance(b, Instance):
                return False
        if isinstance(b, EnumV) and not b.cls.is_intenum and not isinstance(a, Instance):
            return False
        if is_intlike(a) and is_intlike(b):
            return ops.cmp("==", a, b)
        if isinstance(a, (SReal, float)) or isinstance(b, (SReal, float)):
            return self.bm.real_cmp(self, "==", a, b)
        if isinstance(a, BytesV) and isinstance(b, BytesV):
            return ops.rope_eq(a.rope, b.rope)
        if isinstance(a, str) and isinstance(b, str):
            return a == b
        if isinstance(a, (str, StrV)) and isinstance(b, (str, StrV)):
            return ops.rope_eq(self.bm.str_utf8(self, a).rope, self.bm.str_utf8(self, b).rope)
        if isinstance(a, tuple) and isinstance(b, tuple):
            if len(a) != len(b):
                return False
            return ops.b_and(*[self.symtruth(self.eq(x, y)) for x, y in zip(a, b)])
        if isinstance(a, PyList) and isinstance(b, PyList):
            if a.prefix is not None or b.prefix is not None:
                return self.bm.open_list_eq(self, a, b)
            if len(a.items) != len(b.items):
                return False
            return ops.b_and(*[self.symtruth(self.eq(x, y)) for x, y in zip(a.items, b.items)])
        if isinstance(a, PyDict) and isinstance(b, PyDict):
            if len(a.pairs) != len(b.pairs):
                return False
            res = []
            for k, v in a.pairs:
                found = self.dict_get(b, k, default=NOT_IMPLEMENTED)
                if found is NOT_IMPLEMENTED:
                    return False
                res.append(self.symtruth(self.eq(v, found)))
            return ops.b_and(*res)
        if isinstance(a, Instance):
            f, owner = self.class_lookup(a.cls, "__eq__")
            if f is not None and owner is not self.object_cls:
                r = self.call(self.bind(a, f), [b], {})
                if r is not NOT_IMPLEMENTED:
                    return r
            if isinstance(b, Instance):
                f, owner = self.class_lookup(b.cls, "__eq__")
                if f is not None and owner is not self.object_cls:
                    r = self.call(self.bind(b, f), [a], {})
                    if r is not NOT_IMPLEMENTED:
                        return r
            return a is b
        if isinstance(b, Instance):
            return self.eq(b, a)
        if isinstance(a, (ClassV, FuncV, Builtin, ModuleV)) or isinstance(b, (ClassV, FuncV, Builtin, ModuleV)):
            return a is b
        if isinstance(a, FStrV) or isinstance(b, FStrV):
            return self.bm.fstr_eq(self, a, b)
        if isinstance(a, Outcome) or isinstance(b, Outcome):
            return a is b
        return False

    def dict_get(self, d, key, default=None):
        for k, v in d.pairs:
            e = self.eq(k, key)
            if e is True:
                return v
            if e is False:
                continue
            if self.truth(e):
                return v
        return default

    def dict_set(self, d, key, val):
        for i, (k, v) in enumerate(d.pairs):
            if self.truth(self.eq(k, key)):
                d.pairs[i] = (k, val)
                return
        d.pairs.append((key, val))

    def contains(self, container, item):
        """item in container -> bool | SBool"""
        if isinstance(container, UnmodelledV) or isinstance(item, UnmodelledV):
            raise Unsupported("use of an unmodelled library object: membership test")
        if isinstance(container, (PyList, PyDeque, PySet)):
            return ops.b_or(*[self.symtruth(self.eq(x, item)) for x in container.items])
        if isinstance(container, tuple):
            return ops.b_or(*[self.symtruth(self.eq(x, item)) for x in container])
        if isinstance(container, PyDict):
            return ops.b_or(*[self.symtruth(self.eq(k, item)) for k, _ in container.pairs])
        if type(container).__name__ == "OpenDict":
            from . import opendict
            return opendict.lookup(self, container, item) is not opendict.ABSENT
        if isinstance(container, str) and isinstance(item, str):
            return item in container
        if isinstance(container, BytesV):
            return self.bm.bytes_contains(self, container, item)
        if isinstance(container, Instance):
            f, _ = self.class_lookup(container.cls, "__contains__")
            if f is not None:
                return self.call(self.bind(container, f), [item], {})
        if isinstance(container, ClassV) and container.is_enum:
            return any(m is item for m in container.members.values())
        r = self.bm.special_contains(self, container, item)
        if r is not None:
            return r
        raise Unsupported(f"'in' on {type(container).__name__}")

    # ------------------------------------------------------------------ attributes
    def mangle_name(self, name, fr):
        if fr is not None and fr.mangle and name.startswith("__") and not name.endswith("__"):
            return "_" + fr.mangle.lstrip("_") + name
        return name

    def bind(self, obj, attr, cls=None):
        """Descriptor binding for a value found in a class namespace."""
        if isinstance(attr, FuncV):
            return BoundMethod(obj, attr)
        if isinstance(attr, ClassMethodV):
            return BoundMethod(cls if cls is not None else obj.cls, attr.func)
        if isinstance(attr, StaticMethodV):
            return attr.func
        if isinstance(attr, PropertyV):
            if attr.fget is None:
                self.throw("AttributeError", "unreadable attribute")
            return self.call(BoundMethod(obj, attr.fget), [], {})
        if isinstance(attr, Builtin) and getattr(attr, "is_method", False):
            return BoundMethod(obj, attr)
        return attr

    def getattr(self, obj, name, fr=None):
        name = self.mangle_name(name, fr)
        if isinstance(obj, Instance):
            if name in obj.fields:
                cattr, _ = self.class_lookup(obj.cls, name)
                if not isinstance(cattr, PropertyV):
                    return obj.fields[name]
            cattr, owner = self.class_lookup(obj.cls, name)
            if cattr is not None or owner is not None:
                return self.bind(obj, cattr)
            if name == "__class__":
                return obj.cls
            if name == "__dict__":
                return PyDict([(k, v) for k, v in obj.fields.items()])
            r = self.bm.instance_attr(self, obj, name)
            if r is not NOT_IMPLEMENTED:
                return r
            self.throw("AttributeError", f"{obj.cls.name} object has no attribute {name}")
        if isinstance(obj, ClassV):
            if name == "__name__":
                return obj.name
            if name == "__qualname__":
                return obj.qualname
            cattr, owner = self.class_lookup(obj, name)
            if owner is not None:
                if isinstance(cattr, ClassMethodV):
                    return BoundMethod(obj, cattr.func)
                if isinstance(cattr, StaticMethodV):
                    return cattr.func
                return cattr
            r = self.bm.class_attr(self, obj, name)
            if r is not NOT_IMPLEMENTED:
                return r
            self.throw("AttributeError", f"type object {obj.name} has no attribute {name}")
        if isinstance(obj, ModuleV):
            if name in obj.ns:
                return obj.ns[name]
            if obj.stub:
                return Dummy(f"{obj.name}.{name}")
            # submodule import on attribute access
            sub = obj.name + "." + name
            path, _ = self.program.find(sub)
            if path is not None:
                return self.import_module(sub)
            if obj.path is None:
                # a modelled library module (struct, enum, copy, ...): the real module may well have this attribute
                if getattr(obj, "unmodelled", False):
                    return UnmodelledV(f"{obj.name}.{name}")
                raise Unsupported(f"{obj.name}.{name} is not modelled")
            self.throw("AttributeError", f"module {obj.name} has no attribute {name}")
        if isinstance(obj, SuperV):
            mro = self.mro(obj.obj.cls if isinstance(obj.obj, Instance) else obj.obj)
            idx = mro.index(obj.cls)
            for c in mro[idx + 1:]:
                if name in c.ns:
                    a = c.ns[name]
                    if isinstance(obj.obj, Instance):
                        return self.bind(obj.obj, a)
                    if isinstance(a, ClassMethodV):
                        return BoundMethod(obj.obj, a.func)
                    if isinstance(a, StaticMethodV):
                        return a.func
                    return a
            self.throw("AttributeError", f"super object has no attribute {name}")
        if isinstance(obj, Dummy):
            return Dummy(f"{obj.name}.{name}")
        if isinstance(obj, UnmodelledV):
            raise Unsupported(f"use of {obj.name} (not modelled): attribute {name}")
        return self.bm.value_attr(self, obj, name)

    def setattr(self, obj, name, val, fr=None):
        name = self.mangle_name(name, fr)
        if isinstance(obj, Instance):
            cattr, _ = self.class_lookup(obj.cls, name)
            if isinstance(cattr, PropertyV):
                if cattr.fset is None:
                    self.throw("AttributeError", f"can't set attribute {name}")
                self.call(BoundMethod(obj, cattr.fset), [val], {})
                return
            if obj.cls.dataclass_fields is not None and getattr(obj.cls, "frozen", False):
                self.throw("AttributeError", "cannot assign to field of frozen dataclass")
            obj.fields[name] = val
            return
        if isinstance(obj, ClassV):
            obj.ns[name] = val
            return
        if isinstance(obj, ModuleV):
            obj.ns[name] = val
            return
        if isinstance(obj, Dummy):
            return
        if obj is None:
            self.throw("AttributeError", f"'NoneType' object has no attribute '{name}'")
        raise Unsupported(f"attribute assignment on {type(obj).__name__}")

    # ------------------------------------------------------------------ calls
    def call(self, f, args, kwargs):
        if isinstance(f, BoundMethod):
            return self.call(f.func, [f.self] + list(args), kwargs)
        if isinstance(f, Builtin):
            return f.fn(self, list(args), dict(kwargs))
        if isinstance(f, FuncV):
            return self.call_function(f, args, kwargs)
        if isinstance(f, ClassV):
            return self.instantiate(f, args, kwargs)
        if isinstance(f, Dummy):
            return Dummy(f.name + "()")
        if isinstance(f, UnmodelledV):
            return UnmodelledV(f.name + "()")
        if isinstance(f, Instance):
            c, _ = self.class_lookup(f.cls, "__call__")
            if c is not None:
                return self.call(self.bind(f, c), args, kwargs)
        if isinstance(f, StaticMethodV):
            return self.call(f.func, args, kwargs)
        self.throw("TypeError", f"object not callable: {f!r}")

    def instantiate(self, cls, args, kwargs):
        r = self.bm.instantiate_special(self, cls, args, kwargs)
        if r is not NOT_IMPLEMENTED:
            return r
        if cls.abstract_names(self) if hasattr(cls, "abstract_names") else False:
            pass
        new, owner = self.class_lookup(cls, "__new__")
        inst = Instance(cls, {})
        init, owner = self.class_lookup(cls, "__init__")
        if init is not None:
            self.call(self.bind(inst, init), args, kwargs)
        elif args or kwargs:
            self.throw("TypeError", f"{cls.name}() takes no arguments")
        return inst

    def bind_args(self, f: FuncV, args, kwargs):
        node = f.node
        a = node.args
        params = [p.arg for p in a.posonlyargs] + [p.arg for p in a.args]
        loc = {}
        args = list(args)
        if len(args) > len(params):
            if a.vararg is None:
                self.throw("TypeError", f"{f.qualname}() takes {len(params)} positional arguments but {len(args)} were given")
            loc[a.vararg.arg] = tuple(args[len(params):])
            args = args[:len(params)]
        elif a.vararg is not None:
            loc[a.vararg.arg] = ()
        for name, v in zip(params, args):
            loc[name] = v
        kwargs = dict(kwargs)
        for name in params[len(args):]:
            if name in kwargs:
                loc[name] = kwargs.pop(name)
        # defaults
        defaults = f.defaults or []
        first_default = len(params) - len(defaults)
        for i, name in enumerate(params):
            if name not in loc:
                if i >= first_default:
                    loc[name] = defaults[i - first_default]
                else:
                    self.throw("TypeError", f"{f.qualname}() missing required argument '{name}'")
        for i, p in enumerate(a.kwonlyargs):
            if p.arg in kwargs:
                loc[p.arg] = kwargs.pop(p.arg)
            else:
                d = (f.kw_defaults or [None] * len(a.kwonlyargs))[i]
                if d is NOT_IMPLEMENTED:
                    self.throw("TypeError", f"{f.qualname}() missing keyword-only argument '{p.arg}'")
                loc[p.arg] = d
        if kwargs:
            if a.kwarg is not None:
                loc[a.kwarg.arg] = PyDict([(k, v) for k, v in kwargs.items()])
            else:
                for k in kwargs:
                    if k in loc:
                        self.throw("TypeError", f"{f.qualname}() got multiple values for argument '{k}'")
                self.throw("TypeError", f"{f.qualname}() got an unexpected keyword argument '{next(iter(kwargs))}'")
        elif a.kwarg is not None:
            loc[a.kwarg.arg] = PyDict()
        return loc

    def call_function(self, f: FuncV, args, kwargs):
        q = f.qualname
        if q in self.summaries and q not in self.summary_off:
            self.used_summaries.add(q)
            return self.call_function(self.summaries[q], args, kwargs)
        if f.module is not None and f.module.startswith("spacepackets"):
            self.inlined.add(q)
        self.depth += 1
        if self.depth > self.cfg.call_depth:
            self.depth -= 1
            raise Unsupported(f"call depth exceeded at {q}")
        self.callstack.append(q)
        try:
            loc = self.bind_args(f, args, kwargs)
            fr = Frame(loc, f.globs, f.closure, f.defcls, f, f.defcls.name if f.defcls is not None else None)
            if isinstance(f.node, ast.Lambda):
                return self.eval(f.node.body, fr)
            try:
                self.exec_block(f.node.body, fr)
            except ReturnEx as r:
                return r.value
            return None
        finally:
            self.depth -= 1
            self.callstack.pop()

    # ------------------------------------------------------------------ statements
    def exec_block(self, stmts, fr):
        for s in stmts:
            self.exec_stmt(s, fr)

    def exec_stmt(self, s, fr):
        m = getattr(self, "st_" + type(s).__name__, None)
        if m is None:
            raise Unsupported(f"statement {type(s).__name__} at line {getattr(s, 'lineno', '?')}")
        return m(s, fr)

    def st_Expr(self, s, fr):
        if isinstance(s.value, ast.Constant):
            return
        self.eval(s.value, fr)

    def st_Pass(self, s, fr):
        return

    def st_Return(self, s, fr):
        raise ReturnEx(self.eval(s.value, fr) if s.value is not None else None)

    def st_Break(self, s, fr):
        raise BreakEx()

    def st_Continue(self, s, fr):
        raise ContinueEx()

    def st_Global(self, s, fr):
        g = fr.locals.setdefault("__global_names__", set())
        g.update(s.names)

    def st_Assert(self, s, fr):
        if not self.truth(self.eval(s.test, fr)):
            self.throw("AssertionError")

    def st_Delete(self, s, fr):
        for t in s.targets:
            if isinstance(t, ast.Name):
                fr.locals.pop(t.id, None)
            elif isinstance(t, ast.Subscript):
                obj = self.eval(t.value, fr)
                idx = self.eval_index(t.slice, fr)
                self.bm.delitem(self, obj, idx)
            elif isinstance(t, ast.Attribute):
                obj = self.eval(t.value, fr)
                if isinstance(obj, Instance):
                    obj.fields.pop(self.mangle_name(t.attr, fr), None)
            else:
                raise Unsupported("del target")

    def st_Import(self, s, fr):
        for al in s.names:
            mod = self.import_module(al.name)
            if al.asname:
                fr.locals[al.asname] = mod
            else:
                top = al.name.split(".")[0]
                fr.locals[top] = self.import_module(top)

    def st_ImportFrom(self, s, fr):
        if s.module == "__future__":
            return
        base = s.module or ""
        if s.level:
            pkg = fr.globs.get("__package__", "")
            parts = pkg.split(".") if pkg else []
            if s.level > 1:
                parts = parts[: len(parts) - (s.level - 1)]
            base = ".".join(parts + ([s.module] if s.module else []))
        mod = self.import_module(base)
        for al in s.names:
            if al.name == "*":
                for k, v in mod.ns.items():
                    if not k.startswith("_"):
                        fr.locals[k] = v
                continue
            if al.name in mod.ns:
                v = mod.ns[al.name]
            elif mod.stub:
                v = Dummy(f"{base}.{al.name}")
            else:
                sub = base + "." + al.name
                path, _ = self.program.find(sub)
                if path is None:
                    if mod.path is None:      # modelled or unmodelled library module: the real one may well have this name
                        v = UnmodelledV(f"{base}.{al.name}")
                        fr.locals[al.asname or al.name] = v
                        continue
                    self.throw("ImportError", f"cannot import name {al.name} from {base}")
                v = self.import_module(sub)
            fr.locals[al.asname or al.name] = v

    def st_FunctionDef(self, s, fr):
        f = self.make_function(s, fr)
        v = f
        for d in reversed(s.decorator_list):
            dec = self.eval(d, fr)
            v = self.apply_decorator(dec, v, fr)
        self.store_name(s.name, v, fr)

    def make_function(self, node, fr, name=None):
        modname = fr.globs.get("__name__", "?")
        clsname = fr.mangle
        nm = name or getattr(node, "name", "<lambda>")
        qual = f"{modname}:{clsname + '.' if clsname and fr.cls is None and fr.func is None else ''}{nm}"
        if fr.func is not None:
            qual = f"{fr.func.qualname}.<locals>.{nm}"
        closure = None
        if fr.func is not None or fr.closure is not None:
            closure = (fr.locals, fr.closure)
        f = FuncV(node, fr.globs, qual, None, closure, modname)
        a = node.args
        f.defaults = [self.eval(d, fr) for d in a.defaults]
        f.kw_defaults = [self.eval(d, fr) if d is not None else NOT_IMPLEMENTED for d in a.kw_defaults]
        if fr.func is not None:
            f.defcls = fr.cls
        return f

    def apply_decorator(self, dec, v, fr):
        if isinstance(dec, Builtin):
            return dec.fn(self, [v], {})
        if isinstance(dec, BoundMethod) and isinstance(dec.self, PropertyV):
            return self.call(dec, [v], {})
        if isinstance(dec, Dummy):
            return v
        return self.call(dec, [v], {})

    def st_ClassDef(self, s, fr):
        bases = [self.eval(b, fr) for b in s.bases]
        kw = {k.arg: self.eval(k.value, fr) for k in s.keywords}
        modname = fr.globs.get("__name__", "?")
        ns = {}
        cls = ClassV(s.name, [], ns, modname, s.name)
        real_bases = []
        for b in bases:
            if isinstance(b, ClassV):
                real_bases.append(b)
            elif isinstance(b, Dummy):
                continue
            elif isinstance(b, Builtin) and b.type_name:
                cls.builtin = b.type_name
            else:
                raise Unsupported(f"base class {b!r} of {s.name}")
        if not real_bases:
            real_bases = [self.object_cls]
        cls.bases = real_bases
        for b in real_bases:
            if b.is_enum:
                cls.is_enum = True
            if b.is_intenum:
                cls.is_intenum = True
        if cls.is_enum:
            cls.members = {}
        cfr = Frame(ns, fr.globs, (fr.locals, fr.closure) if fr.func is not None else None, None, None, s.name)
        ns["__module__"] = modname
        ns["__qualname__"] = s.name
        cls.annotations = []
        for st in s.body:
            if isinstance(st, ast.AnnAssign) and isinstance(st.target, ast.Name):
                cls.annotations.append((st.target.id, st))
            self.exec_stmt(st, cfr)
        # functions defined in the class body know their class
        for k, v in list(ns.items()):
            for fn in self._funcs_of(v):
                if fn.defcls is None:
                    fn.defcls = cls
                    fn.qualname = f"{modname}:{s.name}.{fn.name}"
        if cls.is_enum:
            self.bm.finish_enum(self, cls)
        v = cls
        for d in reversed(s.decorator_list):
            dec = self.eval(d, fr)
            v = self.apply_decorator(dec, v, fr)
        fr.locals[s.name] = v

    def _funcs_of(self, v):
        if isinstance(v, FuncV):
            return [v]
        if isinstance(v, (ClassMethodV, StaticMethodV)):
            return self._funcs_of(v.func)
        if isinstance(v, PropertyV):
            return [f for f in (v.fget, v.fset) if isinstance(f, FuncV)]
        return []

    def st_Assign(self, s, fr):
        v = self.eval(s.value, fr)
        for t in s.targets:
            self.assign(t, v, fr)

    def st_AnnAssign(self, s, fr):
        if s.value is not None:
            self.assign(s.target, self.eval(s.value, fr), fr)

    def st_AugAssign(self, s, fr):
        t = s.target
        if isinstance(t, ast.Name):
            cur = self.load_name(t.id, fr)
            new = self.binop(s.op, cur, self.eval(s.value, fr), inplace=True)
            self.store_name(t.id, new, fr)
        elif isinstance(t, ast.Attribute):
            obj = self.eval(t.value, fr)
            cur = self.getattr(obj, t.attr, fr)
            new = self.binop(s.op, cur, self.eval(s.value, fr), inplace=True)
            self.setattr(obj, t.attr, new, fr)
        elif isinstance(t, ast.Subscript):
            obj = self.eval(t.value, fr)
            idx = self.eval_index(t.slice, fr)
            cur = self.bm.getitem(self, obj, idx)
            new = self.binop(s.op, cur, self.eval(s.value, fr), inplace=True)
            self.bm.setitem(self, obj, idx, new)
        else:
            raise Unsupported("augmented assignment target")

    def assign(self, t, v, fr):
        if isinstance(t, ast.Name):
            self.store_name(t.id, v, fr)
        elif isinstance(t, ast.Attribute):
            self.setattr(self.eval(t.value, fr), t.attr, v, fr)
        elif isinstance(t, (ast.Tuple, ast.List)):
            items = self.bm.iterate(self, v)
            if len(items) != len(t.elts):
                self.throw("ValueError", "unpacking length mismatch")
            for tt, vv in zip(t.elts, items):
                self.assign(tt, vv, fr)
        elif isinstance(t, ast.Subscript):
            obj = self.eval(t.value, fr)
            idx = self.eval_index(t.slice, fr)
            self.bm.setitem(self, obj, idx, v)
        else:
            raise Unsupported(f"assignment target {type(t).__name__}")

    def store_name(self, name, v, fr):
        if fr.mangle and fr.func is None:
            name = self.mangle_name(name, fr)
        if fr.func is not None and name in fr.locals.get("__global_names__", ()):
            fr.globs[name] = v          # `global name` was declared in this function
            return
        fr.locals[name] = v

    def load_name(self, name, fr):
        if fr.mangle and name.startswith("__") and not name.endswith("__"):
            m = self.mangle_name(name, fr)
            if m in fr.locals:
                return fr.locals[m]
        if name in fr.locals and not (fr.func is not None and name in fr.locals.get("__global_names__", ())):
            return fr.locals[name]
        c = fr.closure
        while c is not None:
            loc, c = c
            if name in loc:
                return loc[name]
        if name in fr.globs:
            return fr.globs[name]
        if name in self.builtins:
            return self.builtins[name]
        if name == "__class__" and fr.cls is not None:
            return fr.cls
        import builtins as _py_builtins
        if hasattr(_py_builtins, name):
            raise Unsupported(f"builtin {name} is not modelled")
        self.throw("NameError", f"name '{name}' is not defined")

    def st_If(self, s, fr):
        if self.truth(self.eval(s.test, fr)):
            self.exec_block(s.body, fr)
        else:
            self.exec_block(s.orelse, fr)

    def st_While(self, s, fr):
        spec = self.bm.loop_spec(self, s, fr)
        if spec is not None:
            return self.bm.exec_loop_with_invariant(self, s, fr, spec)
        n = 0
        while True:
            if not self.truth(self.eval(s.test, fr)):
                self.exec_block(s.orelse, fr)
                return
            n += 1
            if n > self.cfg.loop_unroll:
                raise Unsupported(f"loop at line {s.lineno} not finished after {self.cfg.loop_unroll} iterations (no invariant given)")
            try:
                self.exec_block(s.body, fr)
            except BreakEx:
                return
            except ContinueEx:
                continue

    def st_For(self, s, fr):
        it = self.eval(s.iter, fr)
        spec = self.bm.loop_spec(self, s, fr)
        if spec is not None and isinstance(it, PyList) and it.prefix is not None:
            return self.bm.exec_for_with_invariant(self, s, fr, spec, it)
        items = self.bm.iterate(self, it)
        for v in items:
            self.assign(s.target, v, fr)
            try:
                self.exec_block(s.body, fr)
            except BreakEx:
                return
            except ContinueEx:
                continue
        self.exec_block(s.orelse, fr)

    def st_Raise(self, s, fr):
        if s.exc is None:
            cur = getattr(fr, "_cur_exc", None)
            raise Unsupported("bare raise outside handler") if cur is None else PyRaise(cur)
        e = self.eval(s.exc, fr)
        if isinstance(e, ClassV):
            e = self.call(e, [], {})
        if not isinstance(e, Instance):
            self.throw("TypeError", "exceptions must derive from BaseException")
        if s.cause is not None:
            e.fields["__cause__"] = self.eval(s.cause, fr)
        raise PyRaise(e, list(self.callstack[-6:]) + [f"line {s.lineno}"])

    def st_Try(self, s, fr):
        try:
            try:
                self.exec_block(s.body, fr)
            except PyRaise as pr:
                for h in s.handlers:
                    if h.type is None:
                        match = True
                    else:
                        t = self.eval(h.type, fr)
                        match = self.isinstance(pr.exc, t)
                    if match:
                        if h.name:
                            fr.locals[h.name] = pr.exc
                        old = getattr(self, "_handling", None)
                        self._handling = pr.exc
                        try:
                            self.exec_block(h.body, fr)
                        finally:
                            self._handling = old
                        break
                else:
                    raise
            else:
                self.exec_block(s.orelse, fr)
        finally:
            if s.finalbody:
                self.exec_block(s.finalbody, fr)

    def st_With(self, s, fr):
        mgrs = []
        for item in s.items:
            m = self.eval(item.context_expr, fr)
            enter = self.getattr(m, "__enter__")
            v = self.call(enter, [], {})
            if item.optional_vars is not None:
                self.assign(item.optional_vars, v, fr)
            mgrs.append(m)
        try:
            self.exec_block(s.body, fr)
        except PyRaise as pr:
            for m in reversed(mgrs):
                self.call(self.getattr(m, "__exit__"), [self.type_of(pr.exc), pr.exc, None], {})
            raise
        except (ReturnEx, BreakEx, ContinueEx):
            for m in reversed(mgrs):
                self.call(self.getattr(m, "__exit__"), [None, None, None], {})
            raise
        else:
            for m in reversed(mgrs):
                self.call(self.getattr(m, "__exit__"), [None, None, None], {})

    # ------------------------------------------------------------------ expressions
    def eval(self, e, fr):
        m = getattr(self, "ex_" + type(e).__name__, None)
        if m is None:
            raise Unsupported(f"expression {type(e).__name__} at line {getattr(e, 'lineno', '?')}")
        return m(e, fr)

    def ex_Constant(self, e, fr):
        v = e.value
        if isinstance(v, bytes):
            return BytesV(list(v), "bytes")
        if v is Ellipsis:
            return Dummy("...")
        return v

    def ex_Name(self, e, fr):
        return self.load_name(e.id, fr)

    def ex_Attribute(self, e, fr):
        return self.getattr(self.eval(e.value, fr), e.attr, fr)

    def ex_Tuple(self, e, fr):
        out = []
        for x in e.elts:
            if isinstance(x, ast.Starred):
                out.extend(self.bm.iterate(self, self.eval(x.value, fr)))
            else:
                out.append(self.eval(x, fr))
        return tuple(out)

    def ex_List(self, e, fr):
        out = []
        for x in e.elts:
            if isinstance(x, ast.Starred):
                out.extend(self.bm.iterate(self, self.eval(x.value, fr)))
            else:
                out.append(self.eval(x, fr))
        return PyList(out)

    def ex_Set(self, e, fr):
        return PySet([self.eval(x, fr) for x in e.elts])

    def ex_Dict(self, e, fr):
        d = PyDict()
        for k, v in zip(e.keys, e.values):
            if k is None:
                other = self.eval(v, fr)
                for kk, vv in other.pairs:
                    self.dict_set(d, kk, vv)
            else:
                self.dict_set(d, self.eval(k, fr), self.eval(v, fr))
        return d

    def ex_BoolOp(self, e, fr):
        is_and = isinstance(e.op, ast.And)
        v = None
        for i, x in enumerate(e.values):
            v = self.eval(x, fr)
            if i == len(e.values) - 1:
                return v
            t = self.truth(v)
            if is_and and not t:
                return v
            if not is_and and t:
                return v
        return v

    def ex_UnaryOp(self, e, fr):
        v = self.eval(e.operand, fr)
        if isinstance(e.op, ast.Not):
            if isinstance(v, (bool, SBool)):
                return ops.b_not(v)
            return not self.truth(v)
        if isinstance(e.op, ast.USub):
            if isinstance(v, (float, SReal)):
                return self.bm.real_neg(self, v)
            if isinstance(v, Instance):
                return self.call(self.getattr(v, "__neg__"), [], {})
            return ops.neg(v)
        if isinstance(e.op, ast.UAdd):
            return v
        if isinstance(e.op, ast.Invert):
            return ops.invert(v)
        raise Unsupported("unary operator")

    def ex_BinOp(self, e, fr):
        a = self.eval(e.left, fr)
        b = self.eval(e.right, fr)
        return self.binop(e.op, a, b)

    def binop(self, op, a, b, inplace=False):
        return self.bm.binop(self, op, a, b, inplace)

    def ex_Compare(self, e, fr):
        left = self.eval(e.left, fr)
        result = True
        for i, (op, right_e) in enumerate(zip(e.ops, e.comparators)):
            right = self.eval(right_e, fr)
            r = self.compare(op, left, right)
            if i == len(e.ops) - 1 and result is True:
                return r
            if isinstance(r, (bool, SBool)) and isinstance(result, (bool, SBool)):
                result = ops.b_and(result, r)
                if result is False:
                    return False
            else:
                if not self.truth(r):
                    return r
            left = right
        return result

    def compare(self, op, a, b):
        if isinstance(op, ast.Eq):
            return self.eq(a, b)
        if isinstance(op, ast.NotEq):
            if isinstance(a, Instance):
                f, owner = self.class_lookup(a.cls, "__ne__")
                if f is not None and owner is not self.object_cls:
                    return self.call(self.bind(a, f), [b], {})
            r = self.eq(a, b)
            if isinstance(r, (bool, SBool)):
                return ops.b_not(r)
            return not self.truth(r)
        if isinstance(op, ast.Is):
            return self.bm.is_(self, a, b)
        if isinstance(op, ast.IsNot):
            return ops.b_not(self.bm.is_(self, a, b))
        if isinstance(op, ast.In):
            return self.contains(b, a)
        if isinstance(op, ast.NotIn):
            return ops.b_not(self.symtruth(self.contains(b, a)))
        sym = {ast.Lt: "<", ast.LtE: "<=", ast.Gt: ">", ast.GtE: ">="}[type(op)]
        return self.bm.order_cmp(self, sym, a, b)

    def ex_IfExp(self, e, fr):
        if self.truth(self.eval(e.test, fr)):
            return self.eval(e.body, fr)
        return self.eval(e.orelse, fr)

    def ex_Call(self, e, fr):
        # zero-argument super()
        if isinstance(e.func, ast.Name) and e.func.id == "super" and not e.args:
            first = fr.func.node.args.args[0].arg if fr.func is not None and fr.func.node.args.args else None
            if fr.cls is None or first is None:
                raise Unsupported("super() outside a method")
            return SuperV(fr.cls, fr.locals[first])
        f = self.eval(e.func, fr)
        args = []
        for a in e.args:
            if isinstance(a, ast.Starred):
                args.extend(self.bm.iterate(self, self.eval(a.value, fr)))
            else:
                args.append(self.eval(a, fr))
        kwargs = {}
        for k in e.keywords:
            if k.arg is None:
                d = self.eval(k.value, fr)
                for kk, vv in d.pairs:
                    kwargs[kk] = vv
            else:
                kwargs[k.arg] = self.eval(k.value, fr)
        return self.call(f, args, kwargs)

    def eval_index(self, sl, fr):
        if isinstance(sl, ast.Slice):
            return SliceV(self.eval(sl.lower, fr) if sl.lower is not None else None,
                          self.eval(sl.upper, fr) if sl.upper is not None else None,
                          self.eval(sl.step, fr) if sl.step is not None else None)
        return self.eval(sl, fr)

    def ex_Subscript(self, e, fr):
        obj = self.eval(e.value, fr)
        idx = self.eval_index(e.slice, fr)
        return self.bm.getitem(self, obj, idx)

    def ex_Slice(self, e, fr):
        return self.eval_index(e, fr)

    def ex_Lambda(self, e, fr):
        return self.make_function(e, fr, "<lambda>")

    def ex_JoinedStr(self, e, fr):
        return self.bm.fstring(self, e, fr)

    def ex_FormattedValue(self, e, fr):
        return self.bm.fstring(self, ast.JoinedStr(values=[e]), fr)

    def _comp(self, gens, fr, emit):
        def rec(i, env_fr):
            if i == len(gens):
                emit(env_fr)
                return
            g = gens[i]
            for v in self.bm.iterate(self, self.eval(g.iter, env_fr)):
                self.assign(g.target, v, env_fr)
                if all(self.truth(self.eval(c, env_fr)) for c in g.ifs):
                    rec(i + 1, env_fr)
        nfr = Frame({}, fr.globs, (fr.locals, fr.closure), fr.cls, fr.func, fr.mangle)
        rec(0, nfr)

    def ex_ListComp(self, e, fr):
        out = []
        self._comp(e.generators, fr, lambda f: out.append(self.eval(e.elt, f)))
        return PyList(out)

    def ex_GeneratorExp(self, e, fr):
        return self.ex_ListComp(e, fr)

    def ex_SetComp(self, e, fr):
        out = []
        self._comp(e.generators, fr, lambda f: out.append(self.eval(e.elt, f)))
        return PySet(out)

    def ex_DictComp(self, e, fr):
        from . import opendict
        if len(e.generators) == 1:
            g = e.generators[0]
            src = self.eval(g.iter, fr)
            if isinstance(src, opendict.OpenItems):
                # {k: v for k, v in d.items() if cond}: only the identity mapping keeps the dict "open"
                t = g.target
                if (isinstance(t, ast.Tuple) and len(t.elts) == 2 and all(isinstance(x, ast.Name) for x in t.elts)
                        and isinstance(e.key, ast.Name) and isinstance(e.value, ast.Name)
                        and e.key.id == t.elts[0].id and e.value.id == t.elts[1].id):
                    return opendict.derive(self, src.d, g, fr)
                raise Unsupported("dict comprehension over an open dict that is not a plain filter")
        d = PyDict()
        self._comp(e.generators, fr, lambda f: self.dict_set(d, self.eval(e.key, f), self.eval(e.value, f)))
        return d

    def ex_Starred(self, e, fr):
        raise Unsupported("starred expression")

    def ex_NamedExpr(self, e, fr):
        v = self.eval(e.value, fr)
        self.assign(e.target, v, fr)
        return v
