"""Loading contract files and running obligations."""
from __future__ import annotations
import ast
import hashlib
import os
import time
import traceback
import z3

from .values import *  # noqa
from . import ops
from .explore import Config, PathCtx, explore, Unsupported, PathInfeasible, PathAbort
from .interp import Interp, Program, PyRaise, Frame
from .spec_prims import TypeDesc

VERIF = os.path.dirname(os.path.dirname(os.path.abspath(__file__)))
REPO = os.environ.get("PYVC_REPO", "/repo")


def roots():
    return [REPO, os.path.join(VERIF, "speclib"), os.path.join(VERIF, "contracts")]


class Loaded:
    def __init__(self, interp, module, registry):
        self.interp = interp
        self.module = module
        self.registry = registry

    def obligations(self):
        out = []
        for kind, a, k, f in self.registry:
            if kind in ("obligation", "lemma"):
                props = a[0] if isinstance(a[0], (list, tuple)) else [a[0]]
                if isinstance(a[0], PyList):
                    props = a[0].items
                out.append({"kind": kind, "props": list(props), "name": a[1], "opts": k, "func": f})
        return out


def load(contract_module, cfg, overrides=None, with_summaries=True):
    prog = Program(roots(), overrides)
    interp = Interp(prog, cfg)
    interp.registry = []
    # module loading happens outside any path: give it a throw-away context
    interp.ctx = PathCtx([], cfg)
    mod = interp.import_module(contract_module)
    reg = list(interp.registry)
    interp.loop_specs = {}
    for kind, a, k, f in reg:
        if kind == "loop_spec":
            interp.loop_specs[(a[0], a[1])] = (k, f)
    if with_summaries:
        for kind, a, k, f in reg:
            if kind == "summary":
                interp.summaries[a[0]] = f
    return Loaded(interp, mod, reg)


def materialize(interp, name, td, depth=0):
    ctx = interp.ctx
    if not isinstance(td, TypeDesc):
        raise Unsupported(f"parameter {name}: annotation is not a type descriptor ({td!r})")
    k = td.kind
    if k == "int":
        lo, hi = td.args
        v = z3.Int(name)
        if lo is not None:
            ctx.assume(v >= lo)
        if hi is not None:
            ctx.assume(v <= hi)
        ctx.register_input(name, "int", v)
        return SInt(v, lo, hi, 0)
    if k == "bool":
        v = z3.Bool(name)
        ctx.register_input(name, "bool", v)
        return SBool(v)
    if k in ("bytes", "bytearray"):
        lo, hi = td.args
        s = z3.Const(name, SeqSort)
        n = z3.Int("len_" + name)
        ctx.assume(z3.Length(s) == n)
        ctx.assume(n >= (lo if lo is not None else 0))
        if hi is not None:
            ctx.assume(n <= hi)
        ctx.register_input(name, "bytes", s)
        return BytesV([Blk(s, n, name, True)], k)
    if k == "enum":
        cls = td.args[0]
        if not (isinstance(cls, ClassV) and cls.is_enum):
            raise Unsupported(f"EnumOf({cls!r})")
        uniq = []
        for m in cls.members.values():
            if m not in uniq:
                uniq.append(m)
        if cls.is_intenum:
            v = z3.Int(name)
            vals = sorted(m.v for m in uniq)
            ctx.assume(z3.Or(*[v == c for c in vals]))
            ctx.register_input(name, "enum", (cls.name, v))
            return EnumV(cls, SInt(v, min(vals), max(vals), 0), None)
        idx = z3.Int(name)
        ctx.assume(z3.And(idx >= 0, idx < len(uniq)))
        for i, m in enumerate(uniq):
            if ctx.branch(idx == i):
                ctx.register_input(name, "const", {"enum_member": [cls.name, m.name]})
                return m
        raise PathInfeasible()
    if k == "choice":
        vals = td.args
        idx = z3.Int(name + "#choice")
        ctx.assume(z3.And(idx >= 0, idx < len(vals)))
        for i, c in enumerate(vals):
            if ctx.branch(idx == i):
                ctx.register_input(name, "const", c if isinstance(c, (int, str, bool)) or c is None else repr(c))
                return c
        raise PathInfeasible()
    if k == "optional":
        p = z3.Bool(name + "#none")
        if ctx.branch(p):
            ctx.register_input(name, "const", None)
            return None
        return materialize(interp, name, td.args[0], depth + 1)
    if k == "pairlist":
        from . import loops
        s = z3.Const(name, loops.PairSeqSort)
        ctx.register_input(name, "pairlist", s)
        return PyList([], prefix=s)
    if k == "chunks":
        s = z3.Const(name, SeqSort)
        n = z3.Int(name + "#count")
        ctx.assume(n >= 0)
        ctx.register_input(name, "bytes", s)
        ctx.register_input(name + "#count", "int", n)
        return PyDeque([], rest=ops.mk_open_rest(ctx, s, n))
    if k == "list" and td.args[1] is None:
        if td.args[0].kind != "int" or td.args[0].args != (None, None):
            raise Unsupported("open lists are lists of unconstrained ints")
        s = z3.Const(name, SeqSort)
        ctx.register_input(name, "intlist", s)
        return PyList([], prefix=s)
    if k == "list":
        t, maxlen = td.args
        n = z3.Int(name + "#len")
        ctx.assume(z3.And(n >= 0, n <= maxlen))
        ctx.notes.append(f"bounded: list parameter {name} has at most {maxlen} elements")
        for ln in range(maxlen + 1):
            if ctx.branch(n == ln):
                ctx.register_input(name + "#len", "const", ln)
                return PyList([materialize(interp, f"{name}[{i}]", t, depth + 1) for i in range(ln)])
        raise PathInfeasible()
    if k == "tuple":
        return tuple(materialize(interp, f"{name}.{i}", t, depth + 1) for i, t in enumerate(td.args))
    if k == "str":
        maxoct = td.args[0]
        s = z3.Const(name, SeqSort)
        n = z3.Int("len_" + name)
        ctx.assume(z3.Length(s) == n)
        ctx.assume(n >= 0)
        if maxoct is not None:
            ctx.assume(n <= maxoct)
        valid = z3.Function("valid_utf8", SeqSort, z3.BoolSort())
        chars = z3.Function("utf8_chars", SeqSort, IntSort)
        ctx.assume(valid(s))
        c = chars(s)
        ctx.assume(z3.And(c >= 0, c <= n, 4 * c >= n))
        if len(td.args) > 1 and td.args[1]:
            # AsciiStrLen: only strings with as many characters as octets; the count is then the length itself
            ctx.assume(c == n)
            ctx.register_input(name, "str", s)
            ctx.trusted.add("str: abstract strings = their UTF-8 octets; valid_utf8 is an uninterpreted predicate")
            return StrV(BytesV([Blk(s, n, name, True)], "bytes"), ops.mk(n, 0, maxoct, 0))
        ctx.register_input(name, "str", s)
        ctx.trusted.add("str: abstract strings = their UTF-8 octets; valid_utf8 is an uninterpreted predicate")
        return StrV(BytesV([Blk(s, n, name, True)], "bytes"), ops.mk(c, 0, None, 0))
    if k == "text":
        from . import fs_model
        maxlen = td.args[0]
        s = z3.Const(name, SeqSort)
        n = z3.Int("len_" + name)
        ctx.assume(z3.Length(s) == n)
        ctx.assume(n >= 0)
        if maxlen is not None:
            ctx.assume(n <= maxlen)
        ctx.register_input(name, "text", s)
        return fs_model.mk_text([Blk(s, n, name, fs_model.ASCII)])
    if k == "real":
        v = z3.Real(name)
        ctx.register_input(name, "real", v)
        return SReal(v)
    raise Unsupported(f"type descriptor {k}")


def run_harness(loaded: Loaded, ob, cfg, shard=None):
    """Explore all paths of one obligation harness.  Returns a JSON-able summary."""
    interp = loaded.interp
    f = ob["func"]
    opts = dict(ob["opts"])
    if shard is not None:
        opts["shard"] = tuple(shard[:2])
        if len(shard) > 2:
            opts["shard_mode"] = shard[2]
        if len(shard) > 3:
            opts["shard_depth"] = shard[3]
    verifies = opts.get("verifies")
    if isinstance(verifies, str):
        verifies = [verifies]
    elif isinstance(verifies, PyList):
        verifies = list(verifies.items)
    interp.summary_off = set(verifies or [])
    interp.used_summaries = set()
    interp.inlined = set()
    t0 = time.time()

    def run_path(ctx):
        interp.ctx = ctx
        interp.depth = 0
        interp.callstack = []
        args = []
        fr = Frame({}, f.globs)
        for p in f.node.args.args:
            if p.annotation is None:
                raise Unsupported(f"harness parameter {p.arg} has no type descriptor")
            td = interp.eval(p.annotation, fr)
            args.append(materialize(interp, p.arg, td))
        try:
            interp.call(f, args, {})
        except PyRaise as pr:
            cls = pr.exc.cls.name
            ctx.fail("no-escape", kind="escape", detail=f"uncaught {cls}{pr.exc.fields.get('args', '')!r:.200} in harness at {pr.where}")

    pcfg = cfg
    if any(k in cfg.__dict__ for k in opts):
        pcfg = Config(**{**cfg.__dict__, **{k: v for k, v in opts.items() if k in cfg.__dict__}})
        interp.cfg = pcfg
    try:
        results = explore(run_path, pcfg)
        crash = None
    except Exception as e:  # engine failure: reported, never a violation
        results = []
        crash = f"{type(e).__name__}: {e}\n{traceback.format_exc(limit=8)}"
    finally:
        interp.cfg = cfg
    clauses = {}
    problems = []
    n_ok = 0
    trusted = set()
    covers = set()
    notes = set()
    solver_secs = 0.0
    solver_calls = 0
    for r in results:
        solver_secs += r.solver_secs
        solver_calls += r.solver_calls
        trusted |= r.trusted
        covers |= r.covers
        notes |= set(r.notes)
        if r.end == "ok":
            n_ok += 1
        elif r.end == "other-shard":
            continue
        elif r.end != "infeasible":
            problems.append(r.end)
        for o in r.obls:
            c = clauses.setdefault(o.label, {"label": o.label, "kind": o.kind, "paths": 0, "discharged": 0, "failed": [], "unknown": [],
                                             "backends": {}, "secs": 0.0})
            c["paths"] += 1
            c["secs"] += o.secs
            c["backends"][o.backend] = c["backends"].get(o.backend, 0) + 1
            if o.status == "discharged":
                c["discharged"] += 1
            elif o.status == "failed":
                if len(c["failed"]) < 3:
                    c["failed"].append({"model": o.model, "detail": o.detail, "backend": o.backend})
                else:
                    c.setdefault("more_failed", 0)
                    c["more_failed"] = c.get("more_failed", 0) + 1
            else:
                c["unknown"].append({"detail": o.detail, "backend": o.backend})
    if crash:
        problems.append("error:" + crash)
    return {"props": ob["props"], "name": ob["name"], "kind": ob["kind"], "paths": len(results), "paths_ok": n_ok,
            "clauses": list(clauses.values()), "problems": problems[:5], "n_problems": len(problems),
            "trusted": sorted(trusted), "covers": sorted(covers), "notes": sorted(notes),
            "summaries_used": sorted(interp.used_summaries), "inlined": sorted(interp.inlined),
            "verifies": list(verifies or []), "solver_secs": round(solver_secs, 3), "solver_calls": solver_calls,
            "wall_s": round(time.time() - t0, 3), "bounded": opts.get("bounded"),
            "own_paths": sum(1 for r in results if r.end != "other-shard")}


def func_hashes(interp, qualnames):
    """sha256 of the source segment of each repo function that was executed."""
    out = {}
    index = {}
    for mod in interp.modules.values():
        if mod.path is None:
            continue
        text, tree = interp.program.read(mod.path)
        lines = text.splitlines()
        for node in ast.walk(tree):
            if isinstance(node, ast.ClassDef):
                for sub in node.body:
                    if isinstance(sub, (ast.FunctionDef,)):
                        index.setdefault(f"{mod.name}:{node.name}.{sub.name}", []).append((mod.path, sub, lines))
            elif isinstance(node, ast.FunctionDef):
                index.setdefault(f"{mod.name}:{node.name}", []).append((mod.path, node, lines))
    for q in qualnames:
        ent = index.get(q)
        if not ent:
            continue
        h = hashlib.sha256()
        for path, node, lines in ent:
            start = min([node.lineno] + [d.lineno for d in node.decorator_list]) - 1
            h.update("\n".join(lines[start:node.end_lineno]).encode())
        out[q] = h.hexdigest()[:16]
    return out
