"""Ghost file system, pathlib.Path, open(), decimal text.  Filled in for C19."""
from __future__ import annotations
from .values import *  # noqa
from .explore import Unsupported


def open_(interp, *a, **k):
    raise Unsupported("open()")


def int_of_text(interp, v, base):
    raise Unsupported("int() of abstract text")


def stub_module(interp, name):
    m = ModuleV(name, {})
    m.stub = True
    return m
