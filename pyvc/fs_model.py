"""Ghost file system, pathlib.Path, open(), decimal text.  Filled in for C19.

Trusted model (each part is recorded in ctx.trusted when it is used):

* File system: a map  key -> text | absent  kept in ctx.ghost["fs"] (per path of the symbolic execution).
  Text is a rope of characters; only ASCII text is modelled (characters = octets, no codec questions).
  Only paths handed out by the spec primitive ghost_file(...) exist in the map; anything else is
  reported as unsupported.  No I/O error other than FileNotFoundError, single process, POSIX host
  (os.linesep == "\\n").
* open(p, "w") creates/truncates, open(p) / open(p, "r") / open(p, "r+") raise FileNotFoundError for an absent
  file; text mode with universal newlines: readline() returns the characters up to and including the first
  line end, "\\r" and "\\r\\n" being translated to "\\n"; seek(0); write(s) overwrites in place from the
  current position and extends the file at its end, it never truncates (CPython semantics); leaving
  the with-block closes the file (content is visible to later opens).
* Decimal text: dec(n), the canonical decimal rendering of n >= 0 (str(n), f"{n}"), is an uninterpreted
  function into character sequences with the axioms: non-empty; ASCII digits only (therefore no line end,
  no white space: rstrip() leaves it unchanged, isdigit() is True); length 1 iff n <= 9; int(dec(n)) == n
  (hence dec is injective).  CPython's limit of 4300 digits for int<->str conversion is not modelled.
* Text of symbolic length: position of the first line end (first_nl), length after rstrip (rstrip_len),
  "all characters are digits" (all_digits) and the decimal value (decval >= 0) are uninterpreted; the
  character facts that follow from their definition are asserted only where a character is singled out.
  This over-approximates the behaviours of CPython (a proof is a proof, a counter-model may be spurious
  and is decided by native replay).
"""
from __future__ import annotations
import z3
from .values import *  # noqa
from .values import NOT_IMPLEMENTED
from . import ops
from .ops import as_int, is_intlike, zi
from .explore import Unsupported, PathInfeasible

DEC = z3.Function("dec", IntSort, SeqSort)
DECLEN = z3.Function("declen", IntSort, IntSort)
DECVAL = z3.Function("decval", SeqSort, IntSort)
ALLDIG = z3.Function("all_digits", SeqSort, z3.BoolSort())
FIRSTNL = z3.Function("first_nl", SeqSort, IntSort)
RSTRIPLEN = z3.Function("rstrip_len", SeqSort, IntSort)

ASCII = 127  # value of Blk.octets for blocks of text: upper bound of an element

T_FS = ("fs: ghost file system (path -> ASCII text | absent); pathlib.Path.exists, open(p, 'w'|'r'|'r+') in text mode with universal "
        "newlines on a POSIX host, readline, seek(0), write = overwrite in place / extend at end without truncation, close on "
        "with-exit; no I/O error other than FileNotFoundError, single process")
T_DEC = ("dec: canonical decimal text dec(n) of n >= 0 (str(n), f'{n}') is uninterpreted with the axioms: non-empty, ASCII digits only "
         "(no line end / white space, rstrip() and isdigit() accordingly), length 1 iff n <= 9, int(dec(n)) == n; CPython's "
         "4300-digit conversion limit is not modelled")
T_TEXT = ("text: on ASCII text of symbolic length first_nl / rstrip_len / all_digits / decval are uninterpreted "
          "(over-approximation of readline, rstrip, isdigit, int)")


class TextV(StrV):
    """ASCII text: characters == octets (utf8.rope holds the characters)."""
    __slots__ = ()


class DecBlk(Blk):
    """The block dec(num)."""
    __slots__ = ("num",)


def _b(name):
    def deco(fn):
        return Builtin(name, lambda interp, args, kwargs: fn(interp, *args, **kwargs))
    return deco


def mk_text(rope):
    rope = list(rope)
    return TextV(BytesV(rope, "bytes"), ops.rope_len(rope))


# ------------------------------------------------------------------------------------------------
# decimal text
# ------------------------------------------------------------------------------------------------

def dec_rope(interp, n):
    """characters of str(n) for an integer n (int | SInt)"""
    n = as_int(n)
    if isinstance(n, int):
        return [ord(c) for c in str(n)]
    ctx = interp.ctx
    if interp.truth(ops.cmp("<", n, 0)):
        return [45] + dec_rope(interp, ops.neg(n))
    key = ("dec", n.t.get_id())
    blk = ctx.ghost.get(key)
    if blk is None:
        ctx.trusted.add(T_DEC)
        t = DEC(n.t)
        ln = DECLEN(n.t)
        ctx.assume(z3.Length(t) == ln)
        ctx.assume(ln >= 1)
        ctx.assume((ln == 1) == (n.t <= 9))
        ctx.assume(DECVAL(t) == n.t)
        ctx.assume(ALLDIG(t))
        blk = DecBlk(t, ln, f"dec({n.t})", ASCII)
        blk.num = n
        ctx.ghost[key] = blk
    return [blk]


def _digits_known(ctx, e):
    return isinstance(e, DecBlk) or ("digits", id(e)) in ctx.ghost


def text_rope(interp, s):
    """characters of a text value (str | TextV | f-string of those and of integers); NOT_IMPLEMENTED if
    the value is not such a text"""
    if isinstance(s, str):
        if not s.isascii():
            raise Unsupported("non-ASCII text in the ghost file system")
        return [ord(c) for c in s]
    if isinstance(s, TextV):
        return list(s.utf8.rope)
    if isinstance(s, FStrV):
        out = []
        for p in s.parts:
            if isinstance(p, str):
                r = text_rope(interp, p)
            else:
                val, conv, spec = p
                if spec != "" or conv not in (-1, ord("s")):
                    return NOT_IMPLEMENTED
                if isinstance(val, (bool, SBool)):
                    return NOT_IMPLEMENTED
                if is_intlike(val) and not isinstance(val, EnumV):
                    r = dec_rope(interp, val)
                elif isinstance(val, (str, TextV, FStrV)):
                    r = text_rope(interp, val)
                    if r is NOT_IMPLEMENTED:
                        return r
                else:
                    return NOT_IMPLEMENTED
            out.extend(r)
        return out
    return NOT_IMPLEMENTED


def text_eq(interp, a, b):
    ra = text_rope(interp, a)
    rb = text_rope(interp, b)
    if ra is NOT_IMPLEMENTED or rb is NOT_IMPLEMENTED:
        return NOT_IMPLEMENTED
    return ops.rope_eq(ra, rb)


def _is_ws_term(e):
    return z3.Or(z3.And(e >= 9, e <= 13), z3.And(e >= 28, e <= 32))


def _one(interp, rope, pos):
    """(left, element, right) with the element at offset pos singled out (0 <= pos < len established)"""
    left, rest = ops.split_at(interp, rope, pos)
    one, right = ops.split_at(interp, rest, 1)
    one = ops.norm(one)
    if len(one) != 1 or isinstance(one[0], Blk):
        raise Unsupported("could not single out a character")
    return left, one[0], right


def _seg_len(e):
    if not isinstance(e, Blk):
        return 1
    return e.n if isinstance(e.n, int) else ops.mk(e.n, 0, None, 0)


def take_line(interp, data):
    """readline on the characters `data` (text mode, universal newlines): (line, number of characters consumed)"""
    ctx = interp.ctx
    out = []
    consumed = 0
    rope = ops.norm(data)
    i = 0
    while i < len(rope):
        e = rope[i]
        if isinstance(e, Blk):
            if _digits_known(ctx, e):
                out.append(e)
                consumed = ops.add(consumed, _seg_len(e))
                i += 1
                continue
            ctx.trusted.add(T_TEXT)
            n_t = ops.elem_term(e.n)
            k = FIRSTNL(e.seq)
            ctx.assume(z3.And(k >= -1, k < n_t))
            if ctx.branch(k < 0):
                out.append(e)
                consumed = ops.add(consumed, _seg_len(e))
                i += 1
                continue
            pre, ch, post = _one(interp, [e], ops.mk(k, 0, None, 0))
            ctx.assume(z3.Or(ops.elem_term(ch) == 10, ops.elem_term(ch) == 13))
            rope = rope[:i] + list(pre) + [ch] + list(post) + rope[i + 1:]
            for p in pre:
                out.append(p)
                consumed = ops.add(consumed, _seg_len(p))
            i += len(pre)
            continue
        if isinstance(e, int):
            is10, is13 = e == 10, e == 13
        else:
            is10 = ctx.branch(e == 10)
            is13 = False if is10 else ctx.branch(e == 13)
        if is10:
            out.append(10)
            return out, ops.add(consumed, 1)
        if is13:
            consumed = ops.add(consumed, 1)
            rest = rope[i + 1:]
            if interp.truth(ops.cmp(">=", ops.rope_len(rest), 1)):
                _, nxt, _ = _one(interp, rest, 0)
                if isinstance(nxt, int):
                    lf = nxt == 10
                else:
                    lf = ctx.branch(nxt == 10)
                if lf:
                    consumed = ops.add(consumed, 1)
            out.append(10)
            return out, consumed
        out.append(e)
        consumed = ops.add(consumed, 1)
        i += 1
    return out, consumed


def t_rstrip(interp, s, chars=None):
    if chars is not None:
        raise Unsupported("rstrip with an argument on abstract text")
    if not isinstance(s, TextV):
        raise Unsupported("rstrip on an abstract non-ASCII string")
    ctx = interp.ctx
    rope = list(ops.norm(s.utf8.rope))
    while rope:
        e = rope[-1]
        if isinstance(e, Blk):
            if _digits_known(ctx, e):
                break
            ctx.trusted.add(T_TEXT)
            n_t = ops.elem_term(e.n)
            j = RSTRIPLEN(e.seq)
            ctx.assume(z3.And(j >= 0, j <= n_t))
            if ctx.branch(j == 0):
                rope.pop()
                continue
            keep, _ = ops.split_at(interp, [e], ops.mk(j, 1, None, 0))
            front, ch, _ = _one(interp, keep, ops.mk(j - 1, 0, None, 0))
            ctx.assume(z3.Not(_is_ws_term(ops.elem_term(ch))))
            rope = rope[:-1] + list(front) + [ch]
            break
        if isinstance(e, int):
            ws = (9 <= e <= 13) or (28 <= e <= 32)
        else:
            ws = ctx.branch(_is_ws_term(e))
        if not ws:
            break
        rope.pop()
    return mk_text(rope)


def t_isdigit(interp, s):
    if not isinstance(s, TextV):
        raise Unsupported("isdigit on an abstract non-ASCII string")
    ctx = interp.ctx
    nonempty = False
    for e in ops.norm(s.utf8.rope):
        if isinstance(e, Blk):
            if _digits_known(ctx, e):
                nonempty = True
                continue
            if ctx.branch(ops.elem_term(e.n) == 0):
                continue
            ctx.trusted.add(T_TEXT)
            if not ctx.branch(ALLDIG(e.seq)):
                return False
            ctx.ghost[("digits", id(e))] = e
            nonempty = True
        elif isinstance(e, int):
            if not 48 <= e <= 57:
                return False
            nonempty = True
        else:
            if not ctx.branch(z3.And(e >= 48, e <= 57)):
                return False
            nonempty = True
    return nonempty


def t_startswith(interp, s, prefix):
    from . import builtins_model as bm
    a = text_rope(interp, s)
    p = text_rope(interp, prefix)
    if a is NOT_IMPLEMENTED or p is NOT_IMPLEMENTED:
        raise Unsupported("startswith on this kind of string")
    n = ops.rope_len(p)
    if interp.truth(ops.cmp("<", ops.rope_len(a), n)):
        return False
    head, _ = ops.split_at(interp, a, n)
    return ops.rope_eq(head, p)


def int_of_text(interp, v, base):
    """int(text) for a text that has been established to consist of decimal digits"""
    if base is not None and base != 10:
        raise Unsupported("int() of abstract text with a base other than 10")
    rope = text_rope(interp, v)
    if rope is NOT_IMPLEMENTED:
        raise Unsupported("int() of a formatted string")
    ctx = interp.ctx
    rope = ops.norm(rope)
    if ops.rope_is_concrete(rope):
        try:
            return int(bytes(rope).decode("ascii"))
        except ValueError:
            interp.throw("ValueError", "invalid literal for int() with base 10")
    if len(rope) == 1 and isinstance(rope[0], DecBlk):
        return rope[0].num
    for e in rope:
        if isinstance(e, Blk):
            if not _digits_known(ctx, e):
                raise Unsupported("int() of text not established to consist of decimal digits")
        elif isinstance(e, int):
            if not 48 <= e <= 57:
                raise Unsupported("int() of text not established to consist of decimal digits")
        elif not ctx.valid(z3.And(e >= 48, e <= 57)):
            raise Unsupported("int() of text not established to consist of decimal digits")
    if not any(isinstance(e, Blk) for e in rope):
        k = len(rope)
        t = z3.Sum([(ops.elem_term(e) - 48) * (10 ** (k - 1 - i)) for i, e in enumerate(rope)]) if k > 1 else ops.elem_term(rope[0]) - 48
        return ops.mk(t, 0, 10 ** k - 1, 0)
    ctx.trusted.add(T_TEXT)
    t = DECVAL(ops.rope_term(rope))
    ctx.assume(t >= 0)
    return ops.mk(t, 0, None, 0)


TEXT_METHODS = {"rstrip": t_rstrip, "isdigit": t_isdigit, "startswith": t_startswith}


# ------------------------------------------------------------------------------------------------
# file system
# ------------------------------------------------------------------------------------------------

def get_fs(interp):
    ctx = interp.ctx
    fs = ctx.ghost.get("fs")
    if fs is None:
        fs = ctx.ghost["fs"] = {}
    return fs


def path_cls(interp):
    return interp.import_module("pathlib").ns["Path"]


def path_key(interp, p):
    if isinstance(p, Instance) and p.cls is path_cls(interp):
        return p.fields["_key"]
    if isinstance(p, str):
        return p
    raise Unsupported("file name that is neither a str nor a pathlib.Path")


def lookup(interp, key):
    fs = get_fs(interp)
    if key not in fs:
        raise Unsupported(f"path {key!r} is not part of the ghost file system (use ghost_file)")
    interp.ctx.trusted.add(T_FS)
    return fs


def ghost_file(interp, text=None):
    """spec primitive: a fresh path; the file is absent (text None) or holds the given text"""
    fs = get_fs(interp)
    key = f"/ghost/{len(fs)}/seqcnt.txt"
    if text is None:
        fs[key] = None
    else:
        rope = text_rope(interp, text)
        if rope is NOT_IMPLEMENTED:
            raise Unsupported("ghost_file: not a text")
        fs[key] = list(rope)
    interp.ctx.trusted.add(T_FS)
    return Instance(path_cls(interp), {"_key": key})


def ghost_remove(interp, p):
    key = path_key(interp, p)
    fs = lookup(interp, key)
    if fs[key] is None:
        interp.throw("FileNotFoundError", "no such file")
    fs[key] = None
    return None


def file_text(interp, p):
    key = path_key(interp, p)
    fs = lookup(interp, key)
    if fs[key] is None:
        return None
    return mk_text(fs[key])


def make_file_cls(interp):
    cls = ClassV("TextIOWrapper", [interp.builtins["object"]], {}, "io")

    def method(name):
        def deco(fn):
            b = Builtin("TextIOWrapper." + name, lambda interp_, args, kwargs: fn(interp_, *args, **kwargs))
            b.is_method = True
            cls.ns[name] = b
            return fn
        return deco

    def content(interp, f):
        if f.fields["_closed"]:
            interp.throw("ValueError", "I/O operation on closed file.")
        fs = lookup(interp, f.fields["_key"])
        c = fs[f.fields["_key"]]
        if c is None:
            raise Unsupported("file removed while open")
        return fs, c

    @method("__enter__")
    def enter(interp, f):
        if f.fields["_closed"]:
            interp.throw("ValueError", "I/O operation on closed file.")
        return f

    @method("__exit__")
    def exit_(interp, f, *a):
        f.fields["_closed"] = True
        return None

    @method("close")
    def close(interp, f):
        f.fields["_closed"] = True
        return None

    @method("flush")
    def flush(interp, f):
        return None

    @method("readline")
    def readline(interp, f, size=-1):
        if size != -1:
            raise Unsupported("readline with a size")
        fs, c = content(interp, f)
        if f.fields["_mode"] not in ("r", "r+"):
            interp.throw("OSError", "not readable")
        if f.fields["_wrote"]:
            raise Unsupported("read after write without seek")
        _, data = ops.split_at(interp, c, f.fields["_pos"])
        line, used = take_line(interp, data)
        f.fields["_pos"] = ops.add(f.fields["_pos"], used)
        f.fields["_read"] = True
        return mk_text(line)

    @method("read")
    def read(interp, f, size=-1):
        raise Unsupported("read() on a ghost file (only readline is modelled)")

    @method("seek")
    def seek(interp, f, offset, whence=0):
        content(interp, f)
        if not (isinstance(offset, int) and offset == 0 and whence == 0):
            raise Unsupported("seek other than seek(0)")
        f.fields["_pos"] = 0
        f.fields["_read"] = False
        f.fields["_wrote"] = False
        return 0

    @method("write")
    def write(interp, f, s):
        fs, c = content(interp, f)
        if f.fields["_mode"] not in ("w", "r+"):
            interp.throw("OSError", "not writable")
        if not isinstance(s, (str, StrV, FStrV)):
            interp.throw("TypeError", "write() argument must be str")
        if f.fields["_read"]:
            raise Unsupported("write after read without seek")
        new = text_rope(interp, s)
        if new is NOT_IMPLEMENTED:
            raise Unsupported("write of a formatted string that is not decimal text")
        ln = ops.rope_len(new)
        left, rest = ops.split_at(interp, c, f.fields["_pos"])
        if interp.truth(ops.cmp(">=", ln, ops.rope_len(rest))):
            tail = []
        else:
            _, tail = ops.split_at(interp, rest, ln)
        fs[f.fields["_key"]] = list(left) + list(new) + list(tail)
        f.fields["_pos"] = ops.add(f.fields["_pos"], ln)
        f.fields["_wrote"] = True
        return ln

    return cls


def open_(interp, file, mode="r", *a, **k):
    if a or k:
        raise Unsupported("open() with buffering/encoding/newline arguments")
    if not isinstance(mode, str):
        raise Unsupported("symbolic open mode")
    key = path_key(interp, file)
    fs = lookup(interp, key)
    m = mode.replace("t", "")
    if m in ("r", "r+"):
        if fs[key] is None:
            interp.throw("FileNotFoundError", f"[Errno 2] No such file or directory: {key!r}")
    elif m == "w":
        fs[key] = []
    else:
        raise Unsupported(f"open mode {mode!r}")
    cls = interp.import_module("pathlib").ns["_TextIOWrapper"]
    return Instance(cls, {"_key": key, "_pos": 0, "_mode": m, "_closed": False, "_read": False, "_wrote": False})


def make_path_cls(interp):
    cls = ClassV("Path", [interp.builtins["object"]], {}, "pathlib")

    def method(name):
        def deco(fn):
            b = Builtin("Path." + name, lambda interp_, args, kwargs: fn(interp_, *args, **kwargs))
            b.is_method = True
            cls.ns[name] = b
            return fn
        return deco

    @method("__init__")
    def init(interp, self, *parts):
        if not all(isinstance(p, str) for p in parts):
            raise Unsupported("pathlib.Path of non-literal parts")
        self.fields["_key"] = "/".join(parts) if parts else "."
        return None

    @method("exists")
    def exists(interp, self):
        fs = lookup(interp, self.fields["_key"])
        return fs[self.fields["_key"]] is not None

    @method("is_file")
    def is_file(interp, self):
        return exists(interp, self)

    @method("__eq__")
    def eq(interp, self, other):
        if isinstance(other, Instance) and other.cls is cls:
            return self.fields["_key"] == other.fields["_key"]
        return NOT_IMPLEMENTED

    @method("__hash__")
    def hash_(interp, self):
        return ("hash", self.fields["_key"])

    @method("__str__")
    def str_(interp, self):
        return self.fields["_key"]

    @method("__fspath__")
    def fspath(interp, self):
        return self.fields["_key"]

    return cls


def stub_module(interp, name):
    m = ModuleV(name, {})
    m.stub = True
    if name == "pathlib":
        m.ns["Path"] = make_path_cls(interp)
        m.ns["PurePath"] = m.ns["Path"]
        m.ns["_TextIOWrapper"] = make_file_cls(interp)
    return m
