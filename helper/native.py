#!/venv/bin/python
"""Native side of the checker (runs under /venv/bin/python against the real package).

  native.py replay <file.json> [--repo DIR]   re-run one obligation harness on concrete inputs
  native.py run    (JSON requests on stdin, one per line; JSON answers on stdout)   batch mode

A request is {"module": contract module, "name": obligation name, "inputs": {...}}.
The answer lists every (label, held?) pair the harness evaluated and any escaping exception.
"""
import importlib
import json
import os
import sys
import traceback

VERIF = os.path.dirname(os.path.dirname(os.path.abspath(__file__)))


def setup(repo):
    for p in (os.path.join(VERIF, "contracts"), os.path.join(VERIF, "speclib"), repo):
        if p not in sys.path:
            sys.path.insert(0, p)


def build_arg(name, td, inputs):
    import pyvc_spec as ps
    k = td.kind
    if k == "optional":
        if name in inputs and inputs[name] is None:
            return None
        return build_arg(name, td.args[0], inputs)
    if k == "pairlist":
        v = inputs.get(name)
        return [tuple(x) for x in (v.get("pairlist") or [])] if isinstance(v, dict) else []
    if k == "chunks":
        import collections
        v = inputs.get(name)
        raw = bytes.fromhex(v["bytes"]) if isinstance(v, dict) and v.get("bytes") is not None else b""
        cnt = int(inputs.get(name + "#count", 0) or 0)
        if cnt <= 0:
            return collections.deque()
        cnt = min(cnt, 64)
        step = max(1, -(-len(raw) // cnt))
        parts = [bytearray(raw[i * step:(i + 1) * step]) for i in range(cnt)]
        return collections.deque(parts)
    if k == "list" and td.args[1] is None:
        v = inputs.get(name)
        return list(v["intlist"] or []) if isinstance(v, dict) and "intlist" in v else []
    if k == "list":
        n = inputs.get(name + "#len", 0)
        return [build_arg(f"{name}[{i}]", td.args[0], inputs) for i in range(n)]
    if k == "tuple":
        return tuple(build_arg(f"{name}.{i}", t, inputs) for i, t in enumerate(td.args))
    v = inputs.get(name)
    if k == "int":
        return int(v) if v is not None else (td.args[0] or 0)
    if k == "bool":
        return bool(v)
    if k in ("bytes", "bytearray"):
        raw = bytes.fromhex(v["bytes"]) if isinstance(v, dict) and v.get("bytes") is not None else b""
        lo = td.args[0] or 0
        if len(raw) < lo:
            raw = raw + bytes(lo - len(raw))
        return raw if k == "bytes" else bytearray(raw)
    if k == "enum":
        cls = td.args[0]
        if isinstance(v, dict) and "enum_member" in v:
            return getattr(cls, v["enum_member"][1])
        if isinstance(v, dict):
            return cls(v["value"])
        return list(cls)[0]
    if k == "choice":
        if v is None and None not in td.args:
            return td.args[0]
        for c in td.args:
            if c == v or repr(c) == v:
                return c
        return v
    if k == "str":
        raw = bytes.fromhex(v["str_utf8"]) if isinstance(v, dict) and v.get("str_utf8") else b""
        chars = v.get("chars") if isinstance(v, dict) else None
        try:
            text = raw.decode("utf-8")
            if chars is None or len(text) == chars:
                return text
        except UnicodeDecodeError:
            if chars is None:
                return raw.decode("utf-8", errors="replace")
        # model repair for abstract strings (the solver treats valid_utf8 / the character count as uninterpreted):
        # a real string with the model's number of octets and characters, 1..4 octets per character
        n = len(raw)
        if chars is not None and chars <= n <= 4 * chars:
            extra = n - chars
            out = []
            for _ in range(chars):
                e = min(3, extra)
                extra -= e
                out.append(("a", "\u00e4", "\u20ac", "\U0001f600")[e])
            return "".join(out)
        return raw.decode("utf-8", errors="replace")
    if k == "text":
        codes = v.get("text") if isinstance(v, dict) else None
        return "".join(chr(c % 128) for c in (codes or []))
    if k == "real":
        if isinstance(v, dict) and isinstance(v.get("real"), list):
            return v["real"][0] / v["real"][1]
        return 0.0
    raise ValueError(f"cannot build argument of kind {k}")


def random_arg(rnd, td, depth=0):
    """a random concrete value of the described shape (small sizes, boundary values favoured)"""
    import collections
    k = td.kind
    if k == "int":
        lo, hi = td.args
        cands = [0, 1, 2, 7, 8, 63, 64, 255, 256, 4095, 65535, 65536, 2 ** 31, 2 ** 32 - 1, 2 ** 32, 2 ** 63, 2 ** 64 - 1, 2 ** 64, -1, -2]
        if lo is not None:
            cands += [lo, lo + 1]
        if hi is not None:
            cands += [hi, hi - 1]
        cands = [c for c in cands if (lo is None or c >= lo) and (hi is None or c <= hi)]
        if rnd.random() < 0.5 and cands:
            return rnd.choice(cands)
        a = lo if lo is not None else -(2 ** 16)
        b = hi if hi is not None else (a + 2 ** 20)
        return rnd.randint(a, b)
    if k == "bool":
        return rnd.random() < 0.5
    if k in ("bytes", "bytearray"):
        lo, hi = td.args
        lo = lo or 0
        n = lo + rnd.choice([0, 0, 1, 2, 3, 5, 8, 13, 21, 40])
        if hi is not None:
            n = min(n, hi)
        raw = bytes(rnd.choice([0, 0, 1, 0x20, 0x24, 0x26, 0x7F, 0x80, 0xFF, rnd.randrange(256)]) for _ in range(n))
        return raw if k == "bytes" else bytearray(raw)
    if k == "enum":
        return rnd.choice(list(td.args[0]))
    if k == "choice":
        return rnd.choice(list(td.args))
    if k == "optional":
        return None if rnd.random() < 0.3 else random_arg(rnd, td.args[0], depth + 1)
    if k == "list" and td.args[1] is None:
        return [rnd.randint(-3, 300) for _ in range(rnd.randrange(0, 5))]
    if k == "list":
        return [random_arg(rnd, td.args[0], depth + 1) for _ in range(rnd.randint(0, td.args[1]))]
    if k == "tuple":
        return tuple(random_arg(rnd, t, depth + 1) for t in td.args)
    if k == "pairlist":
        return [(rnd.choice([0, 1, 255, 2 ** 32 - 1, 2 ** 32, rnd.randrange(2 ** 20)]), rnd.randrange(2 ** 33)) for _ in range(rnd.randrange(0, 5))]
    if k == "byteslist":
        return [bytes(rnd.randrange(256) for _ in range(rnd.randrange(0, 9))) for _ in range(rnd.randrange(0, 4))]
    if k == "chunks":
        return collections.deque(bytearray(rnd.randrange(256) for _ in range(rnd.randrange(0, 12))) for _ in range(rnd.randrange(0, 4)))
    if k == "str":
        alphabet = ["a", "b", "/", ".", "\u00e4", "\u20ac", "\U0001f600"]
        n = rnd.randrange(0, 6)
        return "".join(rnd.choice(alphabet) for _ in range(n))
    if k == "text":
        return "".join(rnd.choice("0123456789\n ax-") for _ in range(rnd.randrange(0, 8)))
    if k == "real":
        return rnd.choice([0.0, 0.001, 1.5, 86399.999, 1e9 + 0.0005, rnd.random() * 1e6])
    raise ValueError(f"cannot draw a random value of kind {k}")


def fuzz_one(req):
    """run one harness natively on `count` seeded random inputs; report the labels that evaluated False (with the input)"""
    import inspect, random, time
    import pyvc_spec as ps
    f = find_harness(req["module"], req["name"])
    rnd = random.Random(req.get("seed", 0))
    sig = inspect.signature(f).parameters
    t0 = time.time()
    ran = skipped = 0
    failed = {}
    escaped = None
    import signal

    class _Slow(Exception):
        pass

    def _alarm(signum, frame):
        raise _Slow()
    signal.signal(signal.SIGALRM, _alarm)
    for _ in range(int(req.get("count", 100))):
        if time.time() - t0 > float(req.get("budget_s", 10)):
            break
        try:
            args = [random_arg(rnd, p.annotation) for p in sig.values()]
        except ValueError as e:
            return {"unsupported": str(e)}
        ps._INPUTS = {}
        ps._BUILD_ARG = build_arg
        rec = ps.start_recording()
        signal.alarm(3)
        try:
            f(*args)
            ran += 1
        except ps.PreconditionFalse:
            skipped += 1
        except (_Slow, MemoryError):     # a random input that makes the real code slow or huge (e.g. 2**(2**64)): not a verdict
            skipped += 1
            rec.clear()
        except Exception as e:  # noqa
            ran += 1
            if escaped is None:
                escaped = {"class": type(e).__name__, "text": str(e)[:200], "args": [repr(a)[:200] for a in args]}
        finally:
            signal.alarm(0)
        for l, ok in rec:
            if not ok and l not in failed:
                failed[l] = [repr(a)[:300] for a in args]
    return {"ran": ran, "precondition_false": skipped, "failed": failed, "escaped": escaped, "secs": round(time.time() - t0, 2)}


def find_harness(module, name):
    import pyvc_spec as ps
    mod = importlib.import_module(module)
    for kind, a, k, f in ps.REGISTRY:
        if kind in ("obligation", "lemma") and a[1] == name and f.__module__ == mod.__name__:
            return f
    raise KeyError(f"obligation {name} not found in {module}")


def crc_repairs(raw):
    """Variants of an octet string in which some prefix has CRC-16 residue zero, obtained by
    rewriting one 2-octet window (the CRC is GF(2)-affine in the window).  The verifier treats
    crc16 as uninterpreted, so its models need this repair before they can fail natively."""
    import pyvc_spec as ps
    raw = bytes(raw)
    n = len(raw)
    for N in list(range(n, 1, -1)):
        for p in list(range(N - 2, -1, -1)):
            x0 = bytearray(raw[:N])
            x0[p] = 0
            x0[p + 1] = 0
            base = ps.crc16(x0)
            cols = []
            for bit in range(16):
                y = bytearray(x0)
                y[p + (0 if bit < 8 else 1)] ^= 1 << (7 - bit % 8)
                cols.append(ps.crc16(y) ^ base)
            # solve sum(sel_i * cols_i) == base over GF(2)
            rows = [(cols[i], 1 << i) for i in range(16)]
            target, sel = base, 0
            piv = []
            for bitpos in range(15, -1, -1):
                idx = next((k for k, (v, _) in enumerate(rows) if (v >> bitpos) & 1), None)
                if idx is None:
                    continue
                pv, pm = rows.pop(idx)
                rows = [((v ^ pv, m ^ pm) if (v >> bitpos) & 1 else (v, m)) for v, m in rows]
                piv.append((bitpos, pv, pm))
            for bitpos, pv, pm in piv:
                if (target >> bitpos) & 1:
                    target ^= pv
                    sel ^= pm
            if target != 0:
                continue
            y = bytearray(raw)
            y[p] = sum(((sel >> i) & 1) << (7 - i) for i in range(8))
            y[p + 1] = sum(((sel >> (8 + i)) & 1) << (7 - i) for i in range(8))
            if ps.crc16(y[:N]) == 0 and bytes(y) != raw:
                yield bytes(y)


def violated(ans, label):
    labels = {}
    for l, ok in ans["labels"]:
        labels[l] = labels.get(l, True) and ok
    if labels.get(label) is False:
        return True
    if label == "no-escape" and ans["escaped"]:
        return True
    if ans["escaped"] and label not in labels:
        return True
    return False


def run_with_repair(req):
    """run; if the clause is not violated on the model's inputs, try CRC-repaired variants"""
    ans = run_one(req)
    label = req.get("label")
    if label is None or "error" in ans or violated(ans, label):
        return ans
    inputs = dict(req["inputs"] or {})
    tries = 0
    for k, v in list(inputs.items()):
        if not (isinstance(v, dict) and v.get("bytes")):
            continue
        for cand in crc_repairs(bytes.fromhex(v["bytes"])):
            tries += 1
            if tries > 4000:
                break
            inp2 = dict(inputs)
            inp2[k] = {"bytes": cand.hex()}
            a2 = run_one({"module": req["module"], "name": req["name"], "inputs": inp2})
            if violated(a2, label):
                a2["repaired_inputs"] = inp2
                a2["repair"] = f"input {k}: one 2-octet window rewritten so that a prefix has CRC residue 0 ({tries} candidates tried)"
                return a2
    # The verifier's float model over-approximates binary64 rounding, so a model of an integer input may
    # need a search in its neighbourhood before the real floats fail too.
    ntries = 0
    import inspect
    params = inspect.signature(find_harness(req["module"], req["name"])).parameters
    for k, v in list(inputs.items()):
        if isinstance(v, bool) or not isinstance(v, int):
            continue
        td = params[k].annotation if k in params else None
        if getattr(td, "kind", None) != "int":
            continue
        lo, hi = td.args
        for step in (1, 1000, 1000000):
            for j in range(1, 17):
                for delta in (j * step, -j * step):
                    if (lo is not None and v + delta < lo) or (hi is not None and v + delta > hi):
                        continue
                    ntries += 1
                    inp2 = dict(inputs)
                    inp2[k] = v + delta
                    a2 = run_one({"module": req["module"], "name": req["name"], "inputs": inp2})
                    if not a2.get("precondition_false") and violated(a2, label):
                        a2["repaired_inputs"] = inp2
                        a2["repair"] = f"input {k}: neighbourhood search, {v} -> {v + delta} ({ntries} candidates tried)"
                        return a2
    ans["repair_tried"] = tries + ntries
    return ans


def run_one(req):
    import pyvc_spec as ps
    f = find_harness(req["module"], req["name"])
    inputs = req["inputs"] or {}
    args = []
    import inspect
    for pname, p in inspect.signature(f).parameters.items():
        args.append(build_arg(pname, p.annotation, inputs))
    ps._INPUTS = inputs
    ps._BUILD_ARG = build_arg
    rec = ps.start_recording()
    ans = {"labels": [], "escaped": None, "precondition_false": False, "args": [repr(a)[:300] for a in args]}
    try:
        f(*args)
    except ps.PreconditionFalse:
        ans["precondition_false"] = True
    except Exception as e:  # noqa
        ans["escaped"] = {"class": type(e).__name__, "text": str(e)[:300], "trace": traceback.format_exc(limit=6)[-1500:]}
    ans["labels"] = [[l, ok] for l, ok in rec]
    return ans


def main():
    argv = sys.argv[1:]
    repo = os.environ.get("PYVC_REPO", "/repo")
    if "--repo" in argv:
        i = argv.index("--repo")
        repo = argv[i + 1]
        del argv[i:i + 2]
    setup(repo)
    if argv and argv[0] == "replay":
        doc = json.load(open(argv[1]))
        label = doc.get("clause")
        if doc.get("fuzz"):
            # witness found by the seeded native search: regenerate the same input sequence
            ans = fuzz_one(dict(doc["fuzz"], module=doc["module"], name=doc["obligation"], budget_s=600))
            print(json.dumps(ans, indent=1)[:3000])
            if label in (ans.get("failed") or {}) or (label == "no-escape" and ans.get("escaped")):
                print(f"REPRODUCED: clause {label} is violated by the real code on the seeded random input shown")
                sys.exit(1)
            print("not reproduced")
            sys.exit(0)
        ans = run_with_repair({"module": doc["module"], "name": doc["obligation"], "inputs": doc.get("inputs"), "label": label})
        bad = [l for l, ok in ans["labels"] if not ok]
        print(json.dumps(ans, indent=1))
        if (label in bad) or (label == "no-escape" and ans["escaped"]) or (label is None and (bad or ans["escaped"])):
            print(f"REPRODUCED: clause {label} is violated by the real code on these inputs")
            sys.exit(1)
        print("not reproduced")
        sys.exit(0)
    if argv and argv[0] == "fuzz":
        import resource
        resource.setrlimit(resource.RLIMIT_AS, (6 * 1024 ** 3, 6 * 1024 ** 3))
        for line in sys.stdin:
            line = line.strip()
            if not line:
                continue
            try:
                ans = fuzz_one(json.loads(line))
            except Exception as e:  # noqa
                ans = {"error": f"{type(e).__name__}: {e}", "trace": traceback.format_exc(limit=6)[-1200:]}
            sys.stdout.write(json.dumps(ans) + "\n")
            sys.stdout.flush()
        return
    if argv and argv[0] == "run":
        for line in sys.stdin:
            line = line.strip()
            if not line:
                continue
            try:
                ans = run_with_repair(json.loads(line))
            except Exception as e:  # noqa
                ans = {"error": f"{type(e).__name__}: {e}", "trace": traceback.format_exc(limit=6)[-1500:]}
            sys.stdout.write(json.dumps(ans) + "\n")
            sys.stdout.flush()
        return
    print(__doc__)
    sys.exit(2)


if __name__ == "__main__":
    main()
