#!/usr/bin/env python3
"""Regenerate /verif/MANIFEST.json from the table below (edit CLAIMS / NOT_APPLICABLE, then run)."""
import json, os, subprocess
V = os.path.dirname(os.path.dirname(os.path.abspath(__file__)))
TECH = ("contract-based deductive verification: VCs generated from the ast of the real functions by symbolic "
        "execution, discharged by z3/cvc5; counter-models replayed on the real code")
NOTE = ("Trusted: pyvc's encoding of the Python subset (DESIGN.md 2.2: mathematical ints, struct/enum/dataclass/copy models, "
        "crc16 uninterpreted + residue lemma), SMT solvers. Callees without a summary are inlined, i.e. verified as part of the caller's paths. "
        "Exit codes: 0 held (every obligation discharged on the unchanged tree; on changed code a harness the engine cannot decide and whose "
        "bounded native search finds no failing input is printed as DEGRADED, listed as bounded in the evidence and never counted as proved), "
        "1 VIOLATION, 2 undecided, 3 checker error.")
CLAIMS = {
 "C01": ("Layout against an independent oracle, field extraction, refusal iff, inverse lemmas with arbitrary suffix: each clause is an SMT obligation over all integers / all octet strings, discharged on every path of the real functions.", "DESIGN.md 5 C01"),
 "C02": ("PUS TC pack = layout oracle with CRC as spec function, for symbolic application-data length; unpack post-conditions for arbitrary octet strings (min-length rejection, CRC gate, field extraction, prefix-only); round trip with arbitrary suffix; space-packet view.", "DESIGN.md 5 C02"),
 "C05": ("CFDP fixed header: pack = table 5-1 oracle for all flag/width/ID values (16 width cases x symbolic values), unpack decision list of errors and field extraction for arbitrary octets, round trip with suffix, refusals, caller config untouched.", "DESIGN.md 5 C05"),
 "C20": ("Unsigned byte field contracts (constructor refusal iff over all integers, view coherence, rebuild from octets for all five widths, setters, eq/hash, generator, conversion helpers) discharged for all values by case split over the five widths.", "DESIGN.md 5 C20"),
 "C16": ("History property by induction: add_tc / add_tm / remove_entry / remove_completed_entries verified against the state-machine spec sm_step on a tracker in an ARBITRARY state (open dict: any number of telecommands, arbitrary status records, step lists of any length) with a whole-view post-condition (own entry = sm_step, any other entry untouched, universally quantified other key); monotonicity lemmas over sm_step.", "DESIGN.md 5 C16"),
 "C08": ("TLV/LV: pack = 727.0-B-5 5.4 layout oracles for LV, generic TLV and the six concrete TLVs (abstract strings: chars vs octets), unpack of arbitrary octets, round trips with suffix, strict-prefix refusal, refusal of values > 255 octets, type-safety matrix over unpack/from_tlv/TlvHolder for every other TLV type, status-code helper totality.", "DESIGN.md 5 C08"),
 "C18": ("Reserved CFDP messages: nine builders pack = tlv(2, 'cfdp' + type + fields) oracle, decode/classification/get_* return exactly the original parameters incl. ID widths, other get_* return None, classifier total (never raises) over every value of 0..255 octets.", "DESIGN.md 5 C18"),
 "C03": ("PUS TM pack = layout oracle for any timestamp length (symbolic), unpack post-conditions for arbitrary octets and symbolic timestamp_len (min-length, CRC gate, field extraction, accept-iff), round trip with suffix, Service17Tm wrapper, space-packet view, setter.", "DESIGN.md 5 C03"),
 "C12": ("PDU factory: raw inspectors vs spec over arbitrary octets, dispatch from_raw == K.unpack for the selected kind (all octet strings, decoders abstracted by summaries), factory round trips for the eight kinds, 8x8 holder accessor matrix.", "DESIGN.md 5 C12"),
 "C13": ("Per-call contract of parse_space_packets for an ARBITRARY queue (any number of chunks, any stream): result == reference scan, queue afterwards == exactly the undecidable tail; both loops carry side-car invariants (loop rule with checked havoc frame), reference scan is a well-founded ghost recursion; spec-level lemmas: registered packet emitted whole, junk skipped, shift and extension induction steps (chunking independence).", "DESIGN.md 5 C13"),
 "C14": ("CDS short timestamp: integer clauses fully deductive (layout, decode of arbitrary octets, __add__ as total-millisecond arithmetic with overflow iff, day conversions), datetime as exact integer microseconds, float views in a real + IEEE-754 error-bound model.", "DESIGN.md 5 C14"),
 "C15": ("RequestId over all 2^32 values (pack/as_u32/unpack/eq/hash), PacketFieldEnum, FailureNotice, VerificationParams, the eight service-1 report kinds per (subservice, widths): source-data layout oracle, decode with suffix, equality, repack, refusal iff, arbitrary input.", "DESIGN.md 5 C15"),
 "C19": ("Sequence counters: in-memory provider by induction step over a symbolic state (all widths); file-backed provider over a ghost file system (open/readline/seek/write model, abstract decimal text): constructor, get_and_increment, new instance continues, FileNotFoundError iff, arbitrary text -> count or ValueError.", "DESIGN.md 5 C19"),
 "C07": ("File Data PDU: pack = oracle for every header configuration (metadata/no metadata, large/normal, CRC on/off, all widths), refusals iff, decode with arbitrary suffix exact to the octet incl. empty file data, decode of arbitrary octets (raises-only, CRC gate), setters (C11), maximum segment length helper.", "DESIGN.md 5 C07"),
 "C17": ("USLP: primary / truncated header pack = 732.1-B-2 oracle for every VCF length 0..7, refusal iff for out-of-range IDs (both bounds), unpack of arbitrary octets, round trips with suffix; TFDF and transfer frame pack order, len() == len(pack()), frame-length update, unpack with matching managed parameters for fixed / variable / truncated frames, acceptance conditions for mismatches.", "DESIGN.md 5 C17"),
 "C04": ("Composition: every CRC-carrying pack ends in crc16 of everything before it (crc-residue / layout clauses), every decoder that returns has checked residue 0 over the declared packet (crc-gate clauses, arbitrary octets), CRC-16 lemma library proved with bit-vectors per run (residue iff, GF(2)-linearity, zero-byte injectivity, all <=16-bit bursts over 3 octets) giving burst detection by induction over the common suffix; check_pus_crc == residue 0. crcmod vs reference CRC is a bounded native stand-in. Known finding: the CFDP CRC flag bit itself.", "DESIGN.md 5 C04"),
 "C06": ("The seven file directives: pack = 727.0-B-5 oracles for every header configuration, lengths, decode of pack+suffix, equality, accessors, repack, decode of arbitrary octets (raises-only, CRC gate), refusals, setters. NAK segment-request lists of ANY length by loop contracts + ghost recursion + induction lemmas (pack, unpack of arbitrary octets, round trip); Finished / Metadata TLV lists bounded (<= 2 items, labelled).", "DESIGN.md 5 C06 + 0a"),
 "C09": ("Clause set over the per-class contracts: every decoder post-condition is stated over pack(x) + arbitrary suffix / arbitrary octets with prefix-only clauses (result identical to decoding the first N octets, N = reported length), back-to-back split lemmas; CFDP PDUs: identical result or documented refusal.", "DESIGN.md 5 C09"),
 "C10": ("Clause set: raises-only clauses (documented classes only) of every public decoder on ARBITRARY octet strings, strict-prefix refusal for self-delimiting units, decoder loops with variants (NAK, parser) or bounded lists (labelled).", "DESIGN.md 5 C10"),
 "C11": ("Clause set: after each documented setter (objects first used: packed / hashed, so caches are exercised) reported length, length field and octets equal those of a freshly built object; pack twice identical; caller-supplied config / params objects unchanged (snapshot + same_state).", "DESIGN.md 5 C11"),
}
EXTRA_NOTE = {
 "C04": " Bounded and labelled so in evidence (never counted as discharged): agreement of crcmod with the reference CRC (seeded native run). Known finding: CFDP CRC-flag bit (KNOWN_FINDINGS.json).",
 "C06": " Bounded and labelled so in evidence: Finished / Metadata TLV lists (<= 2 items, names <= 80 octets), their arbitrary-input harnesses beyond the fixed parameters; NAK lists are unbounded (contracts/c06n.py).",
 "C09": " Bounded parts inherited from C06 (Finished / Metadata lists).",
 "C10": " Bounded parts inherited from C06 (Finished / Metadata TLV areas); quick tier runs the NAK arbitrary-input clauses on a well-formed header + arbitrary rest, thorough tier on fully arbitrary octets.",
 "C11": " Bounded parts inherited from C06 (list setters of Finished / Metadata with <= 2 items).",
 "C13": " Domain restriction: at most 2 registered packet IDs per harness; queue, stream and number of packets are unbounded (loop contracts).",
 "C14": " Float views are proved in a real-arithmetic model with IEEE-754 binary64 error bounds (assumption listed in evidence).",
 "C19": " File system, decimal text and 2**w are trusted models (listed in evidence; cross-checked against CPython by tools/xcheck_fs.py).",
}
NOT_APPLICABLE = {}
props = [json.loads(l)["id"] for l in open(os.path.join(V, "properties.jsonl"))]
checks = []
for pid in props:
    if pid in CLAIMS:
        text, ref = CLAIMS[pid]
        checks.append({"property_id": pid, "quick_cmd": f"./check {pid} --tier quick", "thorough_cmd": f"./check {pid} --tier thorough",
                       "evidence_file": f"evidence/{pid}.json", "replay_cmd_template": f"./check {pid} --replay {{path}}", "engine": "pyvc",
                       "level_claimed": {"category": "proof", "text": text, "design_ref": ref}, "level_note": NOTE + EXTRA_NOTE.get(pid, ""), "technique": TECH})
na = [{"property_id": p, "reason": NOT_APPLICABLE.get(p, "check not built yet (contracts for this property are still being written); it will be claimed once its obligations are generated and discharged")}
      for p in props if p not in CLAIMS]
m = {"version": 1,
     "setup_cmd": "python3-vt -c \"import z3\" && /venv/bin/python -c \"import spacepackets\"",
     "hooks": {"guard": "SPACEPACKETS_VERIF", "enable": "none needed: contracts are side-car files and functions are extracted from /repo's working tree on every run",
               "baseline_off_cmd": "cd /repo && /venv/bin/python -m pytest -ra -q -p no:cacheprovider --timeout=900 --continue-on-collection-errors",
               "source_commits": [], "add_only": True},
     "engines": [{"name": "pyvc", "path": "pyvc/", "serves_properties": sorted(CLAIMS),
                  "kind_free_text": "own VC generator for Python (ast -> symbolic execution -> z3/cvc5), contracts in contracts/*.py, oracles in speclib/, native replay helper/native.py"}],
     "checks": checks, "notes": "see DESIGN.md; genuine defects found are repaired in /repo as 'fix:' commits and listed in KNOWN_FINDINGS.json",
     "not_applicable": na}
json.dump(m, open(os.path.join(V, "MANIFEST.json"), "w"), indent=1)
print("claimed:", sorted(CLAIMS))
