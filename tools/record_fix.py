#!/usr/bin/env python3
"""tools/record_fix.py <property> <what failed>  -- append a 'fixed:' entry for /repo HEAD"""
import json, subprocess, sys
prop, what = sys.argv[1], sys.argv[2]
h = subprocess.check_output(["git", "-C", "/repo", "log", "-1", "--format=%h"], text=True).strip()
d = json.load(open("/verif/KNOWN_FINDINGS.json"))
d["fixed"].append({"entry": f"fixed: property={prop} {h} {what}"})
json.dump(d, open("/verif/KNOWN_FINDINGS.json", "w"), indent=1)
print(d["fixed"][-1])
