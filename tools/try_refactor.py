#!/usr/bin/env python3
"""tools/try_refactor.py <property ids, comma separated> <diff> [more diffs]

False-alarm test: applies behaviour-preserving changes (all given diffs together) to a scratch copy of /repo's working tree
(removed afterwards), runs the pinned test-suite there and then ./check <id> --tier quick against that tree for every id.
Every check must exit 0; anything else (alarm, undecided, checker error) is printed with its first lines.  /repo is not touched."""
import json, os, shutil, subprocess, sys, time
V = os.path.dirname(os.path.dirname(os.path.abspath(__file__)))
props = sys.argv[1].split(",")
diffs = [os.path.abspath(p) for p in sys.argv[2:]]
sys.path.insert(0, V)
from pyvc import canary
tmp, wt = canary.scratch_copy("/repo")
res = {"diffs": diffs, "props": {}}
ok = True
try:
    for d in diffs:
        p = subprocess.run(["git", "apply", "--unsafe-paths", "--directory=" + wt, d], capture_output=True, text=True, cwd=tmp)
        if p.returncode != 0:
            res.setdefault("apply_errors", {})[d] = p.stderr[-300:]
            ok = False
    if ok:
        p = subprocess.run(["/venv/bin/python", "-m", "pytest", "-q", "-p", "no:cacheprovider", "--timeout=900", "-x"], cwd=wt,
                           capture_output=True, text=True, timeout=1200)
        res["suite_passes"] = p.returncode == 0
        env = dict(os.environ, PYVC_REPO=wt, PYVC_EVIDENCE_DIR=os.path.join(tmp, "evidence"), PYVC_NO_CANARIES="1")
        for pr in props:
            t0 = time.time()
            p = subprocess.run([os.path.join(V, "check"), pr, "--tier", "quick"], capture_output=True, text=True, env=env, timeout=5400)
            lines = [l for l in p.stdout.splitlines() if l.startswith(("VIOLATION", "UNDECIDED", "CHECKER-ERROR", "DEGRADED"))]
            res["props"][pr] = {"exit": p.returncode, "secs": round(time.time() - t0, 1), "lines": [l[:400] for l in lines[:10]]}
            if p.returncode != 0:
                ok = False
                rp = os.path.join(V, "out", "refactor_fail")
                os.makedirs(rp, exist_ok=True)
                with open(os.path.join(rp, pr + "_" + os.path.basename(diffs[0]) + ".log"), "w") as f:
                    f.write(p.stdout[-20000:] + "\n--- stderr ---\n" + p.stderr[-5000:])
finally:
    shutil.rmtree(tmp, ignore_errors=True)
res["quiet"] = ok
print(json.dumps(res, indent=1))
sys.exit(0 if ok else 1)
