"""Validation of the float / datetime model (pyvc/floats_model.py) against CPython.

  python3-vt tools/xcheck_floats.py [n_random]

(1) Axioms: every fact the model asserts about a binary64 rounding r = RN(e), and the float -> microseconds
    conversion of timedelta(seconds=x) / fromtimestamp(x, utc), is checked on random values with exact
    rational arithmetic under /venv/bin/python.
(2) Differential: contracts/_xdt.py:probe is run natively and by the interpreter on concrete values."""
import json
import os
import random
import subprocess
import sys

VERIF = os.path.dirname(os.path.dirname(os.path.abspath(__file__)))
sys.path.insert(0, VERIF)
REPO = os.environ.get("PYVC_REPO", "/repo")

AXIOMS = r'''
import datetime, math, random, sys
from fractions import Fraction as F
rnd = random.Random(7)
N = int(sys.argv[1])
bad = 0
def fail(*a):
    global bad
    bad += 1
    if bad < 10: print("AXIOM VIOLATED", *a)
def rand_rational():
    k = rnd.randint(-40, 70)
    m = F(rnd.getrandbits(80) + 1, 1 << 80)            # (0, 1]
    e = m * F(2) ** k
    c = rnd.random()
    if c < 0.1: e = F(2) ** k                               # exact powers of two
    elif c < 0.2: e = F(2) ** k * (1 - F(1, 1 << rnd.randint(50, 60)))   # just below
    elif c < 0.3: e = F(rnd.randint(0, 86399999), 1000)     # ms / 1000
    elif c < 0.4: e = F(rnd.randint(0, 10**15), 10**6)
    return e if rnd.random() < 0.5 else -e
U = F(1, 2**53); TINY = F(1, 2**1075)
for _ in range(N):
    e = rand_rational()
    r = F(e.numerator / e.denominator)       # int / int: correctly rounded
    d = abs(r - e)
    if d > U * abs(e) + TINY: fail("relative", e)
    if (e >= 0 and r < 0) or (e <= 0 and r > 0): fail("sign", e)
    for k in range(-45, 75):
        if abs(e) <= F(2) ** k:
            if d > F(2) ** (k - 54): fail("ladder", e, k)
            if abs(r) > F(2) ** k: fail("result bound", e, k)
# arithmetic results are the rounding of the exact result
def rf():
    c = rnd.random()
    if c < 0.3: return rnd.uniform(-1e10, 1e10)
    if c < 0.6: return rnd.randint(0, 86399999) / 1000.0
    return math.ldexp(rnd.random() - 0.5, rnd.randint(-30, 60))
for _ in range(N):
    a, b = rf(), rf()
    for name, got, exact in (("+", a + b, F(a) + F(b)), ("-", a - b, F(a) - F(b)), ("*", a * b, F(a) * F(b))) + ((("/", a / b, F(a) / F(b)),) if b != 0 else ()):
        if F(got) != F(exact.numerator / exact.denominator): fail("float op", name, a, b)
    i, j = rnd.randint(-10**18, 10**18), rnd.randint(1, 10**7)
    if F(i / j) != F(F(i, j).numerator / F(i, j).denominator): fail("int/int", i, j)
    i = rnd.randint(-2**53, 2**53)
    if F(i + a) != F((F(i) + F(a)).numerator / (F(i) + F(a)).denominator): fail("int+float", i, a)
    if F(float(i)) != i: fail("int->float exact", i)
# float seconds -> microseconds
UTC = datetime.timezone.utc
E = datetime.datetime(1970, 1, 1, tzinfo=UTC)
US = datetime.timedelta(microseconds=1)
def check_us(x, got, what):
    whole = int(x)                       # trunc
    frac = F(x) - whole
    y = F((frac * 10**6).numerator / (frac * 10**6).denominator)
    n = got - whole * 10**6
    if abs(n - y) > F(1, 2): fail(what, x, got)
for _ in range(N):
    c = rnd.random()
    if c < 0.4: x = rnd.randint(-4383 * 86400000, 61153 * 86400000) / 1000.0
    elif c < 0.7: x = rnd.uniform(-4e8, 6e9)
    else: x = (rnd.randint(-10**12, 10**13) + 0.5) / 1e6     # near ties
    check_us(x, datetime.timedelta(seconds=x) // US, "timedelta(seconds=x)")
    if x >= 0:
        check_us(x, (datetime.datetime.fromtimestamp(x, tz=UTC) - E) // US, "fromtimestamp")
    us = rnd.randint(-4383 * 86400 * 10**6, 61153 * 86400 * 10**6)
    dt = E + datetime.timedelta(microseconds=us)
    q = F(us, 10**6)
    if F(dt.timestamp()) != F(q.numerator / q.denominator): fail("timestamp", us)
    td = datetime.timedelta(microseconds=us)
    if (td.days, td.seconds, td.microseconds) != (us // (86400 * 10**6), us % (86400 * 10**6) // 10**6, us % 10**6): fail("timedelta fields", us)
    if F(td.total_seconds()) != F(q.numerator / q.denominator): fail("total_seconds", us)
print("axioms:", N, "rounds,", bad, "violations")
sys.exit(1 if bad else 0)
'''

NATIVE = r'''
import json, sys
sys.path[:0] = [%r, %r, %r]
import _xdt
for line in sys.stdin:
    a = json.loads(line)
    print(json.dumps(_xdt.probe(*a)))
''' % (os.path.join(VERIF, "contracts"), os.path.join(VERIF, "speclib"), REPO)


def cases(n):
    rnd = random.Random(3)
    out = [(0, 0, 0, 0.0), (4383, 0, 0, 1.001), (4382, 86399999, -1, -0.25), (65535, 86399999, 1001000, 0.5e-6), (0, 1, -378691200000000, 2.5e-6),
           (4383, 1001, 1001000, 1.5e-6), (65535, 86399999, 5283619199999999, 5283619199.999999), (65535, 0, 86400000000, 86399.9999995)]
    for _ in range(n):
        out.append((rnd.randint(0, 65535), rnd.randint(0, 86399999), rnd.randint(-4383 * 86400 * 10 ** 6, 61153 * 86400 * 10 ** 6 - 1),
                    rnd.choice([rnd.uniform(-4e8, 5e9), rnd.randint(-10 ** 9, 10 ** 10) / 1000.0, (rnd.randint(0, 10 ** 13) + 0.5) / 1e6])))
    return out


def plain(v):
    from pyvc.values import PyList
    if isinstance(v, PyList):
        return [plain(x) for x in v.items]
    if isinstance(v, tuple):
        return [plain(x) for x in v]
    return v


def model_results(cs):
    os.environ["PYVC_REPO"] = REPO
    from pyvc import contracts
    from pyvc.explore import Config, PathCtx
    cfg = Config()
    L = contracts.load("_xdt", cfg)
    f = L.module.ns["probe"]
    res = []
    for a in cs:
        L.interp.ctx = PathCtx([], cfg)
        L.interp.depth = 0
        L.interp.callstack = []
        res.append(plain(L.interp.call(f, list(a), {})))
    return res


def main():
    n = int(sys.argv[1]) if len(sys.argv) > 1 else 2000
    p = subprocess.run(["/venv/bin/python", "-c", AXIOMS, str(n * 5)], capture_output=True, text=True)
    print(p.stdout.strip() or p.stderr[-2000:])
    rc = p.returncode
    cs = cases(n)
    p = subprocess.run(["/venv/bin/python", "-W", "ignore", "-c", NATIVE], input="\n".join(json.dumps(c) for c in cs) + "\n", capture_output=True, text=True)
    if p.returncode != 0:
        print(p.stderr[-3000:])
        sys.exit(2)
    native = [json.loads(l) for l in p.stdout.splitlines()]
    model = json.loads(json.dumps(model_results(cs)))
    bad = 0
    for c, a, b in zip(cs, native, model):
        if a != b:
            bad += 1
            if bad <= 10:
                print("DIFF", repr(c), "\n  native:", a, "\n  model: ", b)
    print(f"differential: {len(cs)} cases, {bad} differences")
    sys.exit(1 if (bad or rc) else 0)


if __name__ == "__main__":
    main()
