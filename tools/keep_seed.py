#!/usr/bin/env python3
"""tools/keep_seed.py <seed out dir> <name> <broken property> [checks...]: run tools/try_seed.py on it and, if the change
applies, keeps the suite green and makes its demonstration fail, store it as seeded/<name>/{patch.diff,demo.py,meta.json}"""
import json, os, shutil, subprocess, sys
V = os.path.dirname(os.path.dirname(os.path.abspath(__file__)))
src, name, prop = sys.argv[1], sys.argv[2], sys.argv[3]
checks = sys.argv[4:] or [prop]
p = subprocess.run([sys.executable, os.path.join(V, "tools", "try_seed.py"), src] + checks, capture_output=True, text=True)
try:
    res = json.loads(p.stdout)
except Exception:
    print("try_seed failed:", p.stdout[-500:], p.stderr[-500:]); sys.exit(2)
ok = res.get("applies") and res.get("suite_passes_with_change") and res.get("demo_clean_exit") == 0 and res.get("demo_mutant_exit") not in (0, None)
print(name, "confirmed" if ok else "NOT CONFIRMED", {k: (v["exit"], v["lines"][:2]) for k, v in res["props"].items()})
if not ok:
    sys.exit(1)
dst = os.path.join(V, "seeded", name)
os.makedirs(dst, exist_ok=True)
shutil.copy(os.path.join(src, "patch.diff"), dst)
shutil.copy(os.path.join(src, "demo.py"), dst)
readme = open(os.path.join(src, "README.md")).read() if os.path.exists(os.path.join(src, "README.md")) else ""
head = subprocess.check_output(["git", "-C", "/repo", "log", "-1", "--format=%h"], text=True).strip()
meta = {"breaks_property": prop, "made_by": "independent sub-agent given only the property text and a scratch worktree",
        "needs_to_manifest": readme[:1800], "repo_head_when_confirmed": head,
        "confirmed": {"applies_cleanly": True, "existing_suite_passes_with_change": True, "demo_fails_with_change": True,
                      "demo_passes_without_change": True,
                      "how": "tools/try_seed.py: scratch worktree of /repo HEAD, git apply, pinned pytest command, demo.py, ./check <id> --tier quick with PYVC_REPO"},
        "checks": {k: {"exit": v["exit"], "secs": v["secs"], "lines": v["lines"][:6],
                       "verdict": "caught" if v["exit"] == 1 else ("undecided" if v["exit"] == 2 else ("missed" if v["exit"] == 0 else "checker error"))}
                   for k, v in res["props"].items()}}
json.dump(meta, open(os.path.join(dst, "meta.json"), "w"), indent=1)
