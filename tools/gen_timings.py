#!/usr/bin/env python3
"""tools/gen_timings.py: collect the harness wall times of the last runs (evidence/*.json) into timings.json (committed).
The checks use it only for scheduling (longest first) and for splitting slow harnesses into obligation-level shards."""
import glob, json, os
V = os.path.dirname(os.path.dirname(os.path.abspath(__file__)))
t = {}
for f in glob.glob(os.path.join(V, "evidence", "*.json")):
    for h in json.load(open(f)).get("coverage", {}).get("harnesses", []):
        if h.get("wall_s"):
            t[h["name"]] = max(t.get(h["name"], 0), round(h["wall_s"], 1))
json.dump(dict(sorted(t.items())), open(os.path.join(V, "timings.json"), "w"), indent=0)
print(len(t), "harnesses;", sum(1 for v in t.values() if v > 60), "above 60 s")
