#!/usr/bin/env python3
"""tools/recheck_seeds.py [-P n] [name-substring ...]

Regression test of the checks against every kept seeded change (seeded/*): each patch is applied to a scratch copy of /repo and the
check of the broken property is run against it, restricted (--only) to the harness family that caught the change when it was
kept (recorded in meta.json); if that no longer alarms the whole check is run.  Prints one line per seed and exits 1 if a seed is
no longer detected.  /repo is not touched; scratch copies are removed."""
import json, os, shutil, subprocess, sys, time
from concurrent.futures import ThreadPoolExecutor
V = os.path.dirname(os.path.dirname(os.path.abspath(__file__)))
sys.path.insert(0, V)
from pyvc import canary

args = sys.argv[1:]
P = 3
if args[:1] == ["-P"]:
    P = int(args[1]); args = args[2:]


def run(name):
    d = os.path.join(V, "seeded", name)
    meta = json.load(open(os.path.join(d, "meta.json")))
    out = []
    for prop, rec in meta.get("checks", {}).items():
        if rec.get("verdict") != "caught":
            continue
        ids = [l.split("obligation=")[-1].split(" ")[0] for l in rec.get("lines", []) if l.startswith("VIOLATION")]
        fam = ids[0].split("/")[0] if ids else None
        if fam and fam.startswith("loop "):
            fam = fam.split(" ")[1].split("#")[0]
        tmp, dst = canary.scratch_copy()
        t0 = time.time()
        try:
            p = subprocess.run(["git", "apply", "--unsafe-paths", "--directory=" + dst, os.path.join(d, "patch.diff")], capture_output=True, text=True, cwd=tmp)
            if p.returncode != 0:
                p = subprocess.run(["patch", "-p1", "-s", "-i", os.path.join(d, "patch.diff")], capture_output=True, text=True, cwd=dst)
                if p.returncode != 0:
                    out.append((name, prop, "stale", 0, ""))
                    continue
            env = dict(os.environ, PYVC_REPO=dst, PYVC_EVIDENCE_DIR=os.path.join(tmp, "evidence"), PYVC_NO_CANARIES="1")
            status, how = "missed", ""
            for only in ([fam] if fam else []) + [None]:
                cmd = [os.path.join(V, "check"), prop, "--tier", "quick"] + (["--only", only] if only else [])
                p = subprocess.run(cmd, capture_output=True, text=True, env=env, timeout=5400)
                if p.returncode == 1:
                    v = [l.split("obligation=")[-1] for l in p.stdout.splitlines() if l.startswith("VIOLATION")]
                    status, how = "caught", (("--only " + only + ": ") if only else "full: ") + "; ".join(v[:2])
                    break
                status, how = {0: "missed", 2: "undecided", 3: "checker-error"}.get(p.returncode, "?"), p.stdout[-200:].replace("\n", " | ")
            out.append((name, prop, status, round(time.time() - t0), how))
        finally:
            shutil.rmtree(tmp, ignore_errors=True)
    return out


names = sorted(n for n in os.listdir(os.path.join(V, "seeded")) if os.path.exists(os.path.join(V, "seeded", n, "meta.json"))
               and (not args or any(a in n for a in args)))
bad = 0
with ThreadPoolExecutor(P) as ex:
    for res in ex.map(run, names):
        for name, prop, status, secs, how in res:
            print(f"{name:12s} {prop} {status:9s} {secs:5d}s {how[:200]}", flush=True)
            if status != "caught":
                bad += 1
print(f"{len(names)} seeds, {bad} not caught")
sys.exit(1 if bad else 0)
