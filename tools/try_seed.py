#!/usr/bin/env python3
"""tools/try_seed.py <dir with patch.diff [demo.py]> <property id> [more ids]

Applies the patch to a scratch copy of /repo's working tree (under $TMPDIR, removed afterwards), runs the pinned test-suite and the
demonstration there, then runs ./check <id> --tier quick against that tree (PYVC_REPO) with evidence redirected, and prints a
one-line verdict per check.  /repo itself is not touched."""
import json, os, shutil, subprocess, sys, tempfile, time
V = os.path.dirname(os.path.dirname(os.path.abspath(__file__)))
d = os.path.abspath(sys.argv[1])
props = sys.argv[2:]
sys.path.insert(0, V)
from pyvc import canary
tmp, wt = canary.scratch_copy("/repo")
res = {"dir": d, "props": {}}
try:
    demo = os.path.join(d, "demo.py")
    if os.path.exists(demo):
        p = subprocess.run(["/venv/bin/python", demo], cwd=wt, capture_output=True, text=True, timeout=600)
        res["demo_clean_exit"] = p.returncode
    p = subprocess.run(["git", "apply", "--unsafe-paths", "--directory=" + wt, os.path.join(d, "patch.diff")], capture_output=True, text=True, cwd=tmp)
    res["applies"] = p.returncode == 0
    if p.returncode != 0:
        res["apply_error"] = p.stderr[-400:]
    else:
        p = subprocess.run(["/venv/bin/python", "-m", "pytest", "-q", "-p", "no:cacheprovider", "--timeout=900", "-x"], cwd=wt,
                           capture_output=True, text=True, timeout=1200)
        res["suite_passes_with_change"] = p.returncode == 0
        res["suite_tail"] = p.stdout.strip().splitlines()[-1] if p.stdout.strip() else ""
        if os.path.exists(demo):
            p = subprocess.run(["/venv/bin/python", demo], cwd=wt, capture_output=True, text=True, timeout=600)
            res["demo_mutant_exit"] = p.returncode
            res["demo_tail"] = (p.stdout + p.stderr).strip()[-300:]
        env = dict(os.environ, PYVC_REPO=wt, PYVC_EVIDENCE_DIR=os.path.join(tmp, "evidence"), PYVC_NO_CANARIES="1")
        for pr in props:
            t0 = time.time()
            p = subprocess.run([os.path.join(V, "check"), pr, "--tier", "quick"], capture_output=True, text=True, env=env, timeout=3600)
            lines = [l for l in p.stdout.splitlines() if l.startswith(("VIOLATION", "UNDECIDED", "CHECKER-ERROR", "KNOWN-FINDING"))]
            res["props"][pr] = {"exit": p.returncode, "secs": round(time.time() - t0, 1), "lines": lines[:12]}
finally:
    shutil.rmtree(tmp, ignore_errors=True)
print(json.dumps(res, indent=1))
