"""Differential test: ghost file system / decimal text model (pyvc/fs_model.py) against CPython.

  python3-vt tools/xcheck_fs.py [n_random]

Concrete file texts are run through contracts/_xfs.py:probe twice: natively (real files in a temporary
directory, under /venv/bin/python) and by the symbolic interpreter on concrete values.  Any difference
is printed and the exit status is 1."""
import json
import os
import random
import subprocess
import sys

VERIF = os.path.dirname(os.path.dirname(os.path.abspath(__file__)))
sys.path.insert(0, VERIF)
REPO = os.environ.get("PYVC_REPO", "/repo")

NATIVE = r'''
import json, sys
sys.path[:0] = [%r, %r, %r]
import _xfs
for line in sys.stdin:
    w, t, calls = json.loads(line)
    print(json.dumps(_xfs.probe(w, t, calls)))
''' % (os.path.join(VERIF, "contracts"), os.path.join(VERIF, "speclib"), REPO)


def cases(n_random):
    texts = ["0\n", "0", "", "\n", "7\n", "9\n", "99\n", "16383\n", "16383\nabc", "16383", "15\n\n\n", "007\n", "12  \n", " 12\n", "12\r\n34\n",
             "12\r34\n", "12\r", "\r\n", "\r", "-1\n", "+1\n", "1_0\n", "3.5\n", "12\t\x0b\x0c\x1c\x1d\x1e\x1f \n", "12\x00\n", "1 2\n", "a\n",
             "65535\n", "65536\n", "32768\n", "9\nX", "9", "99", "255\n", "255\nzzzzz", "12\x1c", "12\x85\n", "4\r\n", "4\r5", "4\n\r", "\x1f5\n"]
    texts = [t for t in texts if t.isascii()]
    out = []
    for t in texts:
        for w in (0, 1, 4, 8, 14, 16):
            out.append((w, t, "cncnNcn"))
    rnd = random.Random(1)
    alpha = "0123456789" * 3 + " \n\r\t-+_a\x0b\x1c\x00"
    for _ in range(n_random):
        t = "".join(rnd.choice(alpha) for _ in range(rnd.randint(0, 8)))
        out.append((rnd.choice([0, 1, 3, 8, 14, 16, 40]), t, "".join(rnd.choice("ncN") for _ in range(4))))
    out.append((14, "5\n", "nrcnNcn"))
    return out


def model_results(cs):
    os.environ["PYVC_REPO"] = REPO
    from pyvc import contracts
    from pyvc.explore import Config, PathCtx
    from pyvc.values import PyList, StrV
    from pyvc import ops
    cfg = Config()
    L = contracts.load("_xfs", cfg)
    f = L.module.ns["probe"]
    res = []
    for w, t, calls in cs:
        L.interp.ctx = PathCtx([], cfg)
        L.interp.depth = 0
        L.interp.callstack = []
        r = L.interp.call(f, [w, t, calls], {})
        out = []
        for v in r.items:
            if isinstance(v, StrV):
                v = bytes(ops.norm(v.utf8.rope)).decode("ascii")
            out.append(v)
        res.append(out)
    return res


def main():
    n = int(sys.argv[1]) if len(sys.argv) > 1 else 3000
    cs = cases(n)
    p = subprocess.run(["/venv/bin/python", "-c", NATIVE], input="\n".join(json.dumps(c) for c in cs) + "\n", capture_output=True, text=True)
    if p.returncode != 0:
        print(p.stderr)
        sys.exit(2)
    native = [json.loads(l) for l in p.stdout.splitlines()]
    model = model_results(cs)
    bad = 0
    for c, a, b in zip(cs, native, model):
        if a != b:
            bad += 1
            if bad <= 10:
                print("DIFF", repr(c), "\n  native:", a, "\n  model: ", b)
    print(f"{len(cs)} cases, {bad} differences")
    sys.exit(1 if bad else 0)


if __name__ == "__main__":
    main()
