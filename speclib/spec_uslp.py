"""Layout oracles for USLP (CCSDS 732.1-B-2 section 4.1), written from the standard, independent of the library's code."""
from pyvc_spec import *

TFVN = 12  # transfer frame version number '1100'


def uslp_first_word(scid, srcdst, vcid, map_id, eofph):
    """4.1.2.2 - 4.1.2.6: TFVN (4 bits) | SCID (16) | source-or-destination (1) | VCID (6) | MAP ID (4) |
    end of frame primary header flag (1) - one 32-bit word, most significant bit first"""
    return be(4, TFVN * 268435456 + scid * 4096 + srcdst * 2048 + vcid * 32 + map_id * 2 + eofph)


def truncated_header_octets(scid, srcdst, vcid, map_id):
    """truncated primary header (annex D): the first word only, end-of-frame-primary-header flag = 1"""
    return uslp_first_word(scid, srcdst, vcid, map_id, 1)


def primary_header_octets(scid, srcdst, vcid, map_id, frame_len, bypass, pcc, ocf, n, vcf):
    """4.1.2.7 - 4.1.2.11: first word (flag = 0) | frame length (16) | bypass/sequence control flag (1) |
    protocol control command flag (1) | spare '00' | OCF flag (1) | VCF count length n (3) | VCF count (8 n bits)"""
    return (uslp_first_word(scid, srcdst, vcid, map_id, 0)
            + be(2, frame_len)
            + be(1, bypass * 128 + pcc * 64 + ocf * 8 + n)
            + be(n, vcf))


def tfdf_octets(rule, upid, has_ptr, ptr, tfdz):
    """4.1.4: TFDF header = construction rule (3 bits) | UPID (5) | optional first header / last valid octet pointer (16);
    then the transfer frame data zone"""
    if has_ptr:
        return be(1, rule * 32 + upid) + be(2, ptr) + tfdz
    return be(1, rule * 32 + upid) + tfdz


def frame_octets(header, insert_zone, tfdf, ocf, fecf):
    """4.1.1: primary header | insert zone | data field | operational control field | frame error control field"""
    return header + insert_zone + tfdf + ocf + fecf


def pow256n(n):
    """256**n for n in 0..7"""
    r = 1
    for _ in range(n):
        r = r * 256
    return r
