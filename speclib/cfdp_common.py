"""Shared builders for the CFDP contracts (not a contract file itself: no obligations)."""
from pyvc_spec import *
from spec_util import pow256
from spacepackets.util import ByteFieldGenerator
from spacepackets.cfdp.conf import PduConfig
from spacepackets.cfdp.defs import TransmissionMode, LargeFileFlag, CrcFlag, Direction, SegmentationControl

W = Choice(1, 2, 4, 8)


def mk_conf(we, ws, src, seq, dst, mode, crc, large, direction, segctrl):
    """a caller-side PduConfig built with the public constructors"""
    return PduConfig(
        source_entity_id=ByteFieldGenerator.from_int(we, src),
        dest_entity_id=ByteFieldGenerator.from_int(we, dst),
        transaction_seq_num=ByteFieldGenerator.from_int(ws, seq),
        trans_mode=mode, file_flag=large, crc_flag=crc, direction=direction, seg_ctrl=segctrl)


def ids_in_range(we, ws, src, seq, dst):
    return both(0 <= src, src < pow256(we), 0 <= dst, dst < pow256(we), 0 <= seq, seq < pow256(ws))
