"""Executable twin of the specification primitives (native replay under /venv/bin/python).

The symbolic twin is /verif/pyvc/spec_prims.py.  Contract files import this module by name; under
the verifier the import is intercepted and the symbolic twin is used instead.
"""
import copy as _copy

REGISTRY = []          # (kind, args, kwargs, function)
_RECORD = None         # list of (label, bool) while a harness is replayed


class PreconditionFalse(Exception):
    pass


class TypeDesc:
    def __init__(self, kind, *args):
        self.kind = kind
        self.args = args


Int = TypeDesc("int", None, None)
Bool = TypeDesc("bool")
Bytes = TypeDesc("bytes", None, None)
Str = TypeDesc("str", None)
Real = TypeDesc("real")
IntList = TypeDesc("list", TypeDesc("int", None, None), None)  # list of ints of any length
BytesList = TypeDesc("byteslist")
PairList = TypeDesc("pairlist")
Chunks = TypeDesc("chunks")


def invariant(label, cond):
    return None


def loop_phase():
    return None


def decreases(expr):
    return None


def loop_spec(*a, **k):
    return lambda f: f


def ghost_function(args, result, measure):
    return lambda f: f          # natively the recursive definition itself is executed


def unfold(f, *args):
    return None


def bv_lemma(name):
    """native twin: exhaustive / sampled check of the same statement in plain Python"""
    import os, sys
    root = os.path.dirname(os.path.dirname(os.path.abspath(__file__)))
    if root not in sys.path:
        sys.path.append(root)
    from pyvc import crc_lemmas
    return crc_lemmas.native_check(name, seed=int(os.environ.get("VERIF_SEED", "0") or 0))


def use_lemma(name, cond):
    return None


def by_tier(quick, thorough):
    import os
    return thorough if os.environ.get("VERIF_TIER") == "thorough" else quick


def refine_as(x, y):
    return None


def concat_chunks(q):
    return b"".join(bytes(x) for x in q)


_INPUTS = {}           # concrete inputs of the harness being replayed (set by helper/native.py)
_BUILD_ARG = None      # helper/native.py: build_arg(name, td, inputs)


def open_dict(name, key_td, mk_key, key_of, value_tds, mk_value):
    """native twin: the dict holding exactly the entries the counter-model materialised"""
    d = {}
    for i in range(int(_INPUTS.get(name + "#n", 0) or 0)):
        if _INPUTS.get(f"{name}#{i}.key") is None:
            continue
        vals = [_BUILD_ARG(f"{name}#{i}.v{j}", td, _INPUTS) for j, td in enumerate(value_tds)]
        d[mk_key(int(_INPUTS[f"{name}#{i}.key"]))] = mk_value(*vals)
    return d


def IntRange(lo=None, hi=None):
    return TypeDesc("int", lo, hi)


def BytesLen(lo=None, hi=None):
    return TypeDesc("bytes", lo, hi)


def BytesArr(lo=None, hi=None):
    return TypeDesc("bytearray", lo, hi)


def StrLen(maxoct=None):
    return TypeDesc("str", maxoct)


def AsciiStrLen(maxoct=None):
    """abstract string restricted to the strings whose character count equals their UTF-8 octet count (ASCII); the harness
    should still state requires(len(s) == len(s.encode())) so that a native replay drops other strings"""
    return TypeDesc("str", maxoct, True)


def EnumOf(cls):
    return TypeDesc("enum", cls)


def Choice(*vals):
    return TypeDesc("choice", *vals)


def OptionalOf(t):
    return TypeDesc("optional", t)


def ListOf(t, maxlen):
    return TypeDesc("list", t, maxlen)


Text = TypeDesc("text", None)


def TextLen(maxlen=None):
    return TypeDesc("text", maxlen)
def TupleOf(*ts):
    """fixed-arity tuple of independently quantified components (e.g. ListOf(TupleOf(Int, Int), 2))"""
    return TypeDesc("tuple", *ts)


def _reg(kind):
    def factory(*a, **k):
        def deco(f):
            REGISTRY.append((kind, a, k, f))
            return f
        return deco
    return factory


obligation = _reg("obligation")
summary = _reg("summary")
lemma = _reg("lemma")


def start_recording():
    global _RECORD
    _RECORD = []
    return _RECORD


def requires(cond):
    if not cond:
        raise PreconditionFalse()


def ensures(label, cond):
    if _RECORD is not None:
        _RECORD.append((label, bool(cond)))


def cover(label):
    pass


class Outcome:
    def __init__(self, value=None, exc=None):
        self._value = value
        self.exc = exc

    @property
    def ok(self):
        return self.exc is None

    @property
    def value(self):
        if self.exc is not None:
            raise RuntimeError("value of a raising outcome")
        return self._value

    def raised(self, *clss):
        if self.exc is None:
            return False
        if not clss:
            return True
        return isinstance(self.exc, clss)


def outcome(f, *args, **kwargs):
    try:
        return Outcome(f(*args, **kwargs), None)
    except Exception as e:  # noqa
        return Outcome(None, e)


def exc_kind(o):
    return None if o.exc is None else type(o.exc).__name__


def kind_of(v):
    return type(v).__name__


def is_same(a, b):
    return a is b


def implies(a, b):
    return (not a) or bool(b)


def iff(a, b):
    return bool(a) == bool(b)


def both(*vs):
    return all(bool(v) for v in vs)


def either(*vs):
    return any(bool(v) for v in vs)


def be(n, v):
    if not 0 <= v < 256 ** n:
        raise ValueError("be(): value does not fit")
    return int(v).to_bytes(n, "big")


def le(n, v):
    return bytes(reversed(be(n, v)))


def from_be(b):
    return int.from_bytes(bytes(b), "big")


def bits(v, hi, lo):
    return (int(v) >> lo) & ((1 << (hi - lo + 1)) - 1)


def crc16(data, state=0xFFFF):
    for b in bytes(data):
        state ^= b << 8
        for _ in range(8):
            if state & 0x8000:
                state = ((state << 1) ^ 0x1021) & 0xFFFF
            else:
                state = (state << 1) & 0xFFFF
    return state


def is_octets(b):
    return isinstance(b, (bytes, bytearray))


def snapshot(v):
    return _copy.deepcopy(v)


def _is_plain_object(x):
    return hasattr(x, "__dict__") or hasattr(type(x), "__slots__")


def _attrs(x):
    out = dict(vars(x)) if hasattr(x, "__dict__") else {}
    for c in type(x).__mro__:
        sl = c.__dict__.get("__slots__", ())
        for k in ([sl] if isinstance(sl, str) else sl):
            if k not in ("__dict__", "__weakref__") and hasattr(x, k):
                if k.startswith("__") and not k.endswith("__"):
                    continue
                out.setdefault(k, getattr(x, k))
    return out


def _public_properties(cls):
    out, seen = [], set()
    for c in cls.__mro__:
        for k, v in c.__dict__.items():
            if k in seen:
                continue
            seen.add(k)
            if isinstance(v, property) and not k.startswith("_") and v.fget is not None and not getattr(v, "__isabstractmethod__", False):
                out.append(k)
    return sorted(out)


def _get_prop(obj, name):
    try:
        return ("ok", getattr(obj, name))
    except Exception as e:  # noqa
        return ("raised", type(e))


def same_state(a, b, ignore=()):
    import enum
    ign = set(ignore)
    ign |= {k.lstrip("_") for k in ign}
    seen = set()

    def rec(x, y):
        if x is y:
            return True
        if isinstance(x, enum.Enum) or isinstance(y, enum.Enum):
            if isinstance(x, enum.Enum) and isinstance(y, enum.Enum):
                return type(x) is type(y) and x == y
            return x == y
        if isinstance(x, (bytes, bytearray)) and isinstance(y, (bytes, bytearray)):
            return bytes(x) == bytes(y)
        if isinstance(x, (int, float, str, type(None), bool)) or isinstance(y, (int, float, str, type(None), bool)):
            return x == y
        if isinstance(x, (list, tuple)) and isinstance(y, (list, tuple)):
            return type(x) is type(y) and len(x) == len(y) and all(rec(p, q) for p, q in zip(x, y))
        if isinstance(x, dict) and isinstance(y, dict):
            return len(x) == len(y) and all(rec(k1, k2) and rec(v1, v2) for (k1, v1), (k2, v2) in zip(x.items(), y.items()))
        if _is_plain_object(x) and _is_plain_object(y):
            key = (id(x), id(y))
            if key in seen:
                return True
            seen.add(key)
            if type(x) is not type(y):
                return False
            # observable state: public attributes and public properties (see pyvc/spec_prims.same_state)
            ax, ay = _attrs(x), _attrs(y)
            kx = {k for k in ax if k not in ign and not k.startswith("_")}
            ky = {k for k in ay if k not in ign and not k.startswith("_")}
            if kx != ky:
                return False
            if not all(rec(ax[k], ay[k]) for k in kx):
                return False
            for name in _public_properties(type(x)):
                if name in ign or name in kx:
                    continue
                ox, oy = _get_prop(x, name), _get_prop(y, name)
                if ox[0] != oy[0]:
                    return False
                if ox[0] == "raised":
                    if ox[1] is not oy[1]:
                        return False
                    continue
                if not rec(ox[1], oy[1]):
                    return False
            return True
        try:
            import collections
            if isinstance(x, collections.deque) and isinstance(y, collections.deque):
                return len(x) == len(y) and all(rec(p, q) for p, q in zip(x, y))
        except Exception:
            pass
        return x == y

    return rec(a, b)


# ---- ghost file system (C19): natively a file in a fresh temporary directory --------------------
_TMPDIRS = []


def _cleanup_tmpdirs():
    import shutil
    for d in _TMPDIRS:
        shutil.rmtree(d, ignore_errors=True)


def ghost_file(text=None):
    """a fresh path; the file is absent (text None) or holds exactly the given ASCII text"""
    import atexit
    import pathlib
    import tempfile
    if not _TMPDIRS:
        atexit.register(_cleanup_tmpdirs)
    d = tempfile.mkdtemp(prefix="pyvc_fs_")
    _TMPDIRS.append(d)
    p = pathlib.Path(d) / "seqcnt.txt"
    if text is not None:
        with open(p, "w", newline="", encoding="ascii") as f:
            f.write(text)
    return p


def ghost_remove(p):
    import os
    os.remove(p)


def file_text(p):
    """raw text of the file (no newline translation), None if it is absent"""
    if not p.exists():
        return None
    with open(p, "r", newline="", encoding="ascii") as f:
        return f.read()


# ---- exact arithmetic on floats (C14) ------------------------------------------------------------
def within(x, p, q, a, b):
    """|x - p/q| <= a/b, evaluated exactly (x: int or float; p, q, a, b integers, q > 0, b > 0)"""
    from fractions import Fraction
    return abs(Fraction(x) - Fraction(p, q)) <= Fraction(a, b)
