"""Layout oracles written from CCSDS 727.0-B-5 (section 5), independent of the library's code."""
from pyvc_spec import *


def pdu_header_octets(ptype, direction, mode, crc, large, dlen, segctrl, segmeta, we, ws, src, seq, dst):
    """Fixed PDU header, table 5-1: version 001, type, direction, mode, CRC flag, large-file flag |
    16-bit data field length | seg.ctrl, entity-ID length - 1 (3 bits), seg. metadata flag,
    seq-number length - 1 (3 bits) | source ID | sequence number | destination ID"""
    return (be(1, 32 + ptype * 16 + direction * 8 + mode * 4 + crc * 2 + large)
            + be(2, dlen)
            + be(1, segctrl * 128 + (we - 1) * 16 + segmeta * 8 + (ws - 1))
            + be(we, src) + be(ws, seq) + be(we, dst))


def fss(large, v):
    """file-size-sensitive field: 64 bit if the large-file flag is set, else 32 bit"""
    if large:
        return be(8, v)
    return be(4, v)


def fss_len(large):
    if large:
        return 8
    return 4


def tlv(t, value):
    return be(1, t) + be(1, len(value)) + value


def lv(value):
    return be(1, len(value)) + value


def with_crc_trailer(crc, body):
    """CRC-16/CCITT-FALSE of everything before it, iff the CRC flag is set"""
    if crc:
        return body + be(2, crc16(body))
    return body


# ---- TLV items, 727.0-B-5 section 5.4 (tables 5-15 ... 5-20)

def tlv_type_known(t):
    """TLV type codes of table 5-3 / section 5.4: 00 filestore request, 01 filestore response, 02 message to user,
    04 fault handler override, 05 flow label, 06 entity ID"""
    return either(t == 0, t == 1, t == 2, t == 4, t == 5, t == 6)


def fs_action_known(action):
    """filestore action codes of table 5-16: 0 create file ... 8 deny directory"""
    return both(0 <= action, action <= 8)


def fs_second_name(action):
    """table 5-16: a second file name is present for rename (2), append (3) and replace (4) only"""
    return either(action == 2, action == 3, action == 4)


def fs_request_octets(action, name1, name2):
    """5.4.1: type 00; value = action code (4 bits), 4 spare bits, first file name LV, second file name LV (present
    only for the action codes that take two names).  name1/name2 are the octets of the names."""
    v = be(1, action * 16) + lv(name1)
    if fs_second_name(action):
        v = v + lv(name2)
    return tlv(0, v)


def fs_response_octets(action, status, name1, name2, msg):
    """5.4.2: type 01; value = action code (4 bits), status code (4 bits), first file name LV, second file name LV
    (as in the request), filestore message LV"""
    v = be(1, action * 16 + status) + lv(name1)
    if fs_second_name(action):
        v = v + lv(name2)
    return tlv(1, v + lv(msg))


def msg_to_user_octets(msg):
    """5.4.3: type 02, value = the message"""
    return tlv(2, msg)


def fault_handler_octets(condition, handler):
    """5.4.4: type 04, value = condition code (4 bits), handler code (4 bits)"""
    return tlv(4, be(1, condition * 16 + handler))


def flow_label_octets(label):
    """5.4.5: type 05, value = the flow label"""
    return tlv(5, label)


def entity_id_octets(entity_id):
    """5.4.6: type 06, value = the entity ID"""
    return tlv(6, entity_id)
