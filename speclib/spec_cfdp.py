"""Layout oracles written from CCSDS 727.0-B-5 (section 5), independent of the library's code."""
from pyvc_spec import *


def pdu_header_octets(ptype, direction, mode, crc, large, dlen, segctrl, segmeta, we, ws, src, seq, dst):
    """Fixed PDU header, table 5-1: version 001, type, direction, mode, CRC flag, large-file flag |
    16-bit data field length | seg.ctrl, entity-ID length - 1 (3 bits), seg. metadata flag,
    seq-number length - 1 (3 bits) | source ID | sequence number | destination ID"""
    return (be(1, 32 + ptype * 16 + direction * 8 + mode * 4 + crc * 2 + large)
            + be(2, dlen)
            + be(1, segctrl * 128 + (we - 1) * 16 + segmeta * 8 + (ws - 1))
            + be(we, src) + be(ws, seq) + be(we, dst))


def fss(large, v):
    """file-size-sensitive field: 64 bit if the large-file flag is set, else 32 bit"""
    if large:
        return be(8, v)
    return be(4, v)


def fss_len(large):
    if large:
        return 8
    return 4


def tlv(t, value):
    return be(1, t) + be(1, len(value)) + value


def lv(value):
    return be(1, len(value)) + value


def with_crc_trailer(crc, body):
    """CRC-16/CCITT-FALSE of everything before it, iff the CRC flag is set"""
    if crc:
        return body + be(2, crc16(body))
    return body


# ---- TLV items, 727.0-B-5 section 5.4 (tables 5-15 ... 5-20)

def tlv_type_known(t):
    """TLV type codes of table 5-3 / section 5.4: 00 filestore request, 01 filestore response, 02 message to user,
    04 fault handler override, 05 flow label, 06 entity ID"""
    return either(t == 0, t == 1, t == 2, t == 4, t == 5, t == 6)


def fs_action_known(action):
    """filestore action codes of table 5-16: 0 create file ... 8 deny directory"""
    return both(0 <= action, action <= 8)


def fs_second_name(action):
    """table 5-16: a second file name is present for rename (2), append (3) and replace (4) only"""
    return either(action == 2, action == 3, action == 4)


def fs_request_octets(action, name1, name2):
    """5.4.1: type 00; value = action code (4 bits), 4 spare bits, first file name LV, second file name LV (present
    only for the action codes that take two names).  name1/name2 are the octets of the names."""
    v = be(1, action * 16) + lv(name1)
    if fs_second_name(action):
        v = v + lv(name2)
    return tlv(0, v)


def fs_response_octets(action, status, name1, name2, msg):
    """5.4.2: type 01; value = action code (4 bits), status code (4 bits), first file name LV, second file name LV
    (as in the request), filestore message LV"""
    v = be(1, action * 16 + status) + lv(name1)
    if fs_second_name(action):
        v = v + lv(name2)
    return tlv(1, v + lv(msg))


def msg_to_user_octets(msg):
    """5.4.3: type 02, value = the message"""
    return tlv(2, msg)


def fault_handler_octets(condition, handler):
    """5.4.4: type 04, value = condition code (4 bits), handler code (4 bits)"""
    return tlv(4, be(1, condition * 16 + handler))


def flow_label_octets(label):
    """5.4.5: type 05, value = the flow label"""
    return tlv(5, label)


def entity_id_octets(entity_id):
    """5.4.6: type 06, value = the entity ID"""
    return tlv(6, entity_id)


# ---- reserved CFDP messages (727.0-B-5 section 6): message to user whose first four octets are ASCII "cfdp",
#      followed by the message-type octet and the fields of that message type

MSG_PROXY_PUT_REQUEST = 0x00
MSG_PROXY_TRANSMISSION_MODE = 0x04
MSG_PROXY_PUT_RESPONSE = 0x07
MSG_PROXY_PUT_CANCEL = 0x09
MSG_ORIGINATING_TRANSACTION_ID = 0x0A
MSG_PROXY_CLOSURE_REQUEST = 0x0B
MSG_DIRECTORY_LISTING_REQUEST = 0x10
MSG_DIRECTORY_LISTING_RESPONSE = 0x11
MSG_CUSTOM_LISTING_PARAMETERS = 0x15     # not in the standard: the library's own listing-options message


def cfdp_marker():
    """ASCII 'cfdp'"""
    return be(1, 0x63) + be(1, 0x66) + be(1, 0x64) + be(1, 0x70)


def reserved_msg_octets(msg_type, fields):
    return tlv(2, cfdp_marker() + be(1, msg_type) + fields)


def is_reserved_content(v):
    """6.1: a message to user is a reserved CFDP message iff it starts with 'cfdp' and has a message-type octet"""
    if len(v) < 5:
        return False
    return v[0:4] == cfdp_marker()


def proxy_put_request_fields(dest_id, source_name, dest_name):
    """6.2.2: LV destination entity ID, LV source file name, LV destination file name"""
    return lv(dest_id) + lv(source_name) + lv(dest_name)


def proxy_put_response_fields(condition, delivery, file_status):
    """6.2.9: condition code (4 bits), spare, delivery code (1 bit), file status (2 bits)"""
    return be(1, condition * 16 + delivery * 4 + file_status)


def one_bit_field(b):
    """6.2.6 transmission mode / 6.2.12 closure requested: 7 spare bits, 1 bit"""
    if b:
        return be(1, 1)
    return be(1, 0)


def originating_transaction_id_fields(we, src, ws, seq):
    """6.2.11: reserved bit, entity-ID length - 1 (3 bits), reserved bit, sequence-number length - 1 (3 bits) |
    source entity ID | transaction sequence number"""
    return be(1, (we - 1) * 16 + (ws - 1)) + be(we, src) + be(ws, seq)


def dir_listing_request_fields(dir_name, dir_file_name):
    """6.3.2: LV directory name, LV directory file name"""
    return lv(dir_name) + lv(dir_file_name)


def dir_listing_response_fields(success, dir_name, dir_file_name):
    """6.3.3: listing response code in the most significant bit, 7 spare bits | LV directory name | LV directory file name"""
    if success:
        return be(1, 128) + lv(dir_name) + lv(dir_file_name)
    return be(1, 0) + lv(dir_name) + lv(dir_file_name)


def dir_listing_options_fields(recursive, all_files):
    """library-specific: 6 spare bits, recursive, all"""
    r = 0
    if recursive:
        r = 2
    if all_files:
        return be(1, r + 1)
    return be(1, r)
