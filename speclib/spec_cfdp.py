"""Layout oracles written from CCSDS 727.0-B-5 (section 5), independent of the library's code."""
from pyvc_spec import *


def pdu_header_octets(ptype, direction, mode, crc, large, dlen, segctrl, segmeta, we, ws, src, seq, dst):
    """Fixed PDU header, table 5-1: version 001, type, direction, mode, CRC flag, large-file flag |
    16-bit data field length | seg.ctrl, entity-ID length - 1 (3 bits), seg. metadata flag,
    seq-number length - 1 (3 bits) | source ID | sequence number | destination ID"""
    return (be(1, 32 + ptype * 16 + direction * 8 + mode * 4 + crc * 2 + large)
            + be(2, dlen)
            + be(1, segctrl * 128 + (we - 1) * 16 + segmeta * 8 + (ws - 1))
            + be(we, src) + be(ws, seq) + be(we, dst))


def fss(large, v):
    """file-size-sensitive field: 64 bit if the large-file flag is set, else 32 bit"""
    if large:
        return be(8, v)
    return be(4, v)


def fss_len(large):
    if large:
        return 8
    return 4


def tlv(t, value):
    return be(1, t) + be(1, len(value)) + value


def lv(value):
    return be(1, len(value)) + value


def with_crc_trailer(crc, body):
    """CRC-16/CCITT-FALSE of everything before it, iff the CRC flag is set"""
    if crc:
        return body + be(2, crc16(body))
    return body
