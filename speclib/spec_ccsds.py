"""Layout oracles written from CCSDS 133.0-B-2 (independent of the library's pack/unpack)."""
from pyvc_spec import *


def sph_octets(ver, ptype, shf, apid, flags, count, dlen):
    """Space packet primary header, 4.1.3: version(3) type(1) sec-hdr(1) APID(11) | flags(2) count(14) | length(16)"""
    return (be(2, ver * 8192 + ptype * 4096 + shf * 2048 + apid)
            + be(2, flags * 16384 + count)
            + be(2, dlen))
