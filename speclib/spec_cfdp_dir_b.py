"""Layout oracles for the list-carrying CFDP file directives (Finished, Metadata, NAK),
written from CCSDS 727.0-B-5 section 5.2 (tables 5-7, 5-9, 5-10), independent of the library's code.

All oracles take the already encoded list part (`concat` of the items in list order) so that the
item encodings can come from the item oracles below (`tlv`, `lv`, `fss`)."""
from pyvc_spec import *
from spec_cfdp import pdu_header_octets, fss, fss_len, tlv, lv, with_crc_trailer

FILE_DIRECTIVE = 0
TOWARDS_RECEIVER = 0
TOWARDS_SENDER = 1


def crc_len(crc):
    if crc:
        return 2
    return 0


def directive_body(direction, mode, crc, large, segctrl, we, ws, src, seq, dst, params):
    """H ++ params: fixed header of a file directive (segment metadata flag 0) whose data-field length is the number of octets
    after the header (directive code, parameters and CRC trailer)"""
    return pdu_header_octets(FILE_DIRECTIVE, direction, mode, crc, large, len(params) + crc_len(crc), segctrl, 0, we, ws, src, seq, dst) + params


def directive_pdu(direction, mode, crc, large, segctrl, we, ws, src, seq, dst, params):
    """H ++ params ++ T: the trailer T (CRC-16 of everything before it) iff the CRC flag"""
    return with_crc_trailer(crc, directive_body(direction, mode, crc, large, segctrl, we, ws, src, seq, dst, params))


def finished_params(cc, delivery, file_status, responses, fault_location):
    """table 5-7: directive code 5 | condition code (4) spare (1)->0 delivery code (1) file status (2) |
    filestore responses | fault location.  (the delivery code is one bit at position 2: cc*16 + delivery*4 + status)"""
    return be(1, 5) + be(1, cc * 16 + delivery * 4 + file_status) + responses + fault_location


def metadata_params(closure, checksum_type, large, file_size, src_name, dst_name, options):
    """table 5-9: directive code 7 | reserved (1) closure requested (1) reserved (2) checksum type (4) | file size (FSS) |
    source file name LV | destination file name LV | options"""
    return be(1, 7) + be(1, closure * 64 + checksum_type) + fss(large, file_size) + lv(src_name) + lv(dst_name) + options


def nak_params(large, start, end, segreqs):
    """table 5-10: directive code 8 | start of scope (FSS) | end of scope (FSS) | segment requests"""
    return be(1, 8) + fss(large, start) + fss(large, end) + segreqs


def segreq(large, a, b):
    """one segment request: start offset (FSS), end offset (FSS)"""
    return fss(large, a) + fss(large, b)


def fss_fits(large, v):
    if large:
        return both(0 <= v, v < 18446744073709551616)
    return both(0 <= v, v < 4294967296)


def entity_id_tlv(w, v):
    """entity ID TLV (type 6) with a w-octet big-endian value"""
    return tlv(6, be(w, v))


def filestore_response(action, status, first, second_present, second, msg):
    """filestore response TLV (type 1), 5.4.2: action code (4) status code (4) | first file name LV |
    second file name LV (only for the two-name actions) | filestore message LV"""
    if second_present:
        return tlv(1, be(1, action * 16 + status) + lv(first) + lv(second) + lv(msg))
    return tlv(1, be(1, action * 16 + status) + lv(first) + lv(msg))
