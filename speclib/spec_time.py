"""Oracles for CCSDS day-segmented time codes (CCSDS 301.0-B-4, 3.3), written from the standard and
the property statement, independent of the library's code."""
from pyvc_spec import *

MS_PER_DAY = 86400000
US_PER_DAY = 86400000000
#: 1958-01-01 (CCSDS epoch) to 1970-01-01 (Unix epoch) in days
EPOCH_OFFSET_DAYS = 4383


def cds_short_octets(days, ms):
    """P-field 0b0100_0000 (no extension, time code id 0b100 = CDS, epoch 1958, 16-bit day segment,
    no sub-millisecond segment) | 16-bit day count | 32-bit millisecond of day"""
    return be(1, 0x40) + be(2, days) + be(4, ms)


def pfield_is_cds_short(p):
    """time code identification (bits 6..4) is CDS and the day segment is 16 bits wide (bit 2 clear)"""
    return both(bits(p, 6, 4) == 4, bits(p, 2, 2) == 0)


def unix_ms(days, ms):
    """milliseconds from 1970-01-01T00:00Z to 1958-01-01T00:00Z + days + ms"""
    return (days - EPOCH_OFFSET_DAYS) * MS_PER_DAY + ms


def timedelta_ms(td_days, td_seconds, td_microseconds):
    """whole milliseconds of a normalised timedelta"""
    return td_days * MS_PER_DAY + td_seconds * 1000 + td_microseconds // 1000
