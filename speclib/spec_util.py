"""Spec helpers for unsigned byte fields (C20)."""
from pyvc_spec import *


def pow256(w):
    """256**w for the supported widths"""
    if w == 0:
        return 1
    if w == 1:
        return 256
    if w == 2:
        return 65536
    if w == 4:
        return 4294967296
    if w == 8:
        return 18446744073709551616
    raise ValueError("unsupported width")


def width_ok(w):
    return either(w == 0, w == 1, w == 2, w == 4, w == 8)


def hex_view(v, w):
    """the documented hex view: 0x prefix and two digits per octet"""
    if w == 1:
        return f"{v:#04x}"
    if w == 2:
        return f"{v:#06x}"
    if w == 4:
        return f"{v:#010x}"
    if w == 8:
        return f"{v:#018x}"
    return None


def twos_complement(n, v):
    """big-endian two's complement of v in n octets"""
    if v < 0:
        return be(n, v + pow256(n))
    return be(n, v)
