"""Spec helpers for sequence counters (C19), written from the property statement."""
from pyvc_spec import *


def next_count(c, width):
    """(c + 1) mod 2^width for a count 0 <= c < 2^width"""
    if c + 1 == pow(2, width):
        return 0
    return c + 1


def in_range(c, width):
    """acceptable as a sequence count of that width"""
    return both(0 <= c, c <= pow(2, width) - 1)
