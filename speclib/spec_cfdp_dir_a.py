"""Layout oracles for the CFDP file-directive base and the four "scalar" directives (EOF, ACK, Prompt, Keep Alive),
written from CCSDS 727.0-B-5 section 5.2 (tables 5-4 .. 5-14), independent of the library's code."""
from pyvc_spec import *
from spec_cfdp import pdu_header_octets, fss, fss_len, tlv, with_crc_trailer

# directive codes, table 5-4
DC_EOF = 4
DC_FINISHED = 5
DC_ACK = 6
DC_METADATA = 7
DC_NAK = 8
DC_PROMPT = 9
DC_KEEP_ALIVE = 12

# direction bit of the fixed header: 0 = toward file receiver, 1 = toward file sender (table 5-1)
TOWARD_RECEIVER = 0
TOWARD_SENDER = 1

TLV_ENTITY_ID = 6


def crc_len(crc):
    if crc:
        return 2
    return 0


def directive_octets(direction, mode, crc, large, segctrl, we, ws, src, seq, dst, code, params):
    """A file-directive PDU: fixed header of a File Directive PDU (type bit 0, segment-metadata flag 0) whose data-field
    length counts every octet after the header (directive code, parameters, CRC trailer), the directive code octet,
    the directive parameter field, and the CRC-16 of everything before it iff the CRC flag is set."""
    dlen = 1 + len(params) + crc_len(crc)
    head = pdu_header_octets(0, direction, mode, crc, large, dlen, segctrl, 0, we, ws, src, seq, dst)
    return with_crc_trailer(crc, head + be(1, code) + params)


def directive_base_octets(direction, mode, crc, large, segctrl, we, ws, src, seq, dst, code, param_len):
    """what the directive base (header + directive code) contributes, for a parameter field of param_len octets"""
    head = pdu_header_octets(0, direction, mode, crc, large, param_len + 1, segctrl, 0, we, ws, src, seq, dst)
    return head + be(1, code)


def eof_params(large, cc, checksum, size, fault_loc):
    """table 5-6: condition code (4 bits), spare (4 bits) | 32-bit file checksum | FSS file size | fault location
    (entity-ID TLV, type 06) if present"""
    p = be(1, cc * 16) + checksum + fss(large, size)
    if fault_loc is None:
        return p
    return p + tlv(TLV_ENTITY_ID, fault_loc)


def eof_octets(mode, crc, large, segctrl, we, ws, src, seq, dst, cc, checksum, size, fault_loc):
    """EOF is sent by the file sender: direction = toward receiver"""
    return directive_octets(TOWARD_RECEIVER, mode, crc, large, segctrl, we, ws, src, seq, dst, DC_EOF,
                            eof_params(large, cc, checksum, size, fault_loc))


def ack_subtype(acked):
    """table 5-8: directive subtype code 0001 if the acknowledged directive is Finished, else 0000"""
    if acked == DC_FINISHED:
        return 1
    return 0


def ack_direction(acked):
    """the ACK of an EOF travels toward the file sender, the ACK of a Finished toward the file receiver"""
    if acked == DC_FINISHED:
        return TOWARD_RECEIVER
    return TOWARD_SENDER


def ack_octets(mode, crc, large, segctrl, we, ws, src, seq, dst, acked, cc, status):
    """table 5-8: directive code of acknowledged PDU (4 bits), subtype (4 bits) | condition code (4 bits), spare (2 bits),
    transaction status (2 bits)"""
    params = be(1, acked * 16 + ack_subtype(acked)) + be(1, cc * 16 + status)
    return directive_octets(ack_direction(acked), mode, crc, large, segctrl, we, ws, src, seq, dst, DC_ACK, params)


def prompt_octets(mode, crc, large, segctrl, we, ws, src, seq, dst, response):
    """table 5-12: response required (1 bit: 0 NAK, 1 Keep Alive), spare (7 bits); sent by the file sender"""
    return directive_octets(TOWARD_RECEIVER, mode, crc, large, segctrl, we, ws, src, seq, dst, DC_PROMPT, be(1, response * 128))


def keep_alive_octets(mode, crc, large, segctrl, we, ws, src, seq, dst, progress):
    """table 5-13: progress (FSS, big-endian); sent by the file receiver: direction = toward sender"""
    return directive_octets(TOWARD_SENDER, mode, crc, large, segctrl, we, ws, src, seq, dst, DC_KEEP_ALIVE, fss(large, progress))


def fss_max(large):
    """exclusive upper bound of a file-size-sensitive value"""
    if large:
        return 18446744073709551616
    return 4294967296


def raw_header_len(data):
    """length of the fixed header declared by octet 3 (entity-ID and sequence-number widths)"""
    return 4 + 2 * (bits(data[3], 6, 4) + 1) + (bits(data[3], 2, 0) + 1)


def raw_packet_len(data):
    """N: header length + declared data-field length"""
    return raw_header_len(data) + data[1] * 256 + data[2]


def raw_crc_flag(data):
    return bits(data[0], 1, 1)


def raw_large_flag(data):
    return bits(data[0], 0, 0)
