"""Layout oracles written from ECSS-E-ST-70-41C (PUS-C) 7.4, independent of the library's code."""
from pyvc_spec import *
from spec_ccsds import sph_octets


def pus_tc_octets(apid, count, service, subservice, source_id, ack_flags, app_data):
    """primary header (version 0, TC, sec. header present, unsegmented, length = total - 7) |
    PUS version 2, ack flags | service | subservice | 16-bit source ID | application data | CRC-16"""
    body = (sph_octets(0, 1, 1, apid, 3, count, len(app_data) + 5 + 2 - 1)
            + be(1, 2 * 16 + ack_flags) + be(1, service) + be(1, subservice) + be(2, source_id)
            + app_data)
    return body + be(2, crc16(body))


def pus_tm_octets(version, apid, count, service, subservice, msg_counter, dest_id, time_ref, timestamp, source_data):
    """primary header (TM, sec. header present, unsegmented, length = total - 7) | PUS version 2,
    spacecraft time reference | service | subservice | 16-bit message counter | 16-bit destination ID |
    timestamp | source data | CRC-16"""
    body = (sph_octets(version, 0, 1, apid, 3, count, 7 + len(timestamp) + len(source_data) + 2 - 1)
            + be(1, 2 * 16 + time_ref) + be(1, service) + be(1, subservice) + be(2, msg_counter) + be(2, dest_id)
            + timestamp + source_data)
    return body + be(2, crc16(body))


def req_id_octets(version, ptype, shf, apid, flags, count):
    """request ID (ECSS-E-ST-70-41C 8.1.2.1 / 5.4.11.2.1): the first four octets of the telecommand's primary header:
    packet version number(3) | packet ID (type, sec. header flag, APID) | packet sequence control (flags, count)"""
    return be(2, version * 8192 + ptype * 4096 + shf * 2048 + apid) + be(2, flags * 16384 + count)


def srv1_source_data(req_id4, subservice, step_width, step, code_width, code, failure_data):
    """source data of a service-1 verification report (8.1.2.x): request ID | step ID (step reports 5, 6 only) |
    failure notice = failure code + failure data (failure reports 2, 4, 6, 8 only)"""
    d = req_id4
    if subservice == 5 or subservice == 6:
        d = d + be(step_width, step)
    if subservice == 2 or subservice == 4 or subservice == 6 or subservice == 8:
        d = d + be(code_width, code) + failure_data
    return d
