"""Layout oracles written from ECSS-E-ST-70-41C (PUS-C) 7.4, independent of the library's code."""
from pyvc_spec import *
from spec_ccsds import sph_octets


def pus_tc_octets(apid, count, service, subservice, source_id, ack_flags, app_data):
    """primary header (version 0, TC, sec. header present, unsegmented, length = total - 7) |
    PUS version 2, ack flags | service | subservice | 16-bit source ID | application data | CRC-16"""
    body = (sph_octets(0, 1, 1, apid, 3, count, len(app_data) + 5 + 2 - 1)
            + be(1, 2 * 16 + ack_flags) + be(1, service) + be(1, subservice) + be(2, source_id)
            + app_data)
    return body + be(2, crc16(body))


def pus_tm_octets(version, apid, count, service, subservice, msg_counter, dest_id, time_ref, timestamp, source_data):
    """primary header (TM, sec. header present, unsegmented, length = total - 7) | PUS version 2,
    spacecraft time reference | service | subservice | 16-bit message counter | 16-bit destination ID |
    timestamp | source data | CRC-16"""
    body = (sph_octets(version, 0, 1, apid, 3, count, 7 + len(timestamp) + len(source_data) + 2 - 1)
            + be(1, 2 * 16 + time_ref) + be(1, service) + be(1, subservice) + be(2, msg_counter) + be(2, dest_id)
            + timestamp + source_data)
    return body + be(2, crc16(body))
