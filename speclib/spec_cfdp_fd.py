"""Layout oracle for the CFDP File Data PDU, written from CCSDS 727.0-B-5 section 5.3 (table 5-14),
independent of the library's code."""
from pyvc_spec import *
from spec_cfdp import pdu_header_octets, fss, fss_len, with_crc_trailer

PDU_TYPE_FILE_DATA = 1
DIRECTION_TOWARDS_RECEIVER = 0


def seg_metadata_octets(has_meta, state, meta):
    """record continuation state (2 bits) | segment metadata length (6 bits) | segment metadata;
    present iff the header's segment metadata flag is set"""
    if has_meta:
        return be(1, state * 64 + len(meta)) + meta
    return be(0, 0)


def seg_metadata_len(has_meta, meta):
    if has_meta:
        return 1 + len(meta)
    return 0


def file_data_field_len(crc, large, has_meta, meta, data):
    """what the 16-bit PDU data field length has to announce: everything after the fixed header"""
    n = seg_metadata_len(has_meta, meta) + fss_len(large) + len(data)
    if crc:
        return n + 2
    return n


def file_data_octets(mode, crc, large, segctrl, we, ws, src, seq, dst, has_meta, state, meta, offset, data):
    """File Data PDU: fixed header (type = file data, direction = towards receiver, segment metadata flag)
    ++ [state<<6 | len(meta)] ++ meta (iff metadata) ++ FSS offset ++ file data ++ CRC-16 trailer (iff CRC flag)"""
    return with_crc_trailer(crc, file_data_body(mode, crc, large, segctrl, we, ws, src, seq, dst, has_meta, state, meta, offset, data))


def file_data_body(mode, crc, large, segctrl, we, ws, src, seq, dst, has_meta, state, meta, offset, data):
    """everything in front of the CRC trailer"""
    segmeta = 0
    if has_meta:
        segmeta = 1
    body = (pdu_header_octets(PDU_TYPE_FILE_DATA, DIRECTION_TOWARDS_RECEIVER, mode, crc, large,
                              file_data_field_len(crc, large, has_meta, meta, data), segctrl, segmeta, we, ws, src, seq, dst)
            + seg_metadata_octets(has_meta, state, meta)
            + fss(large, offset)
            + data)
    return body


def max_file_seg_len(we, ws, crc, large, has_meta, meta, max_packet_len):
    """largest file segment so that the whole PDU does not exceed max_packet_len (negative: impossible)"""
    n = max_packet_len - (4 + 2 * we + ws) - seg_metadata_len(has_meta, meta) - fss_len(large)
    if crc:
        return n - 2
    return n
